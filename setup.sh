#!/bin/bash
# Builds the verification tools from files on disk only (offline) and warms the Go build cache.
set -e
export GOFLAGS=-mod=mod GOPROXY=off GOSUMDB=off GOTOOLCHAIN=local
V=/verif
mkdir -p $V/bin
(cd $V/engine/instr && go build -o $V/bin/instr .)
(cd $V/engine && go build ./... )
S=$(mktemp -d)
trap 'rm -rf "$S"' EXIT
$V/lib/e1build.sh "$S" >/dev/null
VERIF_BUILD_MR=1 $V/lib/e2build.sh "$S" >/dev/null
echo "setup ok"
