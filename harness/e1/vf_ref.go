package frugal

// Reference encoder / parser for Frugal v0 frames, written from documentation/protocol.md and
// independent of protocol.go.

import (
	"encoding/binary"
	"errors"
	"sort"
)

// vfEncodeHeaders returns version byte, u32 size, then length-prefixed pairs in sorted name order.
func vfEncodeHeaders(h map[string]string) []byte {
	names := make([]string, 0, len(h))
	for k := range h {
		names = append(names, k)
	}
	sort.Strings(names)
	var body []byte
	for _, k := range names {
		body = binary.BigEndian.AppendUint32(body, uint32(len(k)))
		body = append(body, k...)
		body = binary.BigEndian.AppendUint32(body, uint32(len(h[k])))
		body = append(body, h[k]...)
	}
	out := []byte{0}
	out = binary.BigEndian.AppendUint32(out, uint32(len(body)))
	return append(out, body...)
}

// vfFrame builds size-prefixed frame = u32 len | headers | payload.
func vfFrame(h map[string]string, payload []byte) []byte {
	b := append(vfEncodeHeaders(h), payload...)
	out := binary.BigEndian.AppendUint32(nil, uint32(len(b)))
	return append(out, b...)
}

// vfParse parses an unframed message (no size prefix) into headers and payload.
func vfParse(b []byte) (map[string]string, []byte, error) {
	if len(b) < 5 {
		return nil, nil, errors.New("short")
	}
	if b[0] != 0 {
		return nil, nil, errors.New("version")
	}
	n := int(binary.BigEndian.Uint32(b[1:5]))
	if n < 0 || 5+n > len(b) {
		return nil, nil, errors.New("header size")
	}
	hb := b[5 : 5+n]
	h := map[string]string{}
	for len(hb) > 0 {
		if len(hb) < 4 {
			return nil, nil, errors.New("pair")
		}
		l := int(binary.BigEndian.Uint32(hb))
		hb = hb[4:]
		if l < 0 || l > len(hb) {
			return nil, nil, errors.New("name")
		}
		k := string(hb[:l])
		hb = hb[l:]
		if len(hb) < 4 {
			return nil, nil, errors.New("pair")
		}
		l = int(binary.BigEndian.Uint32(hb))
		hb = hb[4:]
		if l < 0 || l > len(hb) {
			return nil, nil, errors.New("value")
		}
		h[k] = string(hb[:l])
		hb = hb[l:]
	}
	return h, b[5+n:], nil
}
