package frugal

// Harness "pubsub" (C07): the real NATS and STOMP subscriber / publisher transports over the broker
// fakes. Every message sequence over {valid, foreign topic, malformed} with Unsubscribe at every
// position (sequential) or racing (own thread); all schedules of publisher, broker dispatcher,
// workers / processMessages, ack goroutines and the unsubscriber.

import (
	"unsafe"
	"reflect"
	"encoding/binary"
	"errors"
	"fmt"
	"io"
	"strconv"
	"strings"

	"github.com/apache/thrift/lib/go/thrift"

	"verif/engine/vsched"
	"verif/engine/vsched/fakenats"
	"verif/engine/vsched/fakestomp"
)

type vfPSState struct {
	delivered   []string // payload markers in invocation order
	delivered2  []string // the same for the second subscription (topicB), when there is one
	unsub2Err   error
	sameTopic   bool // s2=same: the second subscription listens on topicA too
	startedLate []string // invocations that started for messages published after Unsubscribe returned
	pubBefore   map[string]bool
	pubAfter    map[string]bool
	unsubCalled bool
	unsubRet    bool
	hdrBad      string
	stomp       *fakestomp.Conn
	nats        *fakenats.Conn
	unsubErr    error
}

func vfPSMake(scn string) (func(), func(*vsched.Exec) (string, *vsched.Violation)) {
	// scn: "t=nats,w=1,m=V.M0.V,u=2" | u=none | u=race
	// s2=1: a second subscription on topicB made from the same factory / connection; u2=end: it
	// unsubscribes after the last message
	cfg := map[string]string{"t": "nats", "w": "1", "m": "V", "u": "none", "s2": "0", "u2": "none"}
	for _, kv := range strings.Split(scn, ",") {
		p := strings.SplitN(kv, "=", 2)
		if len(p) == 2 {
			cfg[p[0]] = p[1]
		}
	}
	msgs := strings.Split(cfg["m"], ".")
	workers, _ := strconv.Atoi(cfg["w"])
	var st *vfPSState
	body := func() {
		vfResetGlobals()
		st = &vfPSState{pubBefore: map[string]bool{}, pubAfter: map[string]bool{}}
		var sub, sub2 FSubscriberTransport
		var pub FPublisherTransport
		var raw func(topic string, data []byte)
		if cfg["t"] == "nats" {
			c := fakenats.NewConn()
			c.Async = cfg["async"] == "1" // messages take a trip through the network before they arrive
			st.nats = c
			factory := NewFNatsSubscriberFactoryBuilder(c).WithWorkerCount(uint(workers)).WithQueueLength(4).Build()
			sub = factory.GetTransport()
			// the builder's factory ignores its queue settings in GetTransport: use what it returns
			// (fields are reached by name through reflection: a tree that organises the subscriber
			// differently still builds, and simply runs with what its factory produced)
			vfPokeField(sub, "workerCount", uint(workers))
			if q, err := strconv.Atoi(cfg["q"]); err == nil {
				// a short work queue, so that a handful of messages is a burst that fills it
				vfPokeChanCap(sub, "workC", q)
			}
			if cfg["s2"] == "1" || cfg["s2"] == "same" {
				sub2 = factory.GetTransport()
				vfPokeField(sub2, "workerCount", uint(workers))
			}
			pub = NewNatsFPublisherTransport(c)
			raw = func(topic string, data []byte) { c.Publish("frugal."+topic, data) }
		} else {
			c := fakestomp.NewConn()
			c.FailAcks = cfg["ack"] == "fail"
			st.stomp = c
			sub = newStompFSubscriberTransport(c, "", false)
			if cfg["s2"] == "1" || cfg["s2"] == "same" {
				sub2 = newStompFSubscriberTransport(c, "", false)
			}
			pub = newStompFPublisherTransport(c, 0, "")
			raw = func(topic string, data []byte) { c.Send("/topic/frugal."+topic, "application/octet-stream", data) }
		}
		pub.Open()
		var mkcb func(second bool) FAsyncCallback
		mkcb = func(second bool) FAsyncCallback {
			return func(tr thrift.TTransport) error {
				// like a generated recv callback, read incrementally and stop at the first error,
				// leaving the rest of the frame unread
				var hd [5]byte
				if _, err := io.ReadFull(tr, hd[:1]); err != nil || hd[0] != 0 {
					return errors.New("bad version")
				}
				if _, err := io.ReadFull(tr, hd[1:5]); err != nil {
					return errors.New("short header size")
				}
				n := int(binary.BigEndian.Uint32(hd[1:5]))
				if n < 0 || uint64(n) > tr.RemainingBytes() {
					return errors.New("header block longer than the frame")
				}
				hb := make([]byte, n)
				if _, err := io.ReadFull(tr, hb); err != nil {
					return errors.New("short header block")
				}
				rest, _ := io.ReadAll(tr)
				h, pl, err := vfParse(append(append(append([]byte{}, hd[:]...), hb...), rest...))
				if err != nil {
					return errors.New("bad frame")
				}
				mark := string(pl)
				if h["_cid"] != "cid-"+mark || h["user"] != "hdr-"+mark {
					st.hdrBad = fmt.Sprintf("message %s delivered with headers %v", mark, h)
				}
				if second {
					vsched.Note("deliver to the second subscription " + mark)
					st.delivered2 = append(st.delivered2, mark)
					vsched.Yield()
					return nil
				}
				if st.pubAfter[mark] {
					st.startedLate = append(st.startedLate, mark)
				}
				vsched.Note("deliver " + mark)
				st.delivered = append(st.delivered, mark)
				vsched.Yield()
				return nil
			}
		}
		if err := sub.Subscribe("topicA", mkcb(false)); err != nil {
			panic(err)
		}
		if sub2 != nil {
			t2 := "topicB"
			if cfg["s2"] == "same" {
				t2 = "topicA"
				st.sameTopic = true
			}
			if err := sub2.Subscribe(t2, mkcb(true)); err != nil {
				panic(err)
			}
		}
		doUnsub := func() {
			st.unsubCalled = true
			vsched.Note("Unsubscribe called")
			st.unsubErr = sub.Unsubscribe()
			st.unsubRet = true
			vsched.Note("Unsubscribe returned")
		}
		upos := -1
		if n, err := strconv.Atoi(cfg["u"]); err == nil {
			upos = n
		}
		vsched.GoNamed("publisher", true, func() {
			for i, kind := range msgs {
				if i == upos {
					doUnsub()
				}
				mark := fmt.Sprintf("%s%d", kind, i)
				frame := vfFrame(map[string]string{"_cid": "cid-" + mark, "_opid": "0", "user": "hdr-" + mark}, []byte(mark))
				// classify at the moment the message reaches the broker
				classify := func() {
					if !st.unsubCalled {
						st.pubBefore[mark] = true
					}
					if st.unsubRet {
						st.pubAfter[mark] = true
					}
				}
				if st.nats != nil {
					st.nats.OnPublish = func(string, string, []byte) error { classify(); return nil }
				} else {
					st.stomp.OnSend = func(string, []byte) error { classify(); return nil }
				}
				switch kind {
				case "V":
					if err := pub.Publish("topicA", frame); err != nil {
						panic(err)
					}
				case "F":
					pub.Publish("topicB", frame)
				case "M0":
					raw("topicA", []byte{})
				case "M3":
					raw("topicA", []byte{0, 0, 0})
				case "MH":
					raw("topicA", []byte{0, 0, 0, 5, 0, 0, 0, 0, 9}) // header block longer than the frame
				case "MV":
					raw("topicA", []byte{0, 0, 0, 1, 7}) // unsupported version byte
				case "MVL":
					// unsupported version byte followed by more bytes the callback never reads
					raw("topicA", append([]byte{0, 0, 0, 13, 7}, []byte("unread-bytes")...))
				case "MHL":
					// header block declared longer than the frame, with bytes left unread
					raw("topicA", append([]byte{0, 0, 0, 25, 0, 0, 0, 0, 200}, []byte("twenty-bytes-of-rest")...))
				}
			}
			if upos == len(msgs) {
				doUnsub()
			}
			if sub2 != nil && cfg["u2"] == "end" {
				st.unsub2Err = sub2.Unsubscribe()
			}
		})
		if cfg["u"] == "race" {
			vsched.GoNamed("unsubscriber", true, doUnsub)
		}
	}
	check := func(e *vsched.Exec) (string, *vsched.Violation) {
		out := fmt.Sprintf("delivered=%v unsub=%v/%v", st.delivered, st.unsubCalled, st.unsubRet)
		var first *vsched.Violation
		viol := func(key, msg string) {
			if first == nil && vfWants(key) {
				first = &vsched.Violation{Key: key, Msg: msg + " | " + out}
			}
		}
		if e.Status == vsched.Panicked {
			viol("C07/panic/"+vfFirstLine(e.PanicS), e.PanicS)
			return out, first
		}
		if e.Status == vsched.Horizon {
			viol("C07/livelock", "step horizon exceeded")
			return out, first
		}
		for _, b := range e.Blocked() {
			if b.FG {
				viol("C07/blocked/"+b.Thread+"/"+b.Kind.String()+"@"+b.Where, fmt.Sprintf("%s never returns (parked in %s at %s)", b.Thread, b.Kind, b.Where))
			}
		}
		if first != nil {
			return out, first
		}
		count := map[string]int{}
		for _, d := range st.delivered {
			count[d]++
			if !strings.HasPrefix(d, "V") {
				viol("C07/foreign-or-malformed-delivered", fmt.Sprintf("handler invoked for %s, which is not a valid message of the subscribed topic", d))
			}
			if count[d] > 1 {
				viol("C07/duplicate-delivery", fmt.Sprintf("message %s delivered %d times", d, count[d]))
			}
		}
		if st.hdrBad != "" {
			viol("C07/headers-or-payload-changed", st.hdrBad)
		}
		if len(st.startedLate) > 0 {
			viol("C07/delivery-after-unsubscribe", fmt.Sprintf("handler invocation started for %v, published after Unsubscribe returned", st.startedLate))
		}
		// expected valid messages
		var validBefore []string
		for i, k := range msgs {
			m := fmt.Sprintf("%s%d", k, i)
			if k == "V" && st.pubBefore[m] {
				validBefore = append(validBefore, m)
			}
		}
		if !st.unsubCalled {
			// nothing unsubscribed: every valid message exactly once
			for _, m := range validBefore {
				if count[m] != 1 {
					viol("C07/message-lost", fmt.Sprintf("valid message %s was never delivered although the subscriber stayed subscribed (sequence %s)", m, cfg["m"]))
				}
			}
		}
		if workers == 1 {
			// order: delivered must be a subsequence of the publish order
			last := -1
			for _, d := range st.delivered {
				idx := vfMarkIndex(d)
				if idx < last {
					viol("C07/out-of-order", fmt.Sprintf("single-worker subscriber delivered %v out of publish order", st.delivered))
				}
				last = idx
			}
		}
		if st.unsubErr != nil {
			viol("C07/unsubscribe-error", fmt.Sprint(st.unsubErr))
		}
		if cfg["s2"] == "same" {
			// a second subscriber of the same topic on the same connection, which stays subscribed:
			// every valid topicA message reaches it exactly once, in order, and nothing else does
			count2 := map[string]int{}
			last := -1
			for _, d := range st.delivered2 {
				count2[d]++
				if !strings.HasPrefix(d, "V") {
					viol("C07/foreign-or-malformed-delivered", fmt.Sprintf("the second topicA subscription's handler was invoked for %s", d))
				}
				if count2[d] > 1 {
					viol("C07/duplicate-delivery", fmt.Sprintf("message %s delivered %d times to the second topicA subscription", d, count2[d]))
				}
				if idx := vfMarkIndex(d); workers == 1 && idx < last {
					viol("C07/out-of-order", fmt.Sprintf("single-worker second topicA subscription delivered %v out of publish order", st.delivered2))
				} else {
					last = idx
				}
			}
			for i, k := range msgs {
				if m := fmt.Sprintf("%s%d", k, i); k == "V" && count2[m] != 1 {
					viol("C07/message-lost/sibling-subscription", fmt.Sprintf("topicA message %s was never delivered to the second topicA subscription, which stayed subscribed (the first one: unsubscribe=%s)", m, cfg["u"]))
				}
			}
		}
		if cfg["s2"] == "1" {
			// the second subscription (topicB) is independent of the first: it gets every topicB
			// message exactly once whatever happens to the first one, and nothing else
			count2 := map[string]int{}
			last := -1
			for _, d := range st.delivered2 {
				count2[d]++
				if !strings.HasPrefix(d, "F") {
					viol("C07/foreign-or-malformed-delivered", fmt.Sprintf("the topicB subscription's handler was invoked for %s", d))
				}
				if count2[d] > 1 {
					viol("C07/duplicate-delivery", fmt.Sprintf("message %s delivered %d times to the topicB subscription", d, count2[d]))
				}
				idx := vfMarkIndex(d)
				if workers == 1 && idx < last {
					viol("C07/out-of-order", fmt.Sprintf("single-worker topicB subscription delivered %v out of publish order", st.delivered2))
				}
				last = idx
			}
			if cfg["u2"] != "end" {
				for i, k := range msgs {
					m := fmt.Sprintf("%s%d", k, i)
					if k == "F" && count2[m] != 1 {
						viol("C07/message-lost/sibling-subscription", fmt.Sprintf("topicB message %s was never delivered to the topicB subscription, which stayed subscribed (the topicA subscription: unsubscribe=%s)", m, cfg["u"]))
					}
				}
			}
			if st.unsub2Err != nil {
				viol("C07/unsubscribe-error", fmt.Sprint(st.unsub2Err))
			}
		}
		return out, first
	}
	return body, check
}

func init() {
	vfRegister(&vfHarness{
		Name:  "pubsub",
		Props: []string{"C07"},
		Scenarios: func(tier string) []string {
			var out []string
			kinds := []string{"V", "F", "M0", "M3", "MH", "MV", "MVL", "MHL"}
			var seqs []string
			n := 3
			var gen func(p []string)
			gen = func(p []string) {
				if len(p) == n {
					// keep sequences that contain at least one valid message
					if strings.Contains(strings.Join(p, "."), "V") {
						seqs = append(seqs, strings.Join(p, "."))
					}
					return
				}
				for _, k := range kinds {
					gen(append(append([]string{}, p...), k))
				}
			}
			gen(nil)
			for _, t := range []string{"nats", "stomp"} {
				for _, s := range seqs {
					out = append(out, fmt.Sprintf("t=%s,w=1,m=%s,u=none", t, s))
				}
				// unsubscribe positions on a few representative sequences
				for _, s := range []string{"V.V.V", "V.M0.V", "M3.V.V", "V.F.V"} {
					for u := 0; u <= 3; u++ {
						out = append(out, fmt.Sprintf("t=%s,w=1,m=%s,u=%d", t, s, u))
					}
					out = append(out, fmt.Sprintf("t=%s,w=1,m=%s,u=race", t, s))
				}
			}
			for _, s := range []string{"V.V.V", "V.M0.V", "M3.V.V", "V.V.F"} {
				out = append(out, fmt.Sprintf("t=nats,w=2,m=%s,u=none", s), fmt.Sprintf("t=nats,w=2,m=%s,u=race", s))
			}
			// messages that are still on their way through the network when the next thing happens
			for _, s := range []string{"V.V.V", "V.M0.V", "M3.V.V"} {
				out = append(out, fmt.Sprintf("t=nats,w=1,m=%s,u=none,async=1", s), fmt.Sprintf("t=nats,w=1,m=%s,u=race,async=1", s), fmt.Sprintf("t=nats,w=1,m=%s,u=2,async=1", s))
			}
			out = append(out, "t=nats,w=2,m=V.V.V,u=none,async=1", "t=nats,w=1,m=V.F.V,u=1,s2=1,async=1")
			// two subscriptions made from one factory / connection, on different topics
			for _, t := range []string{"nats", "stomp"} {
				for _, s := range []string{"V.F.V", "F.V.F", "V.V.F", "F.F.V"} {
					for _, u := range []string{"none", "0", "1", "2", "race"} {
						out = append(out, fmt.Sprintf("t=%s,w=1,m=%s,u=%s,s2=1", t, s, u))
					}
					out = append(out, fmt.Sprintf("t=%s,w=1,m=%s,u=1,s2=1,u2=end", t, s))
				}
			}
			out = append(out, "t=nats,w=2,m=V.F.V,u=none,s2=1", "t=nats,w=2,m=F.V.F,u=1,s2=1")
			// two subscribers of the SAME topic on one connection
			for _, t := range []string{"nats", "stomp"} {
				us := []string{"none", "1"}
				if tier == "thorough" {
					us = append(us, "race", "0", "2")
				}
				for _, u := range us {
					out = append(out, fmt.Sprintf("t=%s,w=1,m=V.V.F,u=%s,s2=same", t, u), fmt.Sprintf("t=%s,w=1,m=V.M0.V,u=%s,s2=same", t, u))
				}
			}
			// bursts against a short work queue (0 or 1 slots): more messages outstanding than the queue
			// and the worker hold
			for _, q := range []string{"0", "1"} {
				out = append(out, "t=nats,w=1,q="+q+",m=V.V.V.V,u=none", "t=nats,w=1,q="+q+",m=V.V.V.V.V,u=none", "t=nats,w=1,q="+q+",m=V.M3.V.V.V,u=none")
			}
			// long runs of valid messages, with working and with failing acknowledgements (STOMP) and
			// with malformed ones in between
			long := strings.TrimSuffix(strings.Repeat("V.", 12), ".")
			out = append(out, "t=stomp,w=1,m=V.V.V.V.V.V,u=none", "t=stomp,w=1,m="+long+",u=none,ack=fail", "t=nats,w=1,m="+long+",u=none",
				"t=stomp,w=1,m=V.M3.V.MV.V.MH.V.M0.V.MVL.V.MHL.V,u=none,ack=fail", "t=nats,w=1,m=V.M3.V.MV.V.MH.V.M0.V.MVL.V.MHL.V,u=none")
			if tier == "thorough" {
				for _, t := range []string{"nats", "stomp"} {
					for _, s := range []string{"V.V.V.V", "V.M0.V.V", "V.V.M3.V", "MH.V.F.V", "V.MV.V.V"} {
						for u := 0; u <= 4; u++ {
							out = append(out, fmt.Sprintf("t=%s,w=1,m=%s,u=%d", t, s, u))
						}
						out = append(out, fmt.Sprintf("t=%s,w=1,m=%s,u=none", t, s), fmt.Sprintf("t=%s,w=1,m=%s,u=race", t, s))
					}
				}
			}
			return out
		},
		Make: vfPSMake,
		Bound: func(tier, scn string) (int, bool) {
			if strings.Count(scn, ".") >= 8 {
				return 0, true // long sequences: no deviations, only the free choices
			}
			if tier == "thorough" {
				return 3, true
			}
			return 2, true
		},
	})
}

// vfMarkIndex is the position in the publish sequence encoded in a delivered marker ("V2", "F0";
// only valid messages are ever delivered, and their kinds are one letter).
func vfMarkIndex(mark string) int {
	if len(mark) < 2 {
		return -1
	}
	n, err := strconv.Atoi(mark[1:])
	if err != nil {
		return -1
	}
	return n
}

// vfPokeField sets the unexported field `name` of the struct obj points to when such a field of a
// matching type exists; it reports whether it did.
func vfPokeField(obj interface{}, name string, val interface{}) bool {
	v := reflect.ValueOf(obj)
	if v.Kind() != reflect.Ptr || v.Elem().Kind() != reflect.Struct {
		return false
	}
	f := v.Elem().FieldByName(name)
	nv := reflect.ValueOf(val)
	if !f.IsValid() || !nv.Type().AssignableTo(f.Type()) {
		return false
	}
	reflect.NewAt(f.Type(), unsafe.Pointer(f.UnsafeAddr())).Elem().Set(nv)
	return true
}

// vfPokeChanCap replaces the channel held by field `name` with a fresh one of capacity n.
func vfPokeChanCap(obj interface{}, name string, n int) bool {
	v := reflect.ValueOf(obj)
	if v.Kind() != reflect.Ptr || v.Elem().Kind() != reflect.Struct {
		return false
	}
	f := v.Elem().FieldByName(name)
	if !f.IsValid() || f.Kind() != reflect.Chan {
		return false
	}
	reflect.NewAt(f.Type(), unsafe.Pointer(f.UnsafeAddr())).Elem().Set(reflect.MakeChan(f.Type(), n))
	return true
}
