package frugal

// E3 mode "c12": size limits. For every message shape x protocol x transport x direction the exact
// framed size S is first measured with an unbounded buffer; then the limit is placed at S-1, S,
// S+1, S/2 and 2S (for the fixed 1 MiB NATS limit the payload is sized instead) and the real
// client / server path is driven. Oracle: size > limit => REQUEST_TOO_LARGE (requests, publishes)
// or RESPONSE_TOO_LARGE (responses) and nothing is handed to the transport; size <= limit => success
// with the same bytes; afterwards a small call succeeds on the same client and server.

import (
	"bytes"
	"context"
	"encoding/json"
	"fmt"
	"net/http"
	"net/http/httptest"
	"os"
	"strings"
	"sync"
	"time"

	"github.com/apache/thrift/lib/go/thrift"

	"verif/engine/vsched"
	"verif/engine/vsched/fakenats"
	"verif/engine/vsched/fakestomp"
)

// vbShape is a hand-written TStruct: up to three strings, a binary, a list<i32>, small fields and a
// trailing bool; which part is big is decided by the shape name.
type vbShape struct {
	s1, s2, s3 string
	bin        []byte
	list       []int32
	small      int
	trailing   bool
	hasBool    bool
}

func (s *vbShape) Write(ctx context.Context, p thrift.TProtocol) error {
	if err := p.WriteStructBegin(ctx, "shape"); err != nil {
		return err
	}
	wstr := func(id int16, v string) error {
		if v == "" {
			return nil
		}
		if err := p.WriteFieldBegin(ctx, "s", thrift.STRING, id); err != nil {
			return err
		}
		if err := p.WriteString(ctx, v); err != nil {
			return err
		}
		return p.WriteFieldEnd(ctx)
	}
	if err := wstr(1, s.s1); err != nil {
		return err
	}
	for i := 0; i < s.small; i++ {
		if err := p.WriteFieldBegin(ctx, "n", thrift.I32, int16(100+i)); err != nil {
			return err
		}
		if err := p.WriteI32(ctx, int32(i)); err != nil {
			return err
		}
		if err := p.WriteFieldEnd(ctx); err != nil {
			return err
		}
	}
	if err := wstr(2, s.s2); err != nil {
		return err
	}
	if s.bin != nil {
		if err := p.WriteFieldBegin(ctx, "b", thrift.STRING, 4); err != nil {
			return err
		}
		if err := p.WriteBinary(ctx, s.bin); err != nil {
			return err
		}
		if err := p.WriteFieldEnd(ctx); err != nil {
			return err
		}
	}
	if s.list != nil {
		if err := p.WriteFieldBegin(ctx, "l", thrift.LIST, 5); err != nil {
			return err
		}
		if err := p.WriteListBegin(ctx, thrift.I32, len(s.list)); err != nil {
			return err
		}
		for _, v := range s.list {
			if err := p.WriteI32(ctx, v); err != nil {
				return err
			}
		}
		if err := p.WriteListEnd(ctx); err != nil {
			return err
		}
		if err := p.WriteFieldEnd(ctx); err != nil {
			return err
		}
	}
	if err := wstr(3, s.s3); err != nil {
		return err
	}
	if s.hasBool {
		if err := p.WriteFieldBegin(ctx, "t", thrift.BOOL, 6); err != nil {
			return err
		}
		if err := p.WriteBool(ctx, s.trailing); err != nil {
			return err
		}
		if err := p.WriteFieldEnd(ctx); err != nil {
			return err
		}
	}
	if err := p.WriteFieldStop(ctx); err != nil {
		return err
	}
	return p.WriteStructEnd(ctx)
}
func (s *vbShape) Read(ctx context.Context, p thrift.TProtocol) error {
	return p.Skip(ctx, thrift.STRUCT)
}
func (s *vbShape) String() string { return "vbShape" }

var vbShapeNames = []string{"string-first", "string-middle", "string-last", "binary", "list", "many-small", "trailing-bool", "string-last-bool"}

func vbMakeShape(name string, n int) *vbShape {
	big := strings.Repeat("Z", n)
	switch name {
	case "string-first":
		return &vbShape{s1: big, s2: "m", s3: "e"}
	case "string-middle":
		return &vbShape{s1: "f", s2: big, s3: "e"}
	case "string-last":
		return &vbShape{s1: "f", s2: "m", s3: big}
	case "binary":
		return &vbShape{s1: "f", bin: bytes.Repeat([]byte{0x5a}, n)}
	case "list":
		return &vbShape{s1: "f", list: make([]int32, n/4+1)}
	case "many-small":
		return &vbShape{s1: "f", small: n/7 + 1}
	case "trailing-bool":
		return &vbShape{s1: big, hasBool: true, trailing: true}
	case "string-last-bool":
		return &vbShape{s1: "f", s3: big, hasBool: true}
	}
	panic(name)
}

// vbBigFn mirrors a generated processor function: read args, reply with a result struct.
type vbBigFn struct {
	*FBaseProcessorFunction
	result func() thrift.TStruct
	calls  *int
}

func (f *vbBigFn) Process(fctx FContext, in, out *FProtocol) error {
	ctx := context.Background()
	if err := in.Skip(ctx, thrift.STRUCT); err != nil {
		return err
	}
	if err := in.ReadMessageEnd(ctx); err != nil {
		return err
	}
	*f.calls++
	return f.SendReply(fctx, out, "big", f.result())
}

func vbBigProcessor(result func() thrift.TStruct) (*FBaseProcessor, *int) {
	n := 0
	p := NewFBaseProcessor()
	p.AddToProcessorMap("big", &vbBigFn{FBaseProcessorFunction: NewFBaseProcessorFunction(p.GetWriteMutex(), nil), result: result, calls: &n})
	return p, &n
}

// vbHandlerRT serves HTTP requests in-process through the real handler func and records what was
// actually sent.
type vbHandlerRT struct {
	h        http.HandlerFunc
	requests int
	lastResp int
}

func (r *vbHandlerRT) RoundTrip(req *http.Request) (*http.Response, error) {
	r.requests++
	rec := httptest.NewRecorder()
	body := new(bytes.Buffer)
	body.ReadFrom(req.Body)
	req2 := httptest.NewRequest("POST", "/frugal", bytes.NewReader(body.Bytes()))
	req2.Header = req.Header
	r.h(rec, req2)
	r.lastResp = rec.Body.Len()
	return rec.Result(), nil
}

func vbErrType(err error) string {
	if err == nil {
		return "ok"
	}
	if te, ok := err.(thrift.TTransportException); ok {
		switch te.TypeId() {
		case TRANSPORT_EXCEPTION_REQUEST_TOO_LARGE:
			return "REQUEST_TOO_LARGE"
		case TRANSPORT_EXCEPTION_RESPONSE_TOO_LARGE:
			return "RESPONSE_TOO_LARGE"
		case TRANSPORT_EXCEPTION_TIMED_OUT:
			return "TIMED_OUT"
		}
		return fmt.Sprintf("TTransportException(%d): %s", te.TypeId(), te.Error())
	}
	if ae, ok := err.(thrift.TApplicationException); ok {
		return fmt.Sprintf("TApplicationException(%d): %s", ae.TypeId(), ae.Error())
	}
	return "error: " + err.Error()
}

func vbNewCtx() FContext {
	vfResetGlobals()
	c := NewFContext("cid")
	c.SetTimeout(50 * time.Millisecond)
	return c
}

// vbMeasure returns the framed size of a call as the client encodes it without a limit.
func vbMeasure(proto string, args thrift.TStruct) int {
	cl := FStandardClient{protocolFactory: vbProtoFactory(proto), limit: 0}
	b, err := cl.prepareMessage(context.Background(), vbNewCtx(), "big", args, thrift.CALL)
	if err != nil {
		panic(err)
	}
	return len(b)
}

type vbC12Res struct {
	Cases      int64            `json:"cases"`
	Nontrivial int64            `json:"nontrivial"`
	Findings   []vbFinding      `json:"findings"`
	Samples    []string         `json:"samples"`
	ByKind     map[string]int64 `json:"cases_by_kind"`
	seen       map[string]bool
}

func (r *vbC12Res) fail(key, msg string) {
	if r.seen == nil {
		r.seen = map[string]bool{}
	}
	if r.seen[key] {
		return
	}
	r.seen[key] = true
	r.Findings = append(r.Findings, vbFinding{Key: key, Msg: msg, Input: msg})
}

func (r *vbC12Res) note(kind, desc string, over bool) {
	r.Cases++
	r.ByKind[kind]++
	if over {
		r.Nontrivial++
	}
	if len(r.Samples) < 6 && over {
		r.Samples = append(r.Samples, kind+": "+desc)
	}
}

func vbC12Main(shard, nshards int, tier string) {
	res := &vbC12Res{ByKind: map[string]int64{}}
	idx := 0
	mine := func() bool { idx++; return idx%nshards == shard }
	protos := []string{"binary", "compact", "json"}
	baseSizes := []int{40, 120, 300}
	if tier == "thorough" {
		baseSizes = []int{8, 40, 120, 300, 5000}
	}
	deltas := func(S int) []int { return []int{S - 1, S, S + 1, S / 2, 2 * S, S - 4, S + 4} }

	// (A) the bounded output buffer under a real protocol encoder
	for _, proto := range protos {
		for _, shape := range vbShapeNames {
			for _, n := range baseSizes {
				if !mine() {
					continue
				}
				args := vbMakeShape(shape, n)
				S := vbMeasure(proto, args)
				for _, limit := range deltas(S) {
					if limit <= 4 {
						continue
					}
					desc := fmt.Sprintf("buffer %s/%s payload=%d framed=%d limit=%d", proto, shape, n, S, limit)
					res.note("buffer", desc, S > limit)
					cl := FStandardClient{protocolFactory: vbProtoFactory(proto), limit: uint(limit)}
					b, err := cl.prepareMessage(context.Background(), vbNewCtx(), "big", args, thrift.CALL)
					got := vbErrType(err)
					switch {
					case S > limit && got != "REQUEST_TOO_LARGE":
						res.fail("C12/buffer-limit-not-enforced/"+proto+"/"+shape, desc+": encoding a "+fmt.Sprint(S)+"-byte message into a "+fmt.Sprint(limit)+"-byte buffer returned "+got)
					case S <= limit && got != "ok":
						res.fail("C12/buffer-rejects-within-limit/"+proto+"/"+shape, desc+": "+got)
					case S <= limit && len(b) != S:
						res.fail("C12/buffer-size-mismatch/"+proto+"/"+shape, desc+fmt.Sprintf(": produced %d bytes", len(b)))
					}
				}
			}
		}
	}

	// (B) requests and (D) responses over HTTP (in-process round trip through the real handler)
	for _, proto := range protos {
		for _, shape := range vbShapeNames {
			for _, n := range baseSizes {
				if !mine() {
					continue
				}
				pf := vbProtoFactory(proto)
				args := vbMakeShape(shape, n)
				S := vbMeasure(proto, args)
				small := &vbShape{s1: "s"}
				for _, limit := range deltas(S) {
					if limit <= 4 {
						continue
					}
					desc := fmt.Sprintf("http-request %s/%s framed=%d limit=%d", proto, shape, S, limit)
					res.note("http-request", desc, S > limit)
					proc, calls := vbBigProcessor(func() thrift.TStruct { return small })
					rt := &vbHandlerRT{h: NewFrugalHandlerFunc(proc, pf)}
					// transports are configuration products: the one under test is built from a builder and
					// an application-wide header map that other transports with other limits are built
					// from as well, before and after it (each keeps the limits it was built with)
					bld := NewFHTTPTransportBuilder(&http.Client{Transport: rt}, "http://x/frugal").WithRequestHeaders(vbSharedHTTPHeaders)
					bld.WithRequestSizeLimit(uint(4 * limit)).WithResponseSizeLimit(7).Build()
					tr := bld.WithRequestSizeLimit(uint(limit)).WithResponseSizeLimit(0).Build()
					bld.WithRequestSizeLimit(uint(limit / 4)).WithResponseSizeLimit(5).Build()
					NewFHTTPTransportBuilder(&http.Client{Transport: rt}, "http://x/frugal").WithRequestHeaders(vbSharedHTTPHeaders).WithResponseSizeLimit(3).Build()
					cl := NewFStandardClient(NewFServiceProvider(tr, pf))
					err := cl.Call(vbNewCtx(), "big", args, &vbShape{})
					got := vbErrType(err)
					switch {
					case S > limit && got != "REQUEST_TOO_LARGE":
						res.fail("C12/request-limit-not-enforced/http/"+proto+"/"+shape, desc+": "+got)
					case S > limit && rt.requests != 0:
						res.fail("C12/oversize-request-transmitted/http/"+proto+"/"+shape, desc+": the oversize request was handed to the HTTP client")
					case S <= limit && (got != "ok" || *calls != 1):
						res.fail("C12/request-within-limit-rejected/http/"+proto+"/"+shape, desc+": "+got)
					}
					if err2 := cl.Call(vbNewCtx(), "big", small, &vbShape{}); err2 != nil && vbMeasure(proto, small) <= limit {
						res.fail("C12/client-broken-after-oversize/http/"+proto, desc+": a small call afterwards failed: "+vbErrType(err2))
					}
				}
				// responses: measure the response, then ask for limits around it
				proc, _ := vbBigProcessor(func() thrift.TStruct { return args })
				rt := &vbHandlerRT{h: NewFrugalHandlerFunc(proc, pf)}
				tr := NewFHTTPTransportBuilder(&http.Client{Transport: rt}, "http://x/frugal").Build()
				cl := NewFStandardClient(NewFServiceProvider(tr, pf))
				if err := cl.Call(vbNewCtx(), "big", small, &vbShape{}); err != nil {
					res.fail("C12/unlimited-response-failed/http/"+proto+"/"+shape, vbErrType(err))
					continue
				}
				// the handler compares the unframed response with the limit
				R := 0
				{
					proc2, _ := vbBigProcessor(func() thrift.TStruct { return args })
					out := thrift.NewTMemoryBuffer()
					req := vbMessage(proto, map[string]string{"_opid": "1", "_cid": "cid", "_timeout": "50"}, "big", thrift.CALL)
					proc2.Process(pf.GetProtocol(&thrift.TMemoryBuffer{Buffer: bytes.NewBuffer(req)}), pf.GetProtocol(out))
					R = out.Len()
				}
				for _, limit := range deltas(R) {
					if limit <= 0 {
						continue
					}
					desc := fmt.Sprintf("http-response %s/%s response=%d (framed %d) limit=%d", proto, shape, R, R+4, limit)
					res.note("http-response", desc, R > limit)
					var reply thrift.TStruct = args
					proc, _ := vbBigProcessor(func() thrift.TStruct { return reply })
					rt := &vbHandlerRT{h: NewFrugalHandlerFunc(proc, pf)}
					bld := NewFHTTPTransportBuilder(&http.Client{Transport: rt}, "http://x/frugal").WithRequestHeaders(vbSharedHTTPHeaders)
					bld.WithResponseSizeLimit(uint(limit / 2)).Build()
					tr := bld.WithResponseSizeLimit(uint(limit)).Build()
					roomy := bld.WithResponseSizeLimit(uint(4*R + 64)).Build()
					NewFHTTPTransportBuilder(&http.Client{Transport: rt}, "http://x/frugal").WithRequestHeaders(vbSharedHTTPHeaders).Build()
					// (the roomy transport goes first: nothing may sit between a refused response and the
					// follow-up requests further down)
					if g2 := vbErrType(NewFStandardClient(NewFServiceProvider(roomy, pf)).Call(vbNewCtx(), "big", small, &vbShape{})); g2 != "ok" {
						res.fail("C12/response-within-limit-rejected/http/"+proto+"/"+shape, fmt.Sprintf("%s: a second transport of the same builder with limit %d: %s", desc, 4*R+64, g2))
					}
					cl := NewFStandardClient(NewFServiceProvider(tr, pf))
					got := vbErrType(cl.Call(vbNewCtx(), "big", small, &vbShape{}))
					switch {
					case R > limit && got != "RESPONSE_TOO_LARGE":
						res.fail("C12/response-limit-not-reported/http/"+proto+"/"+shape, desc+": caller saw "+got)
					case R+4 <= limit && got != "ok":
						res.fail("C12/response-within-limit-rejected/http/"+proto+"/"+shape, desc+": "+got)
					}
					if R > limit {
						// the same handler keeps serving: a small reply under a generous limit, and one
						// without a limit, which must be that request's own reply and nothing else
						reply = &vbShape{s1: "tiny"}
						frt := &vbHandlerRT{h: NewFrugalHandlerFunc(proc, pf)}
						if e0 := vbErrType(NewFStandardClient(NewFServiceProvider(NewFHTTPTransportBuilder(&http.Client{Transport: frt}, "http://x/frugal").Build(), pf)).Call(vbNewCtx(), "big", small, &vbShape{})); e0 != "ok" {
							res.fail("C12/unlimited-response-failed/http/"+proto+"/tiny", e0)
							continue
						}
						T64 := frt.lastResp // what a fresh handler answers: base64 of the framed tiny reply, so above its raw size
						tr2 := NewFHTTPTransportBuilder(&http.Client{Transport: rt}, "http://x/frugal").WithResponseSizeLimit(uint(T64)).Build()
						if e2 := vbErrType(NewFStandardClient(NewFServiceProvider(tr2, pf)).Call(vbNewCtx(), "big", small, &vbShape{})); e2 != "ok" {
							res.fail("C12/server-broken-after-oversize/http/"+proto, fmt.Sprintf("%s: afterwards a tiny reply under a limit of %d that a fresh handler meets: %s", desc, T64, e2))
						}
						tr3 := NewFHTTPTransportBuilder(&http.Client{Transport: rt}, "http://x/frugal").Build()
						var back vbShape
						if e3 := vbErrType(NewFStandardClient(NewFServiceProvider(tr3, pf)).Call(vbNewCtx(), "big", small, &back)); e3 != "ok" {
							res.fail("C12/server-broken-after-oversize/http/"+proto, desc+": a small reply without limit afterwards: "+e3)
						} else if rt.lastResp != T64 {
							res.fail("C12/reply-carries-earlier-oversize-reply/http/"+proto, fmt.Sprintf("%s: the unlimited follow-up request got a %d-byte answer where a fresh handler sends %d bytes", desc, rt.lastResp, T64))
						}
					}
				}
			}
		}
	}

	// (C) publishes over STOMP with a configured limit
	for _, proto := range protos {
		for _, shape := range vbShapeNames {
			for _, n := range baseSizes {
				if !mine() {
					continue
				}
				pf := vbProtoFactory(proto)
				msg := vbMakeShape(shape, n)
				S := vbMeasure(proto, msg)
				for _, limit := range deltas(S) {
					if limit <= 4 {
						continue
					}
					desc := fmt.Sprintf("stomp-publish %s/%s framed=%d limit=%d", proto, shape, S, limit)
					res.note("stomp-publish", desc, S > limit)
					conn := fakestomp.NewConn()
					pubf := newFStompPublisherTransportFactory(conn, limit, "")
					cl := NewFScopeClient(NewFScopeProvider(pubf, nil, pf))
					cl.Open()
					got := vbErrType(cl.Publish(vbNewCtx(), "big", "topic", msg))
					switch {
					case S > limit && got != "REQUEST_TOO_LARGE":
						res.fail("C12/publish-limit-not-enforced/stomp/"+proto+"/"+shape, desc+": "+got)
					case S > limit && len(conn.Sent) != 0:
						res.fail("C12/oversize-publish-transmitted/stomp/"+proto+"/"+shape, desc+": the oversize message reached the broker")
					case S <= limit && (got != "ok" || len(conn.Sent) != 1 || len(conn.Sent[0].Body) != S):
						res.fail("C12/publish-within-limit-rejected/stomp/"+proto+"/"+shape, desc+": "+got)
					}
					if err := cl.Publish(vbNewCtx(), "big", "topic", &vbShape{s1: "s"}); err != nil && vbMeasure(proto, &vbShape{s1: "s"}) <= limit {
						res.fail("C12/publisher-broken-after-oversize/stomp/"+proto, desc+": small publish failed: "+vbErrType(err))
					}
				}
			}
		}
	}

	// (E) the fixed 1 MiB NATS limit: request, publish and response sized around it, end to end over
	// the real NATS transport / server / publisher on the broker model
	natsProtos := protos // JSON keeps a write buffer of its own: an overflow may surface only at the final flush
	natsShapes := []string{"string-last", "string-first", "binary", "trailing-bool"}
	if tier == "thorough" {
		natsProtos = protos
		natsShapes = vbShapeNames
	}
	const lim = natsMaxMessageSize
	for _, proto := range natsProtos {
		for _, shape := range natsShapes {
			for _, d := range []int{-1, 0, 1, 5} {
				if !mine() {
					continue
				}
				pf := vbProtoFactory(proto)
				// size the payload so that the framed request is lim+d: the framed size grows with n
				// (by several bytes per unit for the element shapes and under JSON), so search for it
				lo, hi := 0, lim+d
				for lo < hi {
					mid := (lo + hi) / 2
					if vbMeasure(proto, vbMakeShape(shape, mid)) < lim+d {
						lo = mid + 1
					} else {
						hi = mid
					}
				}
				n := lo
				args := vbMakeShape(shape, n)
				S := vbMeasure(proto, args)
				if shape == "list" || shape == "many-small" || (proto == "json" && shape == "binary") {
					// element granularity (base64 quanta for JSON binary): take what we got
				} else if S != lim+d {
					res.fail("C12/harness-sizing", fmt.Sprintf("could not size %s/%s to %d (got %d)", proto, shape, lim+d, S))
					continue
				}
				small := &vbShape{s1: "s"}
				// request direction
				{
					desc := fmt.Sprintf("nats-request %s/%s framed=%d limit=%d", proto, shape, S, lim)
					res.note("nats-request", desc, S > lim)
					var got, got2 string
					var published int
					e := vsched.Run(func() {
						conn := fakenats.NewConn()
						proc, _ := vbBigProcessor(func() thrift.TStruct { return small })
						srv := NewFNatsServerBuilder(conn, proc, pf, []string{"svc"}).Build()
						vsched.GoNamed("serve", false, func() { srv.Serve() })
						conn.WaitSubsEver(1)
						tr := NewFNatsTransport(conn, "svc", "inbox")
						tr.Open()
						cl := NewFStandardClient(NewFServiceProvider(tr, pf))
						before := len(conn.Log)
						got = vbErrType(cl.Call(vbNewCtx(), "big", args, &vbShape{}))
						for _, m := range conn.Log[before:] {
							if m.Subject == "svc" {
								published++
							}
						}
						got2 = vbErrType(cl.Call(vbNewCtx(), "big", small, &vbShape{}))
					}, nil, &vsched.Options{Bound: -1, MaxSteps: 200000})
					if e.Status == vsched.Panicked {
						res.fail("C12/panic/nats-request", e.PanicS)
					}
					e.Finish()
					switch {
					case S > lim && got != "REQUEST_TOO_LARGE":
						res.fail("C12/request-limit-not-enforced/nats/"+proto+"/"+shape, desc+": "+got)
					case S > lim && published != 0:
						res.fail("C12/oversize-request-transmitted/nats/"+proto+"/"+shape, desc+": handed to the broker")
					case S <= lim && got != "ok":
						res.fail("C12/request-within-limit-rejected/nats/"+proto+"/"+shape, desc+": "+got)
					}
					if got2 != "ok" {
						res.fail("C12/client-broken-after-oversize/nats/"+proto, desc+": small call afterwards: "+got2)
					}
				}
				// response direction: the server's reply is sized around the limit
				{
					var got, got2 string
					var R int
					e := vsched.Run(func() {
						conn := fakenats.NewConn()
						// size the reply: measure with a small result first
						result := thrift.TStruct(small)
						proc, _ := vbBigProcessor(func() thrift.TStruct { return result })
						srv := NewFNatsServerBuilder(conn, proc, pf, []string{"svc"}).Build()
						vsched.GoNamed("serve", false, func() { srv.Serve() })
						conn.WaitSubsEver(1)
						tr := NewFNatsTransport(conn, "svc", "inbox")
						tr.Open()
						cl := NewFStandardClient(NewFServiceProvider(tr, pf))
						replySize := func() int {
							for i := len(conn.Log) - 1; i >= 0; i-- {
								if strings.HasPrefix(conn.Log[i].Subject, "inbox.") {
									return len(conn.Log[i].Data)
								}
							}
							return -1
						}
						result = vbMakeShape(shape, 1000)
						cl.Call(vbNewCtx(), "big", small, &vbShape{})
						r0 := replySize()
						nn := 1000 + lim + d - r0
						result = vbMakeShape(shape, nn)
						// expected framed reply size, computed without any limit
						{
							proc2, _ := vbBigProcessor(func() thrift.TStruct { return result })
							out := thrift.NewTMemoryBuffer()
							req := vbMessage(proto, map[string]string{"_opid": "1", "_cid": "cid", "_timeout": "50"}, "big", thrift.CALL)
							proc2.Process(pf.GetProtocol(&thrift.TMemoryBuffer{Buffer: bytes.NewBuffer(req)}), pf.GetProtocol(out))
							R = out.Len() + 4
						}
						got = vbErrType(cl.Call(vbNewCtx(), "big", small, &vbShape{}))
						result = small
						got2 = vbErrType(cl.Call(vbNewCtx(), "big", small, &vbShape{}))
					}, nil, &vsched.Options{Bound: -1, MaxSteps: 200000})
					if e.Status == vsched.Panicked {
						res.fail("C12/panic/nats-response", e.PanicS)
					}
					e.Finish()
					desc := fmt.Sprintf("nats-response %s/%s framed reply=%d limit=%d", proto, shape, R, lim)
					res.note("nats-response", desc, R > lim)
					switch {
					case R > lim && got != "RESPONSE_TOO_LARGE":
						res.fail("C12/response-limit-not-reported/nats/"+proto+"/"+shape, desc+": caller saw "+got)
					case R <= lim && got != "ok":
						res.fail("C12/response-within-limit-rejected/nats/"+proto+"/"+shape, desc+": "+got)
					}
					if got2 != "ok" {
						res.fail("C12/server-broken-after-oversize/nats/"+proto, desc+": small call afterwards: "+got2)
					}
				}
				// publish direction
				{
					desc := fmt.Sprintf("nats-publish %s/%s framed=%d limit=%d", proto, shape, S, lim)
					res.note("nats-publish", desc, S > lim)
					conn := fakenats.NewConn()
					cl := NewFScopeClient(NewFScopeProvider(NewFNatsPublisherTransportFactory(conn), nil, pf))
					cl.Open()
					got := vbErrType(cl.Publish(vbNewCtx(), "big", "topic", args))
					switch {
					case S > lim && got != "REQUEST_TOO_LARGE":
						res.fail("C12/publish-limit-not-enforced/nats/"+proto+"/"+shape, desc+": "+got)
					case S > lim && len(conn.Log) != 0:
						res.fail("C12/oversize-publish-transmitted/nats/"+proto+"/"+shape, desc+": reached the broker")
					case S <= lim && (got != "ok" || len(conn.Log) != 1):
						res.fail("C12/publish-within-limit-rejected/nats/"+proto+"/"+shape, desc+": "+got)
					}
				}
			}
		}
	}
	_ = sync.Mutex{}
	json.NewEncoder(os.Stdout).Encode(res)
}

// vbSharedHTTPHeaders is the one header map every HTTP transport of the C12 cases is built with (an
// application-wide default such as an API key header).
var vbSharedHTTPHeaders = map[string]string{"x-app": "verif"}
