package frugal

// E3 mode "c04": every header map with <= 3 entries over a fixed string set, written and read back
// through every Go codec path, compared with the reference codec of vf_ref.go; cases are also dumped
// for the Python runtime's codec.

import (
	"bufio"
	"bytes"
	"encoding/binary"
	"encoding/hex"
	"encoding/json"
	"fmt"
	"io"
	"os"
	"sort"
	"strings"
	"unicode/utf8"

	"github.com/apache/thrift/lib/go/thrift"
)

func vbC04Strings() []string {
	return []string{"", "a", "_cid", "é", "日本", "\x00", strings.Repeat("x", 255), strings.Repeat("y", 256)}
}

type vbC04Res struct {
	Cases      int64       `json:"cases"`
	Checks     int64       `json:"checks"`
	Nontrivial int64       `json:"nontrivial"`
	Findings   []vbFinding `json:"findings"`
	Samples    []string    `json:"samples"`
	PyCases    int64       `json:"py_cases_written"`
	seen       map[string]bool
}

func (r *vbC04Res) fail(key, msg string, m map[string]string) {
	if r.seen == nil {
		r.seen = map[string]bool{}
	}
	if r.seen[key] {
		return
	}
	r.seen[key] = true
	js, _ := json.Marshal(m)
	if len(js) > 300 {
		js = append(js[:300], "..."...)
	}
	r.Findings = append(r.Findings, vbFinding{Key: key, Msg: msg + " (map " + string(js) + ")", Input: string(js)})
}

func vbMapEq(a, b map[string]string) bool {
	if len(a) != len(b) {
		return false
	}
	for k, v := range a {
		if w, ok := b[k]; !ok || w != v {
			return false
		}
	}
	return true
}

// vbRefDecodeSet checks the documented layout: version 0, big-endian total, pairs; returns the map,
// the declared total and the offset of the first payload byte.
func vbRefLayout(b []byte, m map[string]string) string {
	if len(b) < 5 || b[0] != 0 {
		return "version byte is not 0"
	}
	total := 0
	for k, v := range m {
		total += 8 + len(k) + len(v)
	}
	if got := binary.BigEndian.Uint32(b[1:5]); int(got) != total {
		return fmt.Sprintf("declared total %d, documented sum(8+|k|+|v|) = %d", got, total)
	}
	if len(b) != 5+total {
		return fmt.Sprintf("wrote %d bytes, layout needs %d", len(b), 5+total)
	}
	h, rest, err := vfParse(b)
	if err != nil {
		return "reference parser rejects the bytes: " + err.Error()
	}
	if len(rest) != 0 {
		return "trailing bytes after the header block"
	}
	if !vbMapEq(h, m) {
		return "reference parser reads a different map"
	}
	return ""
}

func vbC04Case(res *vbC04Res, m map[string]string, payloads [][]byte, py *bufio.Writer) {
	res.Cases++
	if len(m) > 0 {
		res.Nontrivial++
	}
	pf := vbProtoFactory("binary")
	chk := func(key string, bad string) {
		res.Checks++
		if bad != "" {
			res.fail("C04/"+key, key+": "+bad, m)
		}
	}
	// writers
	wbuf := thrift.NewTMemoryBuffer()
	fp := pf.GetProtocol(wbuf)
	if err := fp.writeHeader(m); err != nil {
		chk("writeHeader-error", err.Error())
		return
	}
	enc := append([]byte{}, wbuf.Bytes()...)
	chk("write-layout", vbRefLayout(enc, m))
	// response writer through a context
	rctx := &FContextImpl{requestHeaders: map[string]string{}, responseHeaders: map[string]string{}, ephemeralProperties: map[interface{}]interface{}{}}
	for k, v := range m {
		rctx.responseHeaders[k] = v
	}
	w2 := thrift.NewTMemoryBuffer()
	if err := pf.GetProtocol(w2).WriteResponseHeader(rctx); err != nil {
		chk("WriteResponseHeader-error", err.Error())
	} else {
		chk("WriteResponseHeader-layout", vbRefLayout(w2.Bytes(), m))
	}
	qctx := &FContextImpl{requestHeaders: map[string]string{}, responseHeaders: map[string]string{}, ephemeralProperties: map[interface{}]interface{}{}}
	for k, v := range m {
		qctx.requestHeaders[k] = v
	}
	w3 := thrift.NewTMemoryBuffer()
	if err := pf.GetProtocol(w3).WriteRequestHeader(qctx); err != nil {
		chk("WriteRequestHeader-error", err.Error())
	} else {
		chk("WriteRequestHeader-layout", vbRefLayout(w3.Bytes(), m))
	}
	// readers, on the code's own bytes and on reference encodings (sorted order)
	for ei, e := range [][]byte{enc, vfEncodeHeaders(m)} {
		for pi, pl := range payloads {
			all := append(append([]byte{}, e...), pl...)
			tag := fmt.Sprintf("/enc%d/payload%d", ei, pi)
			tr := &thrift.TMemoryBuffer{Buffer: bytes.NewBuffer(append([]byte{}, all...))}
			h, err := readHeader(tr)
			switch {
			case err != nil:
				chk("stream-read"+tag, err.Error())
			case !vbMapEq(h, m):
				chk("stream-read"+tag, "map differs")
			default:
				rest, _ := io.ReadAll(tr)
				if !bytes.Equal(rest, pl) {
					chk("stream-read-payload"+tag, fmt.Sprintf("payload after the headers changed (%d bytes left, want %d)", len(rest), len(pl)))
				} else {
					chk("stream-read"+tag, "")
				}
			}
			h2, err := getHeadersFromFrame(all)
			if err != nil {
				chk("frame-read"+tag, err.Error())
			} else if !vbMapEq(h2, m) {
				chk("frame-read"+tag, "map differs")
			} else {
				chk("frame-read"+tag, "")
			}
			// unmarshalFrame has no caller outside the tests and is not a receive path; not checked
			framed := vbFramed(all)
			// headers added to a complete frame: a new name, names that are already present (same,
			// different and empty value), both at once, and nothing
			extras := []map[string]string{{"zz-added": "1"}, {}}
			var names []string
			for k := range m {
				names = append(names, k)
			}
			sort.Strings(names)
			if len(names) > 0 {
				first, last := names[0], names[len(names)-1]
				extras = append(extras,
					map[string]string{first: m[first]},
					map[string]string{first: m[first] + "-changed"},
					map[string]string{last: ""},
					map[string]string{first: "x", "zz-added": "1"})
			}
			for xi, extra := range extras {
				xtag := fmt.Sprintf("%s/add%d", tag, xi)
				if xi == 0 {
					xtag = tag
				}
				nf, err := addHeadersToFrame(framed, extra)
				if err != nil {
					chk("addHeadersToFrame"+xtag, err.Error())
					continue
				}
				want := map[string]string{}
				for k, v := range m {
					want[k] = v
				}
				for k, v := range extra {
					want[k] = v
				}
				hh, rest, perr := vfParse(nf[4:])
				if perr != nil || !vbMapEq(hh, want) || !bytes.Equal(rest, pl) || int(binary.BigEndian.Uint32(nf)) != len(nf)-4 {
					chk("addHeadersToFrame"+xtag, fmt.Sprintf("result frame does not carry merged headers + untouched payload + correct size (added %v)", extra))
				} else {
					chk("addHeadersToFrame"+xtag, "")
				}
			}
		}
	}
	// ReadRequestHeader / ReadResponseHeader semantics
	if _, ok := m[opIDHeader]; ok {
		tr := &thrift.TMemoryBuffer{Buffer: bytes.NewBuffer(append([]byte{}, enc...))}
		c, err := pf.GetProtocol(tr).ReadRequestHeader()
		if err != nil {
			chk("ReadRequestHeader", err.Error())
		} else {
			got := c.RequestHeaders()
			bad := ""
			for k, v := range m {
				if k == opIDHeader {
					continue
				}
				if got[k] != v {
					bad = "request header " + k + " lost or changed"
				}
			}
			if len(got) != len(m) {
				bad = "request header count differs"
			}
			if r, _ := c.ResponseHeader(opIDHeader); r != m[opIDHeader] {
				bad = "op id not moved to the response headers"
			}
			chk("ReadRequestHeader", bad)
		}
	}
	if utf8ok(m) && py != nil {
		js, _ := json.Marshal(m)
		fmt.Fprintf(py, "%s\t%s\t%s\n", hex.EncodeToString(enc), js, hex.EncodeToString(payloads[len(payloads)-1][:min(8, len(payloads[len(payloads)-1]))]))
		res.PyCases++
	}
	if len(res.Samples) < 4 && len(m) == 2 {
		js, _ := json.Marshal(m)
		if len(js) < 120 {
			res.Samples = append(res.Samples, string(js))
		}
	}
}

func min(a, b int) int {
	if a < b {
		return a
	}
	return b
}

func utf8ok(m map[string]string) bool {
	for k, v := range m {
		if !utf8.ValidString(k) || !utf8.ValidString(v) {
			return false
		}
	}
	return true
}

func vbC04Main(shard, nshards int, tier, out string) {
	res := &vbC04Res{}
	S := vbC04Strings()
	payloads := [][]byte{{}, {7}, vfEncodeHeaders(map[string]string{"fake": "hdr"}), bytes.Repeat([]byte{0xab}, 1024)}
	var py *bufio.Writer
	if out != "" {
		f, err := os.Create(out)
		if err != nil {
			panic(err)
		}
		defer f.Close()
		py = bufio.NewWriter(f)
		defer py.Flush()
	}
	idx := 0
	emit := func(m map[string]string) {
		idx++
		if idx%nshards != shard {
			return
		}
		vbC04Case(res, m, payloads, py)
	}
	emit(map[string]string{})
	n := len(S)
	maxk := 3
	var rec func(start int, m map[string]string)
	rec = func(start int, m map[string]string) {
		if len(m) > 0 {
			cp := map[string]string{}
			for k, v := range m {
				cp[k] = v
			}
			emit(cp)
		}
		if len(m) == maxk {
			return
		}
		for i := start; i < n; i++ {
			for _, v := range S {
				m[S[i]] = v
				rec(i+1, m)
				delete(m, S[i])
			}
		}
	}
	rec(0, map[string]string{})
	// op id carrying maps (exercise ReadRequestHeader), non-UTF-8 content, very long strings
	for _, v := range S {
		emit(map[string]string{"_opid": "7", "k": v})
		emit(map[string]string{"_opid": "7", "_cid": v, v: "x"})
	}
	emit(map[string]string{"\xff\xfe": "\x80", "ok": "\xc3"})
	big := strings.Repeat("B", 70000)
	emit(map[string]string{big: "v"})
	emit(map[string]string{"k": big})
	// totals around the round sizes an implementation might take for a limit (64 KiB, 1 MiB, 2 MiB, 16 MiB):
	// one pair "k" -> value costs 8 + 1 + len(value) bytes of the header block
	for _, total := range []int{1 << 16, 1 << 20, 1 << 21, 1 << 24} {
		for _, d := range []int{-1, 0, 1} {
			emit(map[string]string{"k": strings.Repeat("v", total+d-9)})
		}
	}
	// the same totals reached by many ordinary headers
	for _, cnt := range []int{3000, 50000} {
		many := map[string]string{}
		for i := 0; i < cnt; i++ {
			many[fmt.Sprintf("header-%06d", i)] = fmt.Sprintf("value-%06d", i)
		}
		emit(many)
	}
	if tier == "thorough" {
		// four entries over the short strings
		short := S[:6]
		var rec4 func(start int, m map[string]string)
		rec4 = func(start int, m map[string]string) {
			if len(m) == 4 {
				cp := map[string]string{}
				for k, v := range m {
					cp[k] = v
				}
				emit(cp)
				return
			}
			for i := start; i < len(short); i++ {
				for _, v := range short {
					m[short[i]] = v
					rec4(i+1, m)
					delete(m, short[i])
				}
			}
		}
		rec4(0, map[string]string{})
	}
	sort.Strings(res.Samples)
	json.NewEncoder(os.Stdout).Encode(res)
}
