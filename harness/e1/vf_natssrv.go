package frugal

// Harness "natssrv" (C20): the real fNatsServer (Serve, Stop, handler, worker, drainNatsMessages)
// over fakenats, with a counting processor; Stop is issued at every position of the request stream.

import (
	"fmt"
	"io"
	"strconv"
	"strings"

	"github.com/apache/thrift/lib/go/thrift"

	"verif/engine/vsched"
	"verif/engine/vsched/fakenats"
)

type vfCountProc struct {
	st     *vfSrvState
	yields int
	slowNS int64 // virtual time every request takes (lets queued requests age past the high watermark)
	gate   int   // > 0: the handler of this request finishes only after Stop has returned
}

func (p *vfCountProc) Process(in, out *FProtocol) error {
	b, _ := io.ReadAll(in.Transport())
	id := -1
	if len(b) > 0 {
		id = int(b[0])
	}
	p.st.invoked[id]++
	vsched.Note(fmt.Sprintf("process %d", id))
	for i := 0; i < p.yields; i++ {
		vsched.Yield() // the handler takes a while
	}
	if p.gate > 0 && id == p.gate {
		// an active request that outlives Stop: "Active requests will complete and send responses"
		// after Stop has returned (Stop's own documentation)
		vsched.WaitUntil(p.st.stopObj, func() bool { return p.st.stopReturned })
	}
	if p.slowNS > 0 {
		vsched.Sleep(p.slowNS)
	}
	out.Transport().Write([]byte{byte(id)})
	return nil
}
func (p *vfCountProc) AddMiddleware(ServiceMiddleware)           {}
func (p *vfCountProc) Annotations() map[string]map[string]string { return nil }

type vfSrvState struct {
	conn          *fakenats.Conn
	invoked       map[int]int
	routedBefore  map[int]bool // routed into the subscription before Stop was called
	afterStop     map[int]bool // published after Stop returned
	stopCalled    bool
	stopReturned  bool
	stopObj       *vsched.Obj
	serveReturned bool
	logAtServeRet int
	stopErr       error
	serveErr      error
}

func vfSrvMake(scn string) (func(), func(*vsched.Exec) (string, *vsched.Violation)) {
	cfg := map[string]int{"w": 1, "q": 1, "r": 2, "stop": 1, "late": 1, "y": 1, "c": 0, "s": 1, "on": 0, "slow": 0, "junk": 0, "async": 0, "gate": 0}
	for _, kv := range strings.Split(scn, ",") {
		p := strings.SplitN(kv, "=", 2)
		if len(p) == 2 {
			cfg[p[0]], _ = strconv.Atoi(p[1])
		}
	}
	var st *vfSrvState
	body := func() {
		vfResetGlobals()
		st = &vfSrvState{invoked: map[int]int{}, routedBefore: map[int]bool{}, afterStop: map[int]bool{}, stopObj: vsched.NewObj("stop-returned")}
		conn := fakenats.NewConn()
		// async=1: requests travel to the broker and back before they reach the subscription (what a
		// real connection does); "received before Stop was called" then means accepted by the broker
		// for a live subscription before Stop was called, possibly still on its way when Stop runs
		conn.Async = cfg["async"] == 1
		st.conn = conn
		proc := &vfCountProc{st: st, yields: cfg["y"], slowNS: int64(cfg["slow"]) * int64(6e9), gate: cfg["gate"]}
		pf := NewFProtocolFactory(thrift.NewTBinaryProtocolFactoryConf(nil))
		// s subjects; on=0 sends every request to the first, on=1 to the last, on=2 alternates
		subjects := []string{"svc", "svc2", "svc3"}[:cfg["s"]]
		subjectOf := func(id int) string {
			switch cfg["on"] {
			case 0:
				return subjects[0]
			case 1:
				return subjects[len(subjects)-1]
			}
			return subjects[id%len(subjects)]
		}
		srv := NewFNatsServerBuilder(conn, proc, pf, subjects).
			WithWorkerCount(uint(cfg["w"])).WithQueueLength(uint(cfg["q"])).WithQueueGroup("g").Build()
		vsched.GoNamed("serve", true, func() {
			st.serveErr = srv.Serve()
			st.serveReturned = true
			st.logAtServeRet = len(conn.Log)
			vsched.Note("Serve returned")
		})
		// evaluated atomically with the routing step inside the broker, per request id (two publishers
		// may be inside PublishRequest at the same time, so the hook is installed once and keyed by
		// the id carried in the frame)
		beforeStop := map[int]bool{}
		afterStop := map[int]bool{}
		conn.OnPublish = func(subj, reply string, data []byte) error {
			if strings.HasPrefix(subj, "svc") && len(data) == 5 {
				id := int(data[4])
				beforeStop[id] = !st.stopCalled
				afterStop[id] = st.stopReturned
			}
			return nil
		}
		pub := func(id int) {
			frame := []byte{0, 0, 0, 1, byte(id)}
			n0 := len(conn.Log)
			target := subjectOf(id)
			conn.PublishRequest(target, fmt.Sprintf("reply.%d", id), frame)
			routed := true
			// a 503 status message for this request's reply subject means nobody was subscribed
			for _, m := range conn.Log[n0:] {
				if m.Header.Get("Status") == "503" && m.Subject == fmt.Sprintf("reply.%d", id) {
					routed = false
				}
			}
			if beforeStop[id] && routed {
				st.routedBefore[id] = true
			}
			if afterStop[id] {
				st.afterStop[id] = true
			}
			vsched.Note(fmt.Sprintf("published %d routed=%v beforeStop=%v afterStop=%v", id, routed, beforeStop[id], afterStop[id]))
		}
		vsched.GoNamed("driver", true, func() {
			conn.WaitSubsEver(cfg["s"])
			// requests too short to hold a frame (0-3 bytes) ahead of the real ones: they are to be
			// dropped, and nothing else may change because of them
			for j := 0; j < cfg["junk"]; j++ {
				conn.PublishRequest(subjects[0], fmt.Sprintf("reply.junk%d", j), [][]byte{{}, {9}, {0, 0, 7}}[j%3])
			}
			for i := 1; i <= cfg["stop"]; i++ {
				pub(i)
			}
			st.stopCalled = true
			vsched.Note("Stop called")
			st.stopErr = srv.Stop()
			st.stopObj.Write()
			st.stopReturned = true
			vsched.Note("Stop returned")
			for i := cfg["stop"] + 1; i <= cfg["stop"]+cfg["late"]; i++ {
				pub(i)
			}
		})
		if cfg["c"] > 0 {
			// a second publisher racing with Stop
			vsched.GoNamed("driver2", true, func() {
				conn.WaitSubsEver(cfg["s"])
				for i := 0; i < cfg["c"]; i++ {
					pub(100 + i)
				}
			})
		}
	}
	check := func(e *vsched.Exec) (string, *vsched.Violation) {
		var ids []string
		for id := 0; id < 120; id++ {
			if n, ok := st.invoked[id]; ok {
				ids = append(ids, fmt.Sprintf("%d:%d", id, n))
			}
		}
		replies := map[int]int{}
		replyIdx := map[int]int{}
		for i, m := range st.conn.Log {
			if strings.HasPrefix(m.Subject, "reply.") && m.Header.Get("Status") == "" {
				id, _ := strconv.Atoi(strings.TrimPrefix(m.Subject, "reply."))
				replies[id]++
				replyIdx[id] = i
			}
		}
		out := fmt.Sprintf("invoked=%v replies=%d stopRet=%v serveRet=%v", ids, len(replies), st.stopReturned, st.serveReturned)
		var first *vsched.Violation
		viol := func(key, msg string) {
			if first == nil && vfWants(key) {
				first = &vsched.Violation{Key: key, Msg: msg + " | " + out}
			}
		}
		if e.Status == vsched.Panicked {
			viol("C20/panic/"+vfFirstLine(e.PanicS), e.PanicS)
			return out, first
		}
		if e.Status == vsched.Horizon {
			viol("C20/livelock", "step horizon exceeded")
			return out, first
		}
		for _, b := range e.Blocked() {
			if b.FG {
				viol("C20/deadlock/"+b.Thread+"/"+b.Kind.String()+"@"+b.Where, fmt.Sprintf("%s never returns: parked in %s at %s", b.Thread, b.Kind, b.Where))
			}
		}
		if first != nil {
			return out, first
		}
		if st.stopErr != nil || st.serveErr != nil {
			viol("C20/error", fmt.Sprintf("Stop err=%v Serve err=%v", st.stopErr, st.serveErr))
		}
		// C14: replies of concurrently processed requests are never interleaved or corrupted, and
		// every reply goes to the subject of its own request
		for _, m := range st.conn.Log {
			if strings.HasPrefix(m.Subject, "reply.") && m.Header.Get("Status") == "" {
				id, _ := strconv.Atoi(strings.TrimPrefix(m.Subject, "reply."))
				want := []byte{0, 0, 0, 1, byte(id)}
				if string(m.Data) != string(want) {
					viol("C14/reply-corrupted-or-misrouted", fmt.Sprintf("the reply published for request %d is % x, expected % x (workers share or interleave output)", id, m.Data, want))
				}
			}
		}
		for id := range st.routedBefore {
			if st.invoked[id] != 1 {
				viol("C20/accepted-request-lost-or-duplicated", fmt.Sprintf("request %d was received before Stop was called but processed %d times", id, st.invoked[id]))
			} else if replies[id] != 1 {
				viol("C20/reply-count", fmt.Sprintf("request %d: %d replies published", id, replies[id]))
			} else if replyIdx[id] >= st.logAtServeRet {
				viol("C20/reply-after-serve-returned", fmt.Sprintf("request %d: reply published after Serve returned", id))
			}
		}
		for id := range st.afterStop {
			if st.invoked[id] != 0 {
				viol("C20/processed-after-stop", fmt.Sprintf("request %d was published after Stop returned but was processed", id))
			}
		}
		for id, n := range st.invoked {
			if n > 1 {
				viol("C20/duplicate-processing", fmt.Sprintf("request %d processed %d times", id, n))
			}
			if replies[id] > 1 {
				viol("C20/duplicate-reply", fmt.Sprintf("request %d: %d replies", id, replies[id]))
			}
			if n == 1 && replies[id] == 1 && st.serveReturned && replyIdx[id] >= st.logAtServeRet {
				viol("C20/reply-after-serve-returned", fmt.Sprintf("request %d: reply published after Serve returned", id))
			}
		}
		return out, first
	}
	return body, check
}

func init() {
	vfRegister(&vfHarness{
		Name:  "natssrv",
		Props: []string{"C20", "C14"},
		Scenarios: func(tier string) []string {
			var out []string
			ws, qs, rs := []int{1, 2}, []int{0, 1, 2}, []int{2}
			if tier == "thorough" {
				rs = []int{2, 3}
			}
			for _, w := range ws {
				for _, q := range qs {
					for _, r := range rs {
						for stop := 0; stop <= r; stop++ {
							out = append(out, fmt.Sprintf("w=%d,q=%d,r=%d,stop=%d,late=1,y=1,c=0", w, q, r, stop))
						}
						if w == 1 || tier == "thorough" {
							out = append(out, fmt.Sprintf("w=%d,q=%d,r=%d,stop=1,late=1,y=1,c=1", w, q, r))
						}
						// a server listening on two subjects, the backlog at Stop time on the first,
						// the last, or both
						if w == 1 && (q == 0 || (q == 1 && tier == "thorough")) {
							for on := 0; on <= 2; on++ {
								if on == 2 && tier != "thorough" {
									continue
								}
								out = append(out, fmt.Sprintf("w=%d,q=%d,r=%d,stop=%d,late=0,y=1,s=2,on=%d,c=0", w, q, r, r, on))
							}
						}
					}
				}
			}
			// a backed-up server: every request takes 6 s of virtual time, so the queued ones are older
			// than the 5 s high watermark when a worker gets to them (default request hooks)
			out = append(out, "w=1,q=4,r=4,stop=4,late=0,y=0,slow=1,c=0", "w=2,q=4,r=5,stop=5,late=0,y=0,slow=1,c=0", "w=1,q=1,r=4,stop=4,late=0,y=0,slow=1,c=0")
			// undersized requests first (as many as there are workers, and one more)
			out = append(out, "w=1,q=1,r=2,stop=2,late=0,y=1,junk=1,c=0", "w=2,q=2,r=3,stop=3,late=0,y=1,junk=2,c=0", "w=1,q=0,r=3,stop=3,late=0,y=1,junk=2,c=0")
			// a request whose handler finishes only after Stop has returned (the backlog fits into
			// workers + queue, so the drain inside Stop does not depend on that handler)
			out = append(out, "w=1,q=1,r=2,stop=2,late=0,y=0,gate=1,c=0", "w=2,q=0,r=2,stop=2,late=1,y=0,gate=1,c=0", "w=2,q=2,r=3,stop=3,late=0,y=0,gate=2,c=0")
			// requests still on their way through the network when Stop is called
			out = append(out, "w=1,q=1,r=2,stop=2,late=1,y=0,async=1,c=0", "w=1,q=0,r=2,stop=1,late=1,y=0,async=1,c=0", "w=2,q=1,r=2,stop=2,late=0,y=0,async=1,c=0")
			if tier == "thorough" {
				out = append(out, "w=1,q=0,r=3,stop=3,late=1,y=1,async=1,c=0", "w=1,q=1,r=2,stop=2,late=0,y=1,s=2,on=2,async=1,c=0")
				out = append(out, "w=2,q=1,r=3,stop=2,late=1,y=1,junk=3,c=0", "w=1,q=2,r=3,stop=3,late=0,y=0,junk=3,c=0")
			}
			return out
		},
		Make: vfSrvMake,
		Bound: func(tier, scn string) (int, bool) {
			if strings.Contains(scn, "async=1") {
				// the network thread multiplies the interleavings: non-preemptive schedules (all
				// choices at blocking points, all data choices) in the quick tier
				if tier == "thorough" {
					return 1, true
				}
				return 0, true
			}
			if strings.Contains(scn, "slow=1") {
				return 1, true
			}
			heavy := !strings.HasSuffix(scn, "c=0") || strings.HasPrefix(scn, "w=2") || strings.Contains(scn, "s=2")
			switch {
			case tier == "thorough" && !strings.HasSuffix(scn, "c=0") && strings.HasPrefix(scn, "w=2"):
				return 1, true
			case tier == "thorough" && heavy:
				return 2, true
			case tier == "thorough":
				return 3, true
			case heavy:
				return 1, true
			}
			return 2, true
		},
	})
}
