package frugal

// Harness entry point for the E1 (vsched) checks. This file is copied into an instrumented scratch
// copy of lib/go; it is never part of /repo.

import (
	"encoding/json"
	"flag"
	"fmt"
	"io"
	"os"
	"sort"
	"strings"
	"time"

	"github.com/sirupsen/logrus"

	"verif/engine/vsched"
)

type vfHarness struct {
	Name      string
	Props     []string
	Scenarios func(tier string) []string
	// Make builds one fresh scenario instance factory: body is run as thread 0 of every execution
	// and check inspects the finished execution.
	Make  func(scn string) (body func(), check func(*vsched.Exec) (string, *vsched.Violation))
	Bound func(tier, scn string) (bound int, prune bool)
}

var vfHarnesses = map[string]*vfHarness{}

// vfProp is the property the current run decides; oracles of other properties are skipped so that
// one property's violation never masks another's.
var vfProp string

func vfPropOr(def string) string {
	if vfProp != "" {
		return vfProp
	}
	return def
}

func vfWants(key string) bool { return vfProp == "" || strings.HasPrefix(key, vfProp+"/") }

func vfRegister(h *vfHarness) { vfHarnesses[h.Name] = h }

type vfResult struct {
	Harness    string              `json:"harness"`
	Scenario   string              `json:"scenario"`
	Stats      vsched.Stats        `json:"stats"`
	Outcomes   []string            `json:"outcome_list"`
	Violations []*vsched.Violation `json:"violations"`
	Samples    []string            `json:"samples"`
	WallS      float64             `json:"wall_s"`
	Error      string              `json:"error,omitempty"`
}

func vfQuietLogger() {
	l := logrus.New()
	l.Out = io.Discard
	l.Level = logrus.PanicLevel
	packageLogger = l
	logrus.SetOutput(io.Discard)
	logrus.SetLevel(logrus.PanicLevel)
	loggerMu.SetQuiet()
}

// vfResetGlobals puts process-wide state back to its initial value before every execution.
func vfResetGlobals() {
	nextOpID = 0
}

// VerifMain is called by the generated cmd/e1 main.
func VerifMain() {
	var (
		harness  = flag.String("harness", "", "harness name")
		list     = flag.Bool("list", false, "list scenarios")
		tier     = flag.String("tier", "quick", "quick|thorough")
		scn      = flag.String("scenario", "", "scenario to run")
		replay   = flag.String("replay", "", "replay file")
		budget   = flag.Duration("budget", 0, "wall-clock cap for this scenario (reported as capped, never a violation)")
		maxExecs = flag.Int64("max-execs", 0, "execution cap")
		boundF   = flag.Int("bound", -100, "override deviation bound")
		prop     = flag.String("prop", "", "property whose oracles are evaluated (empty: all)")
		bytex    = flag.String("bytex", "", "E3 mode: strings | templates | probes")
		shard    = flag.Int("shard", 0, "shard index")
		nshards  = flag.Int("nshards", 1, "number of shards")
	)
	flag.Parse()
	vfProp = *prop
	if *bytex == "c12" {
		vfQuietLogger()
		vbC12Main(*shard, *nshards, *tier)
		return
	}
	if *bytex == "c04" {
		vfQuietLogger()
		vbC04Main(*shard, *nshards, *tier, *scn)
		return
	}
	if *bytex != "" {
		vfQuietLogger()
		vbMain(*bytex, *shard, *nshards, *tier, *replay)
		return
	}
	vfQuietLogger()
	h := vfHarnesses[*harness]
	if h == nil {
		var names []string
		for n := range vfHarnesses {
			names = append(names, n)
		}
		sort.Strings(names)
		fmt.Fprintf(os.Stderr, "unknown harness %q; have %v\n", *harness, names)
		os.Exit(2)
	}
	enc := json.NewEncoder(os.Stdout)
	if *list {
		enc.Encode(h.Scenarios(*tier))
		return
	}
	if *replay != "" {
		b, err := os.ReadFile(*replay)
		if err != nil {
			fmt.Fprintln(os.Stderr, err)
			os.Exit(2)
		}
		var rf struct {
			Harness   string            `json:"harness"`
			Scenario  string            `json:"scenario"`
			Violation *vsched.Violation `json:"violation"`
		}
		if err := json.Unmarshal(b, &rf); err != nil {
			fmt.Fprintln(os.Stderr, err)
			os.Exit(2)
		}
		body, check := h.Make(rf.Scenario)
		x := &vsched.Explorer{Body: body, Check: check, Bound: -1}
		_, out, v, err := x.Replay(rf.Violation.Choices)
		if err != nil {
			fmt.Println("ENGINE-ERROR:", err)
			os.Exit(2)
		}
		fmt.Println("outcome:", out)
		if v != nil {
			fmt.Println(strings.Join(v.Trace, "\n"))
			fmt.Println("violation:", v.Key, v.Msg)
			os.Exit(1)
		}
		fmt.Println("no violation on replay")
		return
	}
	body, check := h.Make(*scn)
	bound, prune := h.Bound(*tier, *scn)
	if *boundF != -100 {
		bound = *boundF
	}
	x := &vsched.Explorer{Body: body, Check: check, Bound: bound, Prune: prune, MaxExecs: *maxExecs, MaxViol: 8}
	if *budget > 0 {
		x.Deadline = time.Now().Add(*budget)
	}
	t0 := time.Now()
	res := &vfResult{Harness: h.Name, Scenario: *scn}
	func() {
		defer func() {
			if r := recover(); r != nil {
				res.Error = fmt.Sprint(r)
			}
		}()
		x.Explore()
	}()
	// confirm every violation by a deterministic double replay with trace
	for _, v := range x.Violations {
		_, _, v2, err := x.Replay(v.Choices)
		if err != nil {
			res.Error = "replay of violation failed: " + err.Error()
			continue
		}
		if v2 == nil || v2.Key != v.Key {
			res.Error = fmt.Sprintf("violation %s did not reproduce on replay", v.Key)
			continue
		}
		v.Trace = v2.Trace
	}
	res.Stats = x.Stats
	res.Outcomes = x.Stats.OutcomeList()
	res.Violations = x.Violations
	res.Samples = x.Stats.Sample
	res.WallS = time.Since(t0).Seconds()
	enc.Encode(res)
}
