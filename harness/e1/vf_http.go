package frugal

// Harness "http" (C13): the real fHTTPTransport (Request / Oneway / makeRequest) over a fake
// http.RoundTripper that lives in virtual time. The peer's behaviour is the scenario: when (if ever)
// the status line and headers arrive, how the body arrives (at once, never, or a second part after
// a delay), and the status code. net/http's Client.Do runs synchronously inside the caller's
// logical thread (no Client.Timeout, so it starts no goroutine and no timer of its own); like the
// real http.Transport the fake aborts a pending round trip and a pending body read with the
// request context's error as soon as that context is done.

import (
	"bytes"
	"context"
	"encoding/base64"
	"encoding/binary"
	"fmt"
	"io"
	"net/http"
	"strconv"
	"strings"
	"time"

	"github.com/apache/thrift/lib/go/thrift"

	"verif/engine/vsched"
	"verif/engine/vsched/vtime"
)

type vfHTTPCfg struct {
	n       int   // callers
	tmo     []int // timeouts, ms
	hdr     int   // ms until status line + headers; -1 never
	body    string
	late    int // ms between headers and the second body part (body=late)
	status  int
	oneway  bool
	payload []byte
	// fail: how the first round trip ends instead of with a response, hdr ms after it began: "eof" /
	// "reset" (the connection goes away before any response), "cut" (status line, headers and half of
	// the body, then the connection goes away). hdr2 is when the headers of every later round trip
	// arrive (-1 never, -2 the later round trips behave like the first one): the peer as seen by a
	// transport that tries again.
	fail string
	hdr2 int
}

type vfHTTPBody struct {
	ctx    context.Context
	parts  [][]byte
	delays []int64 // before part i: 0 now, >0 ns, <0 never
	i      int
}

func (b *vfHTTPBody) Read(p []byte) (int, error) {
	if b.i >= len(b.parts) {
		return 0, io.EOF
	}
	if d := b.delays[b.i]; d != 0 {
		if d < 0 {
			vsched.Recv(b.ctx.Done()) // only the request context ends this read
			return 0, b.ctx.Err()
		}
		if vsched.Select(false, vsched.NewRecv(b.ctx.Done()), vsched.NewRecv(vtime.After(time.Duration(d)))) == 0 {
			return 0, b.ctx.Err()
		}
		b.delays[b.i] = 0
	}
	n := copy(p, b.parts[b.i])
	b.parts[b.i] = b.parts[b.i][n:]
	if len(b.parts[b.i]) == 0 {
		b.i++
	}
	return n, nil
}

func (b *vfHTTPBody) Close() error { return nil }

type vfHTTPRT struct {
	cfg      *vfHTTPCfg
	attempts int
}

type vfHTTPCutBody struct {
	half []byte
}

func (b *vfHTTPCutBody) Read(p []byte) (int, error) {
	if len(b.half) == 0 {
		return 0, io.ErrUnexpectedEOF
	}
	n := copy(p, b.half)
	b.half = b.half[n:]
	return n, nil
}
func (b *vfHTTPCutBody) Close() error { return nil }

func (rt *vfHTTPRT) RoundTrip(req *http.Request) (*http.Response, error) {
	ctx := req.Context()
	if req.Body != nil {
		io.Copy(io.Discard, req.Body)
		req.Body.Close()
	}
	rt.attempts++
	hdr, fail := rt.cfg.hdr, rt.cfg.fail
	if rt.attempts > 1 && rt.cfg.hdr2 != -2 {
		hdr, fail = rt.cfg.hdr2, ""
	}
	switch {
	case hdr < 0:
		vsched.Recv(ctx.Done())
		return nil, ctx.Err()
	case hdr > 0:
		if vsched.Select(false, vsched.NewRecv(ctx.Done()), vsched.NewRecv(vtime.After(time.Duration(hdr)*time.Millisecond))) == 0 {
			return nil, ctx.Err()
		}
	}
	enc := []byte(base64.StdEncoding.EncodeToString(rt.cfg.payload))
	switch fail {
	case "eof":
		return nil, io.EOF
	case "reset":
		return nil, fmt.Errorf("read tcp 10.0.0.1:1234->10.0.0.2:80: read: connection reset by peer")
	case "cut":
		return &http.Response{Status: strconv.Itoa(rt.cfg.status), StatusCode: rt.cfg.status, Proto: "HTTP/1.1", ProtoMajor: 1, ProtoMinor: 1,
			Header: http.Header{}, Body: &vfHTTPCutBody{half: enc[:len(enc)/2]}, ContentLength: -1, Request: req}, nil
	}
	body := &vfHTTPBody{ctx: ctx}
	switch rt.cfg.body {
	case "full":
		body.parts, body.delays = [][]byte{enc}, []int64{0}
	case "stall0": // headers, then nothing at all
		body.parts, body.delays = [][]byte{enc}, []int64{-1}
	case "stall": // headers and the first half, then nothing
		h := len(enc) / 2
		body.parts, body.delays = [][]byte{enc[:h], enc[h:]}, []int64{0, -1}
	case "late": // the second half arrives cfg.late ms after the headers
		h := len(enc) / 2
		body.parts, body.delays = [][]byte{enc[:h], enc[h:]}, []int64{0, int64(rt.cfg.late) * int64(time.Millisecond)}
	}
	return &http.Response{Status: strconv.Itoa(rt.cfg.status), StatusCode: rt.cfg.status, Proto: "HTTP/1.1", ProtoMajor: 1, ProtoMinor: 1,
		Header: http.Header{}, Body: body, ContentLength: -1, Request: req}, nil
}

type vfHTTPCaller struct {
	tmo      time.Duration
	done     bool
	ret      int64 // virtual ns between call and return
	outcome  string
	errType  int
	gotBytes []byte
}

func vfHTTPParse(scn string) *vfHTTPCfg {
	c := &vfHTTPCfg{n: 1, hdr: 0, body: "full", status: 200, hdr2: -2}
	for _, kv := range strings.Split(scn, ",") {
		p := strings.SplitN(kv, "=", 2)
		if len(p) != 2 {
			continue
		}
		switch p[0] {
		case "n":
			c.n, _ = strconv.Atoi(p[1])
		case "t":
			for _, t := range strings.Split(p[1], "/") {
				ms, _ := strconv.Atoi(t)
				c.tmo = append(c.tmo, ms)
			}
		case "h":
			c.hdr, _ = strconv.Atoi(p[1])
		case "h2":
			c.hdr2, _ = strconv.Atoi(p[1])
		case "f":
			c.fail = p[1]
		case "b":
			if strings.HasPrefix(p[1], "late") {
				c.body = "late"
				c.late, _ = strconv.Atoi(strings.TrimPrefix(p[1], "late"))
			} else {
				c.body = p[1]
			}
		case "s":
			c.status, _ = strconv.Atoi(p[1])
		case "k":
			c.oneway = p[1] == "oneway"
		}
	}
	for len(c.tmo) < c.n {
		c.tmo = append(c.tmo, 5)
	}
	data := []byte("response-payload-0123456789")
	if c.oneway {
		data = nil // the server's answer to a oneway is an empty frame
	}
	c.payload = make([]byte, 4+len(data))
	binary.BigEndian.PutUint32(c.payload, uint32(len(data)))
	copy(c.payload[4:], data)
	return c
}

func vfHTTPMake(scn string) (func(), func(*vsched.Exec) (string, *vsched.Violation)) {
	cfg := vfHTTPParse(scn)
	var callers []*vfHTTPCaller
	body := func() {
		vfResetGlobals()
		callers = nil
		tr := NewFHTTPTransportBuilder(&http.Client{Transport: &vfHTTPRT{cfg: cfg}}, "http://peer.invalid/frugal").Build()
		for i := 0; i < cfg.n; i++ {
			i := i
			c := &vfHTTPCaller{tmo: time.Duration(cfg.tmo[i]) * time.Millisecond}
			callers = append(callers, c)
			vsched.GoNamed(fmt.Sprintf("caller%d", i), true, func() {
				ctx := NewFContext("cid")
				ctx.(*FContextImpl).mu.SetQuiet()
				ctx.SetTimeout(c.tmo)
				op, _ := ctx.RequestHeader(opIDHeader)
				req := vfFrame(map[string]string{"_opid": op}, []byte("req"))
				start := vsched.Current().Now()
				var res thrift.TTransport
				var err error
				if cfg.oneway {
					err = tr.Oneway(ctx, req)
				} else {
					res, err = tr.Request(ctx, req)
				}
				c.ret = vsched.Current().Now() - start
				c.done = true
				switch {
				case err != nil:
					if te, ok := err.(thrift.TTransportException); ok {
						c.errType = te.TypeId()
						c.outcome = fmt.Sprintf("terr%d", te.TypeId())
					} else {
						c.outcome = "err:" + vfFirstLine(err.Error())
					}
				case res == nil:
					c.outcome = "nil"
				default:
					c.gotBytes, _ = io.ReadAll(res)
					c.outcome = "ok"
				}
				vsched.Note(fmt.Sprintf("caller%d -> %s @%dus", i, c.outcome, c.ret/1e3))
			})
		}
	}
	check := func(e *vsched.Exec) (string, *vsched.Violation) {
		var outs []string
		for _, c := range callers {
			o := c.outcome
			if !c.done {
				o = "blocked"
			}
			outs = append(outs, fmt.Sprintf("%s@%dus", o, c.ret/1e3))
		}
		out := strings.Join(outs, ",")
		var first *vsched.Violation
		viol := func(key, msg string) {
			if first == nil && vfWants(key) {
				first = &vsched.Violation{Key: key, Msg: msg + " | " + scn + " -> " + out}
			}
		}
		if e.Status == vsched.Panicked {
			viol("C13/panic/"+vfFirstLine(e.PanicS), e.PanicS)
			return out, first
		}
		if e.Status == vsched.Horizon {
			viol("C13/livelock", "step horizon exceeded")
			return out, first
		}
		for _, b := range e.Blocked() {
			if b.FG {
				viol("C13/caller-never-returns/http/"+b.Kind.String()+"@"+b.Where,
					fmt.Sprintf("%s never returns from the HTTP transport although its timeout has long passed (parked in %s at %s)", b.Thread, b.Kind, b.Where))
			}
		}
		if first != nil {
			return out, first
		}
		ms := int64(time.Millisecond)
		for i, c := range callers {
			if !c.done {
				continue
			}
			T := int64(c.tmo)
			// when the transport has everything it needs from the peer (virtual ns after the call)
			arrival := int64(-1) // never
			failed := cfg.fail != "" && cfg.hdr >= 0 // the first round trip ends without a response after hdr ms
			isOK := c.outcome == "ok" || c.outcome == "nil"
			if failed {
				// the peer never produces a response in these scenarios' first round trip; a transport
				// that tries again meets hdr2. Whatever it does, the caller is back by its timeout, and
				// with anything but a timeout before it
				if e.EarlyTimers == 0 && c.ret > T {
					viol("C13/late-return/http", fmt.Sprintf("caller%d (timeout %s) returned %s after %dus of virtual time (the connection had failed after %d ms)", i, c.tmo, c.outcome, c.ret/1e3, cfg.hdr))
				} else if isOK && cfg.hdr2 == -2 {
					viol("C13/unexpected-outcome/http", fmt.Sprintf("caller%d: outcome %s although the peer never responded", i, c.outcome))
				} else if e.EarlyTimers == 0 && c.outcome == fmt.Sprintf("terr%d", TRANSPORT_EXCEPTION_TIMED_OUT) && c.ret < T {
					viol("C13/early-timeout", fmt.Sprintf("caller%d reported a timeout after %dus, before its timeout %s", i, c.ret/1e3, c.tmo))
				}
				continue
			}
			if cfg.hdr >= 0 {
				switch {
				case cfg.status == http.StatusRequestEntityTooLarge:
					arrival = int64(cfg.hdr) * ms // decided on the status line alone
				case cfg.body == "full":
					arrival = int64(cfg.hdr) * ms
				case cfg.body == "late":
					arrival = int64(cfg.hdr+cfg.late) * ms
				}
			}
			if e.EarlyTimers > 0 {
				// a timer that fires while a thread is still runnable models a slow caller thread (the
				// statement's scheduling allowance): times are not exact in such an execution, only the
				// kind of outcome is judged
				inTime := "ok"
				switch {
				case cfg.status == http.StatusRequestEntityTooLarge:
					inTime = fmt.Sprintf("terr%d", TRANSPORT_EXCEPTION_RESPONSE_TOO_LARGE)
				case cfg.status >= 300:
					inTime = fmt.Sprintf("terr%d", TRANSPORT_EXCEPTION_UNKNOWN)
				case cfg.oneway:
					inTime = "nil"
				}
				if c.outcome != fmt.Sprintf("terr%d", TRANSPORT_EXCEPTION_TIMED_OUT) && !(arrival >= 0 && c.outcome == inTime) {
					viol("C13/unexpected-outcome/http", fmt.Sprintf("caller%d: outcome %s is neither TIMED_OUT nor the peer's response (%s)", i, c.outcome, inTime))
				}
				continue
			}
			if c.ret > T {
				viol("C13/late-return/http", fmt.Sprintf("caller%d (timeout %s) returned %s after %dus of virtual time", i, c.tmo, c.outcome, c.ret/1e3))
				continue
			}
			switch {
			case arrival >= 0 && arrival < T:
				want := "ok"
				switch {
				case cfg.status == http.StatusRequestEntityTooLarge:
					want = fmt.Sprintf("terr%d", TRANSPORT_EXCEPTION_RESPONSE_TOO_LARGE)
				case cfg.status >= 300:
					want = fmt.Sprintf("terr%d", TRANSPORT_EXCEPTION_UNKNOWN)
				case cfg.oneway:
					want = "nil"
				}
				if c.outcome != want {
					viol("C13/in-time-response-not-reported/http", fmt.Sprintf("caller%d: the complete response arrived after %dus, within the timeout %s, but the outcome is %s (expected %s)", i, arrival/1e3, c.tmo, c.outcome, want))
				} else if want == "ok" && !bytes.Equal(c.gotBytes, cfg.payload[4:]) {
					viol("C13/in-time-response-garbled/http", fmt.Sprintf("caller%d got %q", i, c.gotBytes))
				} else if c.ret != arrival {
					viol("C13/return-not-at-arrival/http", fmt.Sprintf("caller%d returned after %dus, the response was complete after %dus", i, c.ret/1e3, arrival/1e3))
				}
			case arrival < 0 || arrival > T:
				if c.outcome != fmt.Sprintf("terr%d", TRANSPORT_EXCEPTION_TIMED_OUT) {
					viol("C13/timeout-not-reported-as-TIMED_OUT/http", fmt.Sprintf("caller%d: no complete response within %s, outcome %s instead of TIMED_OUT", i, c.tmo, c.outcome))
				}
				if c.ret < T {
					viol("C13/early-timeout", fmt.Sprintf("caller%d reported a timeout after %dus, before its timeout %s", i, c.ret/1e3, c.tmo))
				}
			}
		}
		return out, first
	}
	return body, check
}

func init() {
	vfRegister(&vfHarness{
		Name:  "http",
		Props: []string{"C13"},
		Scenarios: func(tier string) []string {
			var out []string
			// timeout 5 ms; headers after 0 / 2 / 5 (= deadline) / 9 ms or never; body at once, never
			// (before or after the first half), or second half 1 / 4 / 8 ms after the headers
			hdrs := []int{0, 2, 9, -1}
			bodies := []string{"full", "stall0", "stall", "late1", "late8"}
			statuses := []int{200, 413, 500}
			kinds := []string{"request", "oneway"}
			if tier == "thorough" {
				hdrs = []int{0, 2, 4, 5, 6, 9, -1}
				bodies = append(bodies, "late3", "late4", "late5")
			}
			for _, h := range hdrs {
				for _, b := range bodies {
					if h < 0 && b != "full" {
						continue
					}
					for _, s := range statuses {
						for _, k := range kinds {
							if tier != "thorough" && k == "oneway" && (s != 200 || b == "late1") {
								continue
							}
							out = append(out, fmt.Sprintf("n=1,t=5,h=%d,b=%s,s=%d,k=%s", h, b, s, k))
						}
					}
				}
			}
			// the connection fails under the first round trip (before a response, or inside its body);
			// a transport that tries again finds a peer that behaves the same, is silent, or is slow
			for _, f := range []string{"eof", "reset", "cut"} {
				for _, h := range []int{0, 2} {
					for _, h2 := range []int{-2, -1, 9, 2} {
						for _, k := range kinds {
							if k == "oneway" && (f != "eof" || (tier != "thorough" && h2 != -1)) {
								continue
							}
							out = append(out, fmt.Sprintf("n=1,t=5,h=%d,f=%s,h2=%d,k=%s", h, f, h2, k))
						}
					}
				}
			}
			// two callers with different timeouts sharing the transport
			for _, b := range []string{"full", "stall", "late8"} {
				out = append(out, fmt.Sprintf("n=2,t=1/5,h=2,b=%s,s=200,k=request", b))
			}
			return out
		},
		Make:  vfHTTPMake,
		Bound: func(tier, scn string) (int, bool) { return 2, true },
	})
}
