package frugal

// Harness "natsmux": n concurrent callers on one real fNatsTransport over fakenats. A peer thread
// publishes every response sequence of length <= 3 over {resp(op_i), resp(unknown id)} to the
// callers' reply subjects, either as soon as it likes or only after every caller's request has
// reached the broker; one scenario has nobody listening (503 no-responders status messages).
// Serves C01 (correlation), C06 (no head-of-line blocking) and C13 (timeouts) for the NATS client
// transport, with the same oracles as the "mux" harness for the adapter transport.

import (
	"fmt"
	"io"
	"strings"

	"github.com/apache/thrift/lib/go/thrift"

	"verif/engine/vsched"
	"verif/engine/vsched/fakenats"
)

type vfNMState struct {
	conn     *fakenats.Conn
	tr       *fNatsTransport
	callers  []*vfMuxCaller
	emitted  []string
	requests int // requests that reached the broker
	returned int
	needLate string
	statusFor map[int]bool // callers for which the peer injected a 503 status message
}

func vfNatsMuxMake(scn string) (func(), func(*vsched.Exec) (string, *vsched.Violation)) {
	// n=2,t=1/5,f=1.2.u,w=1   (w=1: the peer answers only after all requests arrived; w=0: whenever)
	// r=0: nobody subscribed to the service subject
	cfg := vfParseMuxCfg(scn)
	wait, responder := true, true
	stallPings := false
	// frames: "2" the response of caller 2 on its own reply subject, "u" an op id nobody issued on a
	// subject nobody listens to specifically, "1@2" the response of caller 1 published on caller 2's
	// reply subject (a stray / misdirected message), "u@1" an unknown op id on caller 1's subject
	// "s1": a 503 no-responders status message on caller 1's reply subject (a broker may send one
	// per request; a second one, or one next to a real response, must be harmless)
	type nmFrame struct {
		op, subj int
		status   bool
	}
	var frames []nmFrame
	for _, kv := range strings.Split(scn, ",") {
		switch {
		case kv == "w=0":
			wait = false
		case kv == "r=0":
			responder = false
		case kv == "pings=stall":
			stallPings = true
		case strings.HasPrefix(kv, "f="):
			for _, tok := range strings.Split(strings.TrimPrefix(kv, "f="), ".") {
				if tok == "" {
					continue
				}
				parts := strings.SplitN(tok, "@", 2)
				idx := func(s string) int {
					if s == "u" {
						return -1
					}
					n := 0
					fmt.Sscanf(s, "%d", &n)
					return n - 1
				}
				if strings.HasPrefix(tok, "s") {
					c := idx(tok[1:])
					frames = append(frames, nmFrame{op: c, subj: c, status: true})
					continue
				}
				fr := nmFrame{op: idx(parts[0]), subj: idx(parts[0])}
				if len(parts) == 2 {
					fr.subj = idx(parts[1])
				}
				frames = append(frames, fr)
			}
		}
	}
	var st *vfNMState
	body := func() {
		vfResetGlobals()
		st = &vfNMState{statusFor: map[int]bool{}}
		reqObj := vsched.NewObj("requests-seen")
		conn := fakenats.NewConn()
		conn.StallPings = stallPings
		st.conn = conn
		tr := NewFNatsTransport(conn, "svc", "inbox").(*fNatsTransport)
		st.tr = tr
		for i := 0; i < cfg.n; i++ {
			ctx := NewFContext(fmt.Sprintf("cid%d", i))
			ctx.(*FContextImpl).mu.SetQuiet()
			ctx.SetTimeout(cfg.timeouts[i])
			op, _ := ctx.RequestHeader(opIDHeader)
			st.callers = append(st.callers, &vfMuxCaller{ctx: ctx, opid: op, timeout: cfg.timeouts[i]})
		}
		if responder {
			// the service: takes requests off the subject; its answers come from the peer thread
			conn.Subscribe("svc", func(m *fakenats.Msg) {})
		}
		conn.OnPublish = func(subj, reply string, data []byte) error {
			if subj == "svc" {
				reqObj.Write()
				st.requests++
			}
			return nil
		}
		if err := tr.Open(); err != nil {
			panic(err)
		}
		vsched.OnIdleAdvance(func(now int64) {
			e := vsched.Current()
			for i, c := range st.callers {
				if !c.started || c.done || st.needLate != "" {
					continue
				}
				for _, tm := range e.TimersOwnedBy(c.tid) {
					if !tm.Pending() && tm.When() <= e.Now() && tm.When() < now {
						st.needLate = fmt.Sprintf("caller%d (timeout %s) is still inside Request with nothing runnable although its own deadline (%dns) has passed; time advances to %dns", i, c.timeout, tm.When(), now)
					}
				}
			}
		})
		if responder && len(frames) > 0 {
			vsched.GoNamed("peer", false, func() {
				if wait {
					vsched.WaitUntil(reqObj, func() bool { return st.requests >= cfg.n })
				}
				for _, fr := range frames {
					if vsched.Killed() {
						return
					}
					c := fr.op
					op, subjOp := "99", "99"
					if c >= 0 && c < cfg.n {
						op = st.callers[c].opid
					}
					if fr.subj >= 0 && fr.subj < cfg.n {
						subjOp = st.callers[fr.subj].opid
					}
					if fr.status {
						vsched.Yield()
						if c >= 0 && c < cfg.n {
							st.statusFor[c] = true
						}
						conn.Inject("inbox."+subjOp, "", fakenats.Header{"Status": {"503"}}, nil)
						continue
					}
					mark := fmt.Sprintf("m%d", len(st.emitted))
					frame := vfFrame(map[string]string{"_opid": op, "_cid": "x"}, []byte(mark))
					// evaluated atomically with the broker's routing step
					conn.OnPublish = func(subj, reply string, data []byte) error {
						if subj == "svc" {
							reqObj.Write()
							st.requests++
							return nil
						}
						st.emitted = append(st.emitted, op+"/"+mark)
						if c >= 0 && c < cfg.n {
							cl := st.callers[c]
							if reg, ok := tr.registry.(*fRegistryImpl); ok && cl.started && !cl.done && cl.deliverable == "" {
								if _, registered := reg.channels[vfOpKey(cl.opid)]; registered {
									fired := false
									for _, tm := range vsched.Current().TimersOwnedBy(cl.tid) {
										if !tm.Pending() {
											fired = true
										}
									}
									if !fired {
										cl.deliverable = mark
									}
								}
							}
						}
						return nil
					}
					conn.Publish("inbox."+subjOp, frame)
				}
			})
		}
		for i := range st.callers {
			i := i
			c := st.callers[i]
			vsched.GoNamed(fmt.Sprintf("caller%d", i), true, func() {
				payload := vfFrame(map[string]string{"_opid": c.opid}, []byte("req"))
				c.start = vsched.Current().Now()
				c.tid = vsched.Current().CurThread().ID
				c.started = true
				var res thrift.TTransport
				var err error
				if cfg.oneway {
					err = tr.Oneway(c.ctx, payload)
				} else {
					res, err = tr.Request(c.ctx, payload)
				}
				c.retClock = vsched.Current().Now() - c.start
				c.done = true
				switch {
				case err == nil && cfg.oneway:
					c.outcome = "sent"
				case err != nil:
					if te, ok := err.(thrift.TTransportException); ok {
						c.errType = te.TypeId()
						if te.TypeId() == TRANSPORT_EXCEPTION_TIMED_OUT {
							c.outcome = "timeout"
						} else {
							c.outcome = fmt.Sprintf("terr%d", te.TypeId())
						}
					} else {
						c.outcome = "err:" + err.Error()
					}
				case res == nil:
					c.outcome = "nil"
				default:
					b, _ := io.ReadAll(res)
					h, pl, perr := vfParse(b)
					if perr != nil {
						c.outcome = "garbled"
					} else {
						c.gotOpid = h["_opid"]
						c.gotMark = string(pl)
						c.outcome = "ok:" + c.gotOpid + "/" + c.gotMark
					}
				}
				st.returned++
				vsched.Note(fmt.Sprintf("caller%d -> %s @%dms", i, c.outcome, c.retClock/1e6))
			})
		}
	}
	check := func(e *vsched.Exec) (string, *vsched.Violation) {
		var outs []string
		for _, c := range st.callers {
			o := c.outcome
			if !c.done {
				o = "blocked"
			}
			outs = append(outs, o)
		}
		out := strings.Join(outs, ",") + " frames=" + strings.Join(st.emitted, " ")
		var first *vsched.Violation
		viol := func(key, msg string) {
			if first == nil && vfWants(key) {
				first = &vsched.Violation{Key: key, Msg: msg + " | " + out}
			}
		}
		if e.Status == vsched.Panicked {
			viol(vfPropOr("C01")+"/panic/nats/"+vfFirstLine(e.PanicS), e.PanicS)
			return out, first
		}
		if e.Status == vsched.Horizon {
			viol(vfPropOr("C13")+"/livelock", "step horizon exceeded")
			return out, first
		}
		bl := e.Blocked()
		for _, b := range bl {
			if b.FG {
				continue
			}
			if b.Kind == vsched.KSend || b.Kind == vsched.KLock || b.Kind == vsched.KRLock {
				viol("C06/wedged/nats/"+b.Kind.String()+"@"+b.Where,
					fmt.Sprintf("thread %q is parked forever in %s at %s with the system quiescent: the inbound path of the NATS transport is stalled", b.Thread, b.Kind, b.Where))
			}
		}
		for _, b := range bl {
			if b.FG {
				viol("C13/caller-never-returns/nats/"+b.Kind.String()+"@"+b.Where,
					fmt.Sprintf("caller %q never returns although every timer has fired (parked in %s at %s)", b.Thread, b.Kind, b.Where))
			}
		}
		if st.needLate != "" {
			viol("C13/needs-later-event", st.needLate)
		}
		emitted := map[string]bool{}
		for _, f := range st.emitted {
			emitted[f] = true
		}
		for i, c := range st.callers {
			if c.done && e.EarlyTimers == 0 && c.retClock > int64(c.timeout) {
				viol("C13/late-return/nats", fmt.Sprintf("caller%d returned %q %dns after the call although its timeout is %s and no timer fired early (NATS transport)", i, c.outcome, c.retClock, c.timeout))
			}
			switch {
			case c.outcome == "sent" && cfg.oneway:
				// a oneway call returns once the request is handed to the connection
			case strings.HasPrefix(c.outcome, "ok:"):
				if c.gotOpid != c.opid {
					viol("C01/wrong-response", fmt.Sprintf("caller%d (op %s) completed with a frame for op %s (NATS transport)", i, c.opid, c.gotOpid))
				}
				if !emitted[c.gotOpid+"/"+c.gotMark] {
					viol("C01/phantom-response", fmt.Sprintf("caller%d completed with a frame the peer never sent (NATS transport)", i))
				}
			case c.outcome == "timeout":
				if c.retClock < int64(c.timeout) {
					viol("C13/early-timeout", fmt.Sprintf("caller%d reported TIMED_OUT at %dns, before its timeout %s (NATS transport)", i, c.retClock, c.timeout))
				}
				if e.EarlyTimers == 0 && c.retClock > int64(c.timeout) {
					viol("C13/late-timeout", fmt.Sprintf("caller%d reported TIMED_OUT %dns after the call although its timeout is %s and no timer fired early (NATS transport)", i, c.retClock, c.timeout))
				}
				if !responder && e.EarlyTimers == 0 {
					viol("C01/no-responders-not-reported", fmt.Sprintf("caller%d timed out although the broker answered its request with a 503 no-responders status", i))
				}
			case c.outcome == fmt.Sprintf("terr%d", TRANSPORT_EXCEPTION_SERVICE_NOT_AVAILABLE) && (!responder || st.statusFor[i]):
				// nobody listens on the service subject
			default:
				viol("C01/unexpected-outcome/nats/"+c.outcome, fmt.Sprintf("caller%d: outcome %q is neither its own response nor a timeout (NATS transport)", i, c.outcome))
			}
		}
		if reg, ok := st.tr.registry.(*fRegistryImpl); ok {
			if n := len(reg.channels); n != 0 {
				viol("C01/registry-leak", fmt.Sprintf("%d registrations left after all callers returned (NATS transport)", n))
			}
		}
		if st.tr.sub == nil || !st.tr.sub.IsValid() {
			viol("C06/transport-closed-by-benign-input", "the NATS client transport lost its inbox subscription although the broker delivered only well-formed messages")
		}
		if n := st.conn.PendingTotal(); n != 0 {
			viol("C06/unconsumed-input", fmt.Sprintf("%d broker messages were never consumed by the transport's subscription although it is open and idle", n))
		}
		if e.EarlyTimers == 0 {
			for i, c := range st.callers {
				if st.statusFor[i] && c.outcome == fmt.Sprintf("terr%d", TRANSPORT_EXCEPTION_SERVICE_NOT_AVAILABLE) {
					continue // the no-responders status got there first
				}
				if c.deliverable != "" && !strings.HasPrefix(c.outcome, "ok:") {
					viol("C06/response-not-delivered", fmt.Sprintf("caller%d ended with %q although the peer published its response (%s) while the request was registered and before its deadline (NATS transport)", i, c.outcome, c.deliverable))
				}
			}
		}
		return out, first
	}
	return body, check
}

func init() {
	vfRegister(&vfHarness{
		Name:  "natsmux",
		Props: []string{"C01", "C06", "C13"},
		Scenarios: func(tier string) []string {
			var out []string
			syms := []string{"1", "2", "u"}
			var seqs []string
			for _, a := range syms {
				seqs = append(seqs, a)
				for _, b := range syms {
					seqs = append(seqs, a+"."+b)
					for _, c := range syms {
						seqs = append(seqs, a+"."+b+"."+c)
					}
				}
			}
			for _, f := range seqs {
				if tier != "thorough" && strings.Count(f, ".") == 2 && !strings.Contains(f, "1") {
					continue // quick: length-3 sequences must answer the short-timeout caller at least once
				}
				out = append(out, "n=2,t=1/5,w=1,f="+f)
				if strings.Count(f, ".") <= 1 || tier == "thorough" {
					out = append(out, "n=2,t=1/5,w=0,f="+f)
				}
			}
			out = append(out, "n=2,t=1/5,w=1,f=", "n=2,t=1/5,r=0,f=", "n=1,t=5,r=0,f=")
			// stray messages: a response published on another request's reply subject, an unknown op id
			// on a live request's subject
			for _, f := range []string{"1@2", "2@1", "u@1", "u@2", "1@2.2", "2@1.1", "1@2.1.2", "u@2.2", "1@u"} {
				out = append(out, "n=2,t=1/5,w=1,f="+f)
			}
			// oneway calls; a broker that stops answering PINGs while the connection still counts as up
			out = append(out, "n=2,t=1/5,w=1,call=oneway,f=", "n=2,t=1/5,w=1,call=oneway,f=1.u", "n=2,t=1/5,w=1,pings=stall,f=1.2", "n=2,t=1/5,w=1,pings=stall,f=", "n=2,t=1/5,w=1,pings=stall,call=oneway,f=")
			// 503 status messages: one, two for the same request, one next to a response, one for nobody
			for _, f := range []string{"s1.2", "s1.s1.2", "s2.s2.1", "1.s1.2", "s1.1.2", "su.2", "s1.s1.s1.2"} {
				out = append(out, "n=2,t=5/5,w=1,f="+f)
			}
			if tier == "thorough" {
				for _, f := range []string{"1.2.3", "3.3.1", "2.2.2", "1.1.2.3", "3.2.1.u"} {
					out = append(out, "n=3,t=1/2/3,w=1,f="+f)
				}
			}
			return out
		},
		Make: vfNatsMuxMake,
		Bound: func(tier, scn string) (int, bool) {
			if tier == "thorough" {
				return 2, true
			}
			return 1, true
		},
	})
}
