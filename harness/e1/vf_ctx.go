package frugal

// Harness "ctx" (C17): op id uniqueness under concurrent creation by every route, linearizability
// of concurrent operations on one shared FContext, and independence of clones.

import (
	"bytes"
	"fmt"
	"sort"
	"strconv"
	"strings"
	"time"

	"github.com/apache/thrift/lib/go/thrift"

	"verif/engine/vsched"
)

// ---- (i) op id uniqueness ----------------------------------------------------------------------

type vfPlainCtx struct{ FContext } // an FContext that is not FContextWithEphemeralProperties

func vfMakeCtx(route byte, base FContext) (FContext, string) {
	switch route {
	case 'n':
		c := NewFContext("cid")
		return c, "new"
	case 'c':
		return Clone(base), "Clone(ctx)"
	case 'm':
		return base.(FContextWithEphemeralProperties).Clone(), "ctx.Clone()"
	case 'p':
		return Clone(vfPlainCtx{base}), "Clone(plain)"
	case 'r':
		buf := vfEncodeHeaders(map[string]string{"_opid": "4242", "_cid": "rc", "k": "v"})
		pf := NewFProtocolFactory(thrift.NewTBinaryProtocolFactoryConf(nil))
		fp := pf.GetProtocol(&thrift.TMemoryBuffer{Buffer: bytes.NewBuffer(buf)})
		c, err := fp.ReadRequestHeader()
		if err != nil {
			panic(err)
		}
		return c, "recv"
	}
	panic("bad route")
}

func vfOpidMake(scn string) (func(), func(*vsched.Exec) (string, *vsched.Violation)) {
	// scn: "ids:<routes thread0>/<routes thread1>/..."
	parts := strings.Split(strings.TrimPrefix(scn, "ids:"), "/")
	var ids []string
	var how []string
	var baseID string
	body := func() {
		vfResetGlobals()
		ids, how = nil, nil
		base := NewFContext("base")
		baseID, _ = base.RequestHeader(opIDHeader)
		for ti, routes := range parts {
			ti, routes := ti, routes
			vsched.GoNamed(fmt.Sprintf("maker%d", ti), true, func() {
				for _, r := range []byte(routes) {
					c, h := vfMakeCtx(r, base)
					id, _ := c.RequestHeader(opIDHeader)
					ids = append(ids, id)
					how = append(how, fmt.Sprintf("t%d:%s", ti, h))
				}
			})
		}
	}
	check := func(e *vsched.Exec) (string, *vsched.Violation) {
		s := append([]string(nil), ids...)
		sort.Strings(s)
		out := strings.Join(s, ",")
		if e.Status == vsched.Panicked {
			return out, &vsched.Violation{Key: "C17/panic/" + vfFirstLine(e.PanicS), Msg: e.PanicS}
		}
		for _, b := range e.Blocked() {
			if b.FG {
				return out, &vsched.Violation{Key: "C17/blocked", Msg: fmt.Sprintf("context creation never returns: %v", b)}
			}
		}
		seen := map[string]string{baseID: "base"}
		for i, id := range ids {
			if _, err := strconv.ParseUint(id, 10, 64); err != nil {
				return out, &vsched.Violation{Key: "C17/opid-malformed", Msg: fmt.Sprintf("%s produced op id %q", how[i], id)}
			}
			if id == "4242" {
				return out, &vsched.Violation{Key: "C17/opid-reused-from-request", Msg: fmt.Sprintf("%s carries the request's own op id", how[i])}
			}
			if prev, dup := seen[id]; dup {
				return out, &vsched.Violation{Key: "C17/opid-duplicate", Msg: fmt.Sprintf("op id %s given to both %s and %s", id, prev, how[i])}
			}
			seen[id] = how[i]
		}
		return out, nil
	}
	return body, check
}

// ---- (ii) concurrent operations on one shared context: linearizability ---------------------------

type vfCtxOp struct {
	kind   string // operation name
	k, v   string
	inv    int
	ret    int
	result string
	thread int
}

// model state for the brute-force linearizability check
type vfCtxModel struct {
	req, resp, eph map[string]string
}

func (m *vfCtxModel) clone() *vfCtxModel {
	c := &vfCtxModel{req: map[string]string{}, resp: map[string]string{}, eph: map[string]string{}}
	for k, v := range m.req {
		c.req[k] = v
	}
	for k, v := range m.resp {
		c.resp[k] = v
	}
	for k, v := range m.eph {
		c.eph[k] = v
	}
	return c
}

func vfDump(m map[string]string) string {
	ks := make([]string, 0, len(m))
	for k := range m {
		if k == opIDHeader {
			continue
		}
		ks = append(ks, k)
	}
	sort.Strings(ks)
	var sb strings.Builder
	for _, k := range ks {
		sb.WriteString(k + "=" + m[k] + ";")
	}
	return sb.String()
}

// vfDumpFull renders every entry, the op id included.
func vfDumpFull(m map[string]string) string {
	ks := make([]string, 0, len(m))
	for k := range m {
		ks = append(ks, k)
	}
	sort.Strings(ks)
	var sb strings.Builder
	for _, k := range ks {
		sb.WriteString(k + "=" + m[k] + ";")
	}
	return sb.String()
}

func vfDumpEph(m map[interface{}]interface{}) string {
	s := map[string]string{}
	for k, v := range m {
		s[fmt.Sprint(k)] = fmt.Sprint(v)
	}
	return vfDump(s)
}

// apply runs op on the model and returns the result the model predicts.
func (m *vfCtxModel) apply(o *vfCtxOp) string {
	switch o.kind {
	case "AddReq":
		m.req[o.k] = o.v
		return ""
	case "Req":
		v, ok := m.req[o.k]
		return fmt.Sprintf("%s,%v", v, ok)
	case "Reqs", "CloneReq":
		return vfDump(m.req)
	case "AddResp", "ReadResp":
		m.resp[o.k] = o.v
		return ""
	case "Resp":
		v, ok := m.resp[o.k]
		return fmt.Sprintf("%s,%v", v, ok)
	case "Resps", "CloneResp":
		return vfDump(m.resp)
	case "SetTO":
		m.req[timeoutHeader] = o.v
		return ""
	case "TO":
		return m.req[timeoutHeader]
	case "AddEph":
		m.eph[o.k] = o.v
		return ""
	case "Eph":
		v, ok := m.eph[o.k]
		if !ok {
			return "<nil>,false"
		}
		return fmt.Sprintf("%s,%v", v, ok)
	case "Ephs", "CloneEph":
		return vfDump(m.eph)
	case "Cid":
		return m.req[cidHeader]
	}
	panic("model: " + o.kind)
}

func vfLinearizable(ops []*vfCtxOp, init *vfCtxModel) bool {
	n := len(ops)
	used := make([]bool, n)
	var rec func(m *vfCtxModel, done int) bool
	rec = func(m *vfCtxModel, done int) bool {
		if done == n {
			return true
		}
		// minimal-return among unused: an op may go next only if it was invoked before every
		// unused op returned
		minRet := 1 << 30
		for i, o := range ops {
			if !used[i] && o.ret < minRet {
				minRet = o.ret
			}
		}
		for i, o := range ops {
			if used[i] || o.inv > minRet {
				continue
			}
			c := m.clone()
			if c.apply(o) != o.result {
				continue
			}
			used[i] = true
			if rec(c, done+1) {
				return true
			}
			used[i] = false
		}
		return false
	}
	return rec(init, 0)
}

var vfCtxAlphabet = []string{"AddReq:a", "AddReq:b", "Req:a", "Reqs", "AddResp:a", "Resp:a", "Resps", "SetTO", "TO", "AddEph:a", "Eph:a", "Ephs", "Clone", "Cid", "ReadResp:r"}

func vfSharedMake(scn string) (func(), func(*vsched.Exec) (string, *vsched.Violation)) {
	// scn: "shared:<op,op>/<op,op>/..."
	parts := strings.Split(strings.TrimPrefix(scn, "shared:"), "/")
	var ops []*vfCtxOp
	var clock int
	var cloneBad string
	body := func() {
		vfResetGlobals()
		ops = nil
		clock = 0
		cloneBad = ""
		ctx := NewFContext("cid0").(*FContextImpl)
		ctx.AddRequestHeader("a", "a0")
		ctx.AddResponseHeader("a", "ra0")
		ctx.AddEphemeralProperty("a", "ea0")
		for ti, seq := range parts {
			ti, seq := ti, seq
			vsched.GoNamed(fmt.Sprintf("user%d", ti), true, func() {
				for oi, name := range strings.Split(seq, ",") {
					kv := strings.SplitN(name, ":", 2)
					o := &vfCtxOp{kind: kv[0], thread: ti}
					if len(kv) == 2 {
						o.k = kv[1]
					}
					o.v = fmt.Sprintf("t%do%d", ti, oi)
					clock++
					o.inv = clock
					switch o.kind {
					case "AddReq":
						ctx.AddRequestHeader(o.k, o.v)
					case "Req":
						v, ok := ctx.RequestHeader(o.k)
						o.result = fmt.Sprintf("%s,%v", v, ok)
					case "Reqs":
						m := ctx.RequestHeaders()
						o.result = vfDump(m)
						m["zz"] = "mutated-copy" // returned maps must be copies
					case "AddResp":
						ctx.AddResponseHeader(o.k, o.v)
					case "ReadResp":
						// the library reads a response's headers (one user header and the op id) into the context
						wire := vfEncodeHeaders(map[string]string{o.k: o.v, opIDHeader: "7"})
						pf := NewFProtocolFactory(thrift.NewTBinaryProtocolFactoryConf(nil))
						if err := pf.GetProtocol(&thrift.TMemoryBuffer{Buffer: bytes.NewBuffer(wire)}).ReadResponseHeader(ctx); err != nil {
							panic("ReadResponseHeader: " + err.Error())
						}
					case "Resp":
						v, ok := ctx.ResponseHeader(o.k)
						o.result = fmt.Sprintf("%s,%v", v, ok)
					case "Resps":
						m := ctx.ResponseHeaders()
						o.result = vfDump(m)
						m["zz"] = "mutated-copy"
					case "SetTO":
						ms := 100 + ti*10 + oi
						o.v = strconv.Itoa(ms)
						ctx.SetTimeout(time.Duration(ms) * time.Millisecond)
					case "TO":
						o.result = strconv.FormatInt(int64(ctx.Timeout()/time.Millisecond), 10)
					case "AddEph":
						ctx.AddEphemeralProperty(o.k, o.v)
					case "Eph":
						v, ok := ctx.EphemeralProperty(o.k)
						o.result = fmt.Sprintf("%v,%v", v, ok)
					case "Ephs":
						m := ctx.EphemeralProperties()
						o.result = vfDumpEph(m)
						m["zz"] = "mutated-copy"
					case "Cid":
						o.result = ctx.CorrelationID()
					case "Clone":
						cl := ctx.Clone()
						clock++
						ret := clock
						// a clone reads the three maps one after the other: three reads sharing the
						// Clone's interval
						r1 := &vfCtxOp{kind: "CloneReq", thread: ti, inv: o.inv, ret: ret, result: vfDump(cl.RequestHeaders())}
						r2 := &vfCtxOp{kind: "CloneResp", thread: ti, inv: o.inv, ret: ret, result: vfDump(cl.ResponseHeaders())}
						r3 := &vfCtxOp{kind: "CloneEph", thread: ti, inv: o.inv, ret: ret, result: vfDumpEph(cl.EphemeralProperties())}
						ops = append(ops, r1, r2, r3)
						oid, _ := cl.RequestHeader(opIDHeader)
						orig, _ := ctx.RequestHeader(opIDHeader)
						if oid == orig || oid == "" {
							cloneBad = "clone shares the original's op id " + oid
						}
						// writes to the clone must never show on the shared original
						cl.AddRequestHeader("zz", "clone-write")
						cl.AddResponseHeader("zz", "clone-write")
						cl.AddEphemeralProperty("zz", "clone-write")
						continue
					default:
						panic("unknown op " + o.kind)
					}
					clock++
					o.ret = clock
					ops = append(ops, o)
				}
			})
		}
	}
	check := func(e *vsched.Exec) (string, *vsched.Violation) {
		var hs []string
		for _, o := range ops {
			hs = append(hs, fmt.Sprintf("t%d %s(%s)=%q[%d,%d]", o.thread, o.kind, o.k, o.result, o.inv, o.ret))
		}
		out := strings.Join(hs, " ")
		if e.Status == vsched.Panicked {
			return out, &vsched.Violation{Key: "C17/panic/" + vfFirstLine(e.PanicS), Msg: e.PanicS}
		}
		for _, b := range e.Blocked() {
			if b.FG {
				return out, &vsched.Violation{Key: "C17/blocked/" + b.Kind.String() + "@" + b.Where, Msg: fmt.Sprintf("operation on a shared FContext never returns: %v", b)}
			}
		}
		if cloneBad != "" {
			return out, &vsched.Violation{Key: "C17/clone-opid", Msg: cloneBad}
		}
		init := &vfCtxModel{
			req:  map[string]string{"a": "a0", cidHeader: "cid0", timeoutHeader: "5000"},
			resp: map[string]string{"a": "ra0"},
			eph:  map[string]string{"a": "ea0"},
		}
		if !vfLinearizable(ops, init) {
			return "nonlinearizable", &vsched.Violation{Key: "C17/not-linearizable", Msg: "no sequential order of the operations on the shared FContext explains the observed results (a returned map is not a copy, a write was lost, or a clone leaks into the original): " + out}
		}
		return out, nil
	}
	return body, check
}

// ---- (iii) clone independence: every mutation sequence, differential against reference maps -----

func vfCloneMake(scn string) (func(), func(*vsched.Exec) (string, *vsched.Violation)) {
	// scn: "clone:<route>:<len>"
	f := strings.Split(scn, ":")
	route := f[1][0]
	depth, _ := strconv.Atoi(f[2])
	type mut struct {
		side int // 0 original, 1 clone
		kind string
		k    string
	}
	var muts []mut
	for side := 0; side < 2; side++ {
		for _, k := range []string{"a", "b"} {
			muts = append(muts, mut{side, "req", k}, mut{side, "resp", k}, mut{side, "eph", k})
		}
		muts = append(muts, mut{side, "to", ""})
	}
	var bad, trace string
	body := func() {
		vfResetGlobals()
		bad, trace = "", ""
		// where the context to be cloned comes from: made by the application, received by a server
		// (ReadRequestHeader: the caller's op id and correlation id sit among the response headers), or
		// made by the application and given the reserved names as response headers by hand
		var orig FContext
		switch vsched.Choose(3) {
		case 0:
			orig = NewFContext("cid0")
		case 1:
			orig, _ = vfMakeCtx('r', nil)
		case 2:
			orig = NewFContext("cid0")
			orig.AddResponseHeader(opIDHeader, "77").AddResponseHeader(cidHeader, "rcid").AddResponseHeader(timeoutHeader, "5")
		}
		orig.AddRequestHeader("a", "a0").AddResponseHeader("a", "ra0")
		orig.(FContextWithEphemeralProperties).AddEphemeralProperty("a", "ea0")
		// whole and fractional milliseconds: whatever the original reports, the clone must report too
		orig.SetTimeout([]time.Duration{1234 * time.Millisecond, 1500 * time.Microsecond, 2*time.Second + time.Nanosecond, 250 * time.Microsecond}[vsched.Choose(4)])
		// mutate the original once before cloning so the clone starts from a non-initial state
		pre := vsched.Choose(3)
		switch pre {
		case 1:
			orig.AddRequestHeader("b", "b0")
		case 2:
			orig.AddResponseHeader("b", "rb0")
		}
		var cl FContext
		plain := false
		switch route {
		case 'c':
			cl = Clone(orig)
		case 'm':
			cl = orig.(FContextWithEphemeralProperties).Clone()
		case 'p':
			cl = Clone(vfPlainCtx{orig})
			plain = true
		}
		type ref struct{ req, resp, eph map[string]string }
		snap := func(c FContext) ref {
			r := ref{req: c.RequestHeaders(), resp: c.ResponseHeaders(), eph: map[string]string{}}
			if w, ok := c.(FContextWithEphemeralProperties); ok {
				for k, v := range w.EphemeralProperties() {
					r.eph[fmt.Sprint(k)] = fmt.Sprint(v)
				}
			}
			return r
		}
		ro, rc := snap(orig), snap(cl)
		oid, _ := orig.RequestHeader(opIDHeader)
		cid, _ := cl.RequestHeader(opIDHeader)
		if cid == oid || cid == "" {
			bad = fmt.Sprintf("clone op id %q vs original %q", cid, oid)
			return
		}
		// the clone starts equal to the original except for the op id (a plain FContext carries no
		// ephemeral properties, so none can be copied)
		delete(ro.req, opIDHeader)
		delete(rc.req, opIDHeader)
		if vfDumpFull(ro.req) != vfDumpFull(rc.req) || vfDumpFull(ro.resp) != vfDumpFull(rc.resp) || (!plain && vfDump(ro.eph) != vfDump(rc.eph)) {
			bad = fmt.Sprintf("clone does not start equal: orig{%s|%s|%s} clone{%s|%s|%s}", vfDumpFull(ro.req), vfDumpFull(ro.resp), vfDump(ro.eph), vfDumpFull(rc.req), vfDumpFull(rc.resp), vfDump(rc.eph))
			return
		}
		if orig.Timeout() != cl.Timeout() {
			bad = "clone timeout differs"
			return
		}
		refs := [2]ref{ro, rc}
		ctxs := [2]FContext{orig, cl}
		for step := 0; step < depth; step++ {
			m := muts[vsched.Choose(len(muts))]
			v := fmt.Sprintf("s%d", step)
			trace += fmt.Sprintf("%d:%s(%s) ", m.side, m.kind, m.k)
			c := ctxs[m.side]
			switch m.kind {
			case "req":
				c.AddRequestHeader(m.k, v)
				refs[m.side].req[m.k] = v
			case "resp":
				c.AddResponseHeader(m.k, v)
				refs[m.side].resp[m.k] = v
			case "eph":
				w, ok := c.(FContextWithEphemeralProperties)
				if !ok {
					continue
				}
				w.AddEphemeralProperty(m.k, v)
				refs[m.side].eph[m.k] = v
			case "to":
				other := ctxs[1-m.side].Timeout()
				c.SetTimeout(time.Duration(77+step)*time.Millisecond + 300*time.Microsecond)
				refs[m.side].req[timeoutHeader] = strconv.Itoa(77 + step)
				if ctxs[1-m.side].Timeout() != other {
					bad = fmt.Sprintf("after %s the timeout of the other side changed from %s to %s", trace, other, ctxs[1-m.side].Timeout())
					return
				}
				// a further clone of the side just changed reports the same timeout as that side
				if cc := Clone(c); cc.Timeout() != c.Timeout() {
					bad = fmt.Sprintf("after %s a clone reports timeout %s, its source %s", trace, cc.Timeout(), c.Timeout())
					return
				}
			}
			for side := 0; side < 2; side++ {
				got := snap(ctxs[side])
				if vfDump(got.req) != vfDump(refs[side].req) || vfDump(got.resp) != vfDump(refs[side].resp) || vfDump(got.eph) != vfDump(refs[side].eph) {
					who := "original"
					if side == 1 {
						who = "clone"
					}
					bad = fmt.Sprintf("after %s the %s is {%s|%s|%s}, reference {%s|%s|%s}", trace, who, vfDump(got.req), vfDump(got.resp), vfDump(got.eph), vfDump(refs[side].req), vfDump(refs[side].resp), vfDump(refs[side].eph))
					return
				}
			}
		}
	}
	check := func(e *vsched.Exec) (string, *vsched.Violation) {
		if e.Status == vsched.Panicked {
			return "panic", &vsched.Violation{Key: "C17/panic/" + vfFirstLine(e.PanicS), Msg: e.PanicS}
		}
		if bad != "" {
			return "bad", &vsched.Violation{Key: "C17/clone-not-independent", Msg: bad}
		}
		return "ok", nil
	}
	return body, check
}

func init() {
	vfRegister(&vfHarness{
		Name:  "ctx",
		Props: []string{"C17"},
		Scenarios: func(tier string) []string {
			var out []string
			routes := "ncmpr"
			// (i) two (three) threads, two creations each, every route pair per thread
			var pairs []string
			for _, a := range routes {
				for _, b := range routes {
					pairs = append(pairs, string([]rune{a, b}))
				}
			}
			if tier == "thorough" {
				for _, p1 := range pairs {
					for _, p2 := range pairs {
						out = append(out, "ids:"+p1+"/"+p2)
					}
				}
				for _, a := range routes {
					for _, b := range routes {
						for _, c := range routes {
							out = append(out, "ids:"+string(a)+string(a)+"/"+string(b)+string(b)+"/"+string(c)+string(c))
						}
					}
				}
			} else {
				for _, a := range routes {
					for _, b := range routes {
						out = append(out, "ids:"+string(a)+string(b)+"/"+string(b)+string(a))
					}
				}
				out = append(out, "ids:nn/cc/rr", "ids:mm/pp/nr")
			}
			// (ii) shared context: every pair (thorough: pair of length-2 sequences sampled by
			// full product over a reduced alphabet)
			al := vfCtxAlphabet
			for _, a := range al {
				for _, b := range al {
					out = append(out, "shared:"+a+"/"+b)
				}
			}
			writers := []string{"AddReq:a", "AddResp:a", "AddEph:a", "SetTO"}
			readers := []string{"Req:a", "Reqs", "Resps", "TO", "Ephs", "Clone"}
			for _, w1 := range writers {
				for _, w2 := range writers {
					for _, r1 := range readers {
						for _, r2 := range readers {
							if tier != "thorough" && !(r1 == "Clone" || r2 == "Clone" || w1 == w2) {
								continue
							}
							out = append(out, "shared:"+w1+","+w2+"/"+r1+","+r2)
						}
					}
				}
			}
			// two updaters of the response headers, each followed by a read of all of them
			for _, u1 := range []string{"AddResp:b", "ReadResp:r"} {
				for _, u2 := range []string{"AddResp:c", "ReadResp:q"} {
					out = append(out, "shared:"+u1+",Resps/"+u2+",Resps")
				}
			}
			if tier == "thorough" {
				for _, w := range writers {
					for _, r := range readers {
						for _, x := range al {
							out = append(out, "shared:"+w+"/"+r+"/"+x)
						}
					}
				}
			} else {
				out = append(out, "shared:AddReq:a/Clone/Reqs", "shared:AddEph:a/Clone/AddResp:a", "shared:SetTO/TO/Clone")
			}
			// (iii) clone independence
			d := "3"
			if tier == "thorough" {
				d = "4"
			}
			for _, r := range "cmp" {
				out = append(out, "clone:"+string(r)+":"+d)
			}
			return out
		},
		Make: func(scn string) (func(), func(*vsched.Exec) (string, *vsched.Violation)) {
			switch {
			case strings.HasPrefix(scn, "ids:"):
				return vfOpidMake(scn)
			case strings.HasPrefix(scn, "shared:"):
				return vfSharedMake(scn)
			default:
				return vfCloneMake(scn)
			}
		},
		Bound: func(tier, scn string) (int, bool) { return -1, true }, // unbounded: the spaces are small
	})
}
