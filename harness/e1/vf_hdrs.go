package frugal

// Harness "hdrs" (C04): two or three goroutines, each with its own FProtocol over its own stream,
// read or write frugal headers at the same time. Every stream hands its bytes out (takes them) in
// small pieces and every piece is a scheduling point, so another goroutine's codec call can run in
// the middle of this one's. Oracle: every reader ends up with exactly the headers of its own stream
// (and the payload byte that follows them), every writer's stream carries exactly its own headers.

import (
	"context"
	"fmt"
	"io"
	"sort"
	"strings"

	"github.com/apache/thrift/lib/go/thrift"

	"verif/engine/vsched"
)

// vfSlowStream is a TTransport whose Read returns at most chunk bytes and whose Read / Write are
// visible steps.
type vfSlowStream struct {
	in    []byte
	out   []byte
	chunk int
	// shared stands for whatever process-wide state the codec may have: every piece counts as a
	// write to it, so that no two orders of pieces of different streams are taken for equivalent
	shared *vsched.Obj
}

func (s *vfSlowStream) Read(p []byte) (int, error) {
	vsched.Yield()
	s.shared.Write()
	if len(s.in) == 0 {
		return 0, thrift.NewTTransportExceptionFromError(io.EOF)
	}
	n := len(p)
	if n > s.chunk {
		n = s.chunk
	}
	n = copy(p[:n], s.in)
	s.in = s.in[n:]
	return n, nil
}
func (s *vfSlowStream) Write(p []byte) (int, error) {
	vsched.Yield()
	s.shared.Write()
	s.out = append(s.out, p...)
	return len(p), nil
}
func (s *vfSlowStream) Flush(ctx context.Context) error { return nil }
func (s *vfSlowStream) Open() error                     { return nil }
func (s *vfSlowStream) Close() error                    { return nil }
func (s *vfSlowStream) IsOpen() bool                    { return true }
func (s *vfSlowStream) RemainingBytes() uint64          { return uint64(len(s.in)) }

type vfHdrActor struct {
	kind   string // r: ReadRequestHeader, s: ReadResponseHeader, w: WriteRequestHeader
	want   map[string]string
	stream *vfSlowStream
	got    map[string]string
	next   string // the byte after the headers, as read by the reader
	err    string
	done   bool
}

func vfHdrCanon(m map[string]string) string {
	var ks []string
	for k := range m {
		ks = append(ks, k)
	}
	sort.Strings(ks)
	var sb strings.Builder
	for _, k := range ks {
		fmt.Fprintf(&sb, "%s=%s;", k, m[k])
	}
	return sb.String()
}

func vfHdrsMake(scn string) (func(), func(*vsched.Exec) (string, *vsched.Violation)) {
	// scn: "a=r/r,len=same" | "a=r/w/s,len=diff"
	kinds, sameLen := []string{"r", "r"}, true
	for _, kv := range strings.Split(scn, ",") {
		if strings.HasPrefix(kv, "a=") {
			kinds = strings.Split(kv[2:], "/")
		}
		if kv == "len=diff" {
			sameLen = false
		}
	}
	var actors []*vfHdrActor
	body := func() {
		vfResetGlobals()
		actors = nil
		pf := NewFProtocolFactory(thrift.NewTBinaryProtocolFactoryConf(nil))
		shared := vsched.NewObj("codec-globals")
		for i, k := range kinds {
			val := fmt.Sprintf("value-of-%d", i)
			if !sameLen {
				val += strings.Repeat("+", 3*i)
			}
			a := &vfHdrActor{kind: k, want: map[string]string{"k": val, "_cid": fmt.Sprintf("cid%d", i), "_opid": fmt.Sprint(40 + i)}}
			a.stream = &vfSlowStream{chunk: 3, shared: shared}
			if k == "s" {
				delete(a.want, "_opid") // the caller's own op id stays; the one on the wire is only used for routing
			}
			if k != "w" {
				a.stream.in = append(vfEncodeHeaders(a.want), byte('A'+i))
			}
			actors = append(actors, a)
			i := i
			vsched.GoNamed(fmt.Sprintf("actor%d", i), true, func() {
				p := pf.GetProtocol(a.stream)
				switch a.kind {
				case "r":
					fctx, err := p.ReadRequestHeader()
					if err != nil {
						a.err = err.Error()
					} else {
						a.got = fctx.RequestHeaders()
						// the handler's context gets an op id of its own; the request's travels in the response headers
						if id, ok := fctx.ResponseHeader("_opid"); ok {
							a.got["_opid"] = id
						}
					}
				case "s":
					fctx := NewFContext("x")
					if err := p.ReadResponseHeader(fctx); err != nil {
						a.err = err.Error()
					} else {
						a.got = fctx.ResponseHeaders()
					}
				case "w":
					fctx := NewFContext(a.want["_cid"])
					fctx.AddRequestHeader("k", a.want["k"])
					fctx.AddRequestHeader("_opid", a.want["_opid"])
					if err := p.WriteRequestHeader(fctx); err != nil {
						a.err = err.Error()
					}
				}
				if a.kind != "w" && a.err == "" {
					b, err := p.ReadByte(context.Background())
					if err != nil {
						a.err = "payload: " + err.Error()
					}
					a.next = string(rune(b))
				}
				a.done = true
			})
		}
	}
	check := func(e *vsched.Exec) (string, *vsched.Violation) {
		var outs []string
		for i, a := range actors {
			switch {
			case !a.done:
				outs = append(outs, fmt.Sprintf("%d:blocked", i))
			case a.err != "":
				outs = append(outs, fmt.Sprintf("%d:err", i))
			default:
				outs = append(outs, fmt.Sprintf("%d:ok", i))
			}
		}
		out := strings.Join(outs, ",")
		var first *vsched.Violation
		viol := func(key, msg string) {
			if first == nil && vfWants(key) {
				first = &vsched.Violation{Key: key, Msg: msg + " | " + scn}
			}
		}
		if e.Status == vsched.Panicked {
			viol("C04/concurrent-codec/panic/"+vfFirstLine(e.PanicS), e.PanicS)
			return out, first
		}
		if e.Status == vsched.Horizon {
			viol("C04/concurrent-codec/livelock", "step horizon exceeded")
			return out, first
		}
		for i, a := range actors {
			if !a.done {
				viol("C04/concurrent-codec/never-returns", fmt.Sprintf("actor %d (%s) never returns", i, a.kind))
				continue
			}
			if a.err != "" {
				viol("C04/concurrent-codec/error/"+a.kind, fmt.Sprintf("actor %d (%s) on its own well-formed stream, while the others use theirs: %s", i, a.kind, a.err))
				continue
			}
			switch a.kind {
			case "r", "s":
				got := map[string]string{}
				for k, v := range a.got {
					if _, mine := a.want[k]; mine || !strings.HasPrefix(k, "_") {
						got[k] = v
					}
				}
				if vfHdrCanon(got) != vfHdrCanon(a.want) {
					viol("C04/concurrent-codec/foreign-headers/"+a.kind, fmt.Sprintf("actor %d read %s from a stream that carries %s", i, vfHdrCanon(got), vfHdrCanon(a.want)))
				}
				if a.next != string(rune('A'+i)) {
					viol("C04/concurrent-codec/payload-position/"+a.kind, fmt.Sprintf("actor %d: the byte after the headers reads %q, the stream has %q there", i, a.next, string(rune('A'+i))))
				}
			case "w":
				h, rest, err := vfParse(a.stream.out)
				if err != nil || len(rest) != 0 {
					viol("C04/concurrent-codec/written-bytes/w", fmt.Sprintf("actor %d wrote bytes that do not parse as one header block (%v, %d trailing bytes)", i, err, len(rest)))
					continue
				}
				got := map[string]string{}
				for k, v := range h {
					if _, mine := a.want[k]; mine || !strings.HasPrefix(k, "_") {
						got[k] = v
					}
				}
				if vfHdrCanon(got) != vfHdrCanon(a.want) {
					viol("C04/concurrent-codec/foreign-headers/w", fmt.Sprintf("actor %d wrote %s for a context that carries %s", i, vfHdrCanon(got), vfHdrCanon(a.want)))
				}
			}
		}
		return out, first
	}
	return body, check
}

func init() {
	vfRegister(&vfHarness{
		Name:  "hdrs",
		Props: []string{"C04"},
		Scenarios: func(tier string) []string {
			out := []string{"a=r/r,len=same", "a=r/r,len=diff", "a=r/s,len=same", "a=r/w,len=same", "a=w/w,len=diff", "a=s/s,len=diff"}
			if tier == "thorough" {
				out = append(out, "a=r/r/r,len=same", "a=r/s/w,len=diff", "a=w/w/r,len=same")
			}
			return out
		},
		Make: vfHdrsMake,
		Bound: func(tier, scn string) (int, bool) {
			if tier == "thorough" {
				return 3, true
			}
			return 2, true
		},
	})
}
