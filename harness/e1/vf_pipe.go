package frugal

import (
	"context"
	"errors"

	"github.com/apache/thrift/lib/go/thrift"

	"verif/engine/vsched"
)

// vfPipe is an in-memory thrift.TTransport owned by the harness. Read parks (a visible blocking
// operation) until the environment supplies bytes or a fault; what the environment supplies is
// decided by the `next` callback, which draws from vsched.Choose so that every answer is explored.
type vfPipe struct {
	obj      *vsched.Obj // inbound side: bytes, faults, open flag, event counter
	out      *vsched.Obj // outbound side: writes and flushes
	inbound  []byte
	open     bool
	everOpen bool
	readErr  error
	epoch    int // bumped on every client-side event (write, flush, caller return)
	writes   [][]byte
	flushes  int
	consumed int // bytes handed to Read so far
	// environment
	next    func(p *vfPipe) bool // supply more input (true) or wait for the next event (false)
	onWrite func(p *vfPipe, b []byte) error
	onFlush func(p *vfPipe) error
	onOpen  func(p *vfPipe) error
	onClose func(p *vfPipe) error
	opens   int
	closes  int
	gen     int // connection generation: a Read blocked across a Close fails, as on a real socket
	// writeIsEvent: a client write counts as an event a waiting peer may react to
	writeIsEvent bool
}

func vfNewPipe() *vfPipe {
	return &vfPipe{obj: vsched.NewObj("pipe"), out: vsched.NewObj("pipe-out")}
}

var errVfClosed = thrift.NewTTransportException(thrift.NOT_OPEN, "vfPipe: closed")

func (p *vfPipe) Open() error {
	p.obj.Write()
	p.opens++
	if p.onOpen != nil {
		if err := p.onOpen(p); err != nil {
			return err
		}
	}
	if p.open {
		return thrift.NewTTransportException(thrift.ALREADY_OPEN, "vfPipe: already open")
	}
	p.open = true
	p.everOpen = true
	p.readErr = nil
	p.inbound = nil
	return nil
}

func (p *vfPipe) IsOpen() bool { p.obj.Read(); return p.open }

func (p *vfPipe) Close() error {
	p.obj.Write()
	p.closes++
	if p.onClose != nil {
		if err := p.onClose(p); err != nil {
			return err
		}
	}
	if !p.open {
		return errVfClosed
	}
	p.open = false
	p.gen++
	return nil
}

// event records client-side progress so that a waiting peer may act.
func (p *vfPipe) event() {
	p.obj.Write()
	p.epoch++
}

func (p *vfPipe) Read(b []byte) (int, error) {
	if vsched.Killed() {
		return 0, errVfClosed
	}
	gen := p.gen
	for {
		p.obj.Read()
		if !p.open || p.gen != gen {
			return 0, errVfClosed
		}
		if len(p.inbound) > 0 {
			n := copy(b, p.inbound)
			p.inbound = p.inbound[n:]
			p.consumed += n
			p.obj.Write()
			return n, nil
		}
		if p.readErr != nil {
			err := p.readErr
			p.readErr = nil
			p.obj.Write()
			return 0, err
		}
		if p.next != nil && p.next(p) {
			p.obj.Write()
			continue
		}
		seen := p.epoch
		vsched.WaitUntil(p.obj, func() bool {
			return len(p.inbound) > 0 || p.readErr != nil || !p.open || p.gen != gen || p.epoch != seen
		})
		if vsched.Killed() {
			return 0, errVfClosed
		}
	}
}

func (p *vfPipe) Write(b []byte) (int, error) {
	vsched.Yield() // every write to the shared stream is a visible step
	p.out.Write()
	if p.onWrite != nil {
		if err := p.onWrite(p, b); err != nil {
			return 0, err
		}
	}
	if !p.open {
		return 0, errVfClosed
	}
	p.writes = append(p.writes, append([]byte(nil), b...))
	if p.writeIsEvent {
		p.event()
	}
	return len(b), nil
}

func (p *vfPipe) Flush(ctx context.Context) error {
	if p.onFlush != nil {
		vsched.Yield() // only a separate visible step when the harness injects flush faults
	}
	p.out.Write()
	if p.onFlush != nil {
		if err := p.onFlush(p); err != nil {
			return err
		}
	}
	if !p.open {
		return errVfClosed
	}
	p.flushes++
	return nil
}

func (p *vfPipe) RemainingBytes() uint64 { return ^uint64(0) }

var errVfGeneric = errors.New("vfPipe: injected I/O error")
