package frugal

// Harness "mux": n concurrent callers on one real fAdapterTransport over vfPipe; the peer emits
// every frame sequence of length <= k over {resp(op_i), resp(unknown id)} at every possible moment.
// Serves C01 (correlation), C06 (no head-of-line blocking) and C13 (timeouts).

import (
	"math/big"
	"fmt"
	"io"
	"strconv"
	"strings"
	"time"

	"github.com/apache/thrift/lib/go/thrift"

	"verif/engine/vsched"
)

type vfMuxCaller struct {
	start    int64
	started  bool
	tid      int
	ctx      FContext
	opid     string
	timeout  time.Duration
	done     bool
	outcome  string
	retClock int64
	gotOpid  string
	gotMark  string
	errType  int
	// the peer emitted this caller's own response while the request was registered and before the
	// caller's deadline timer had fired
	deliverable string
}

type vfMuxState struct {
	pipe     *vfPipe
	tr       *fAdapterTransport
	callers  []*vfMuxCaller
	emitted  []string // frames emitted by the peer: "<opid>/<marker>"
	framesK  int
	idles    int
	returned int
	needLate string // set when time had to advance past a pending caller's deadline at quiescence
	reqWritten int  // request frames the peer has received
}

type vfMuxCfg struct {
	n        int
	k        int
	timeouts []time.Duration
	frames   []int // explicit frame sequence: caller index, or -1 for an op id nobody issued
	wstall   int   // index of the pipe write that never returns (-1: none)
	fstall   int   // index of the pipe flush that never returns (-1: none)
	werr     int   // index of the pipe write that fails (-1: none)
	oneway   bool  // callers use Oneway instead of Request
	wdelayK  int  // the write with this index takes wdelayMS of virtual time before it completes (-1: none)
	wdelayMS int
	pad      int  // size of every frame body the peer sends (0: as small as it gets)
	tviaHeader bool // the timeout is set through the _timeout request header
	ctxVia     string // "": NewFContext per caller; "clone" / "fclone": every caller clones one inbound context (an FContextImpl / a third-party FContext wrapping one)
	malformed bool // the sequence contains a frame that is not well-formed
	burst    bool  // the peer sends the whole sequence at once, after every caller's request arrived
	gap      uint64 // distance between the op ids of successive callers (0: consecutive)
}

func vfParseMuxCfg(s string) vfMuxCfg {
	// "n=2,k=3,t=1/5"
	c := vfMuxCfg{n: 2, k: 3, wstall: -1, fstall: -1, werr: -1, wdelayK: -1}
	for _, kv := range strings.Split(s, ",") {
		p := strings.SplitN(kv, "=", 2)
		if len(p) != 2 {
			continue
		}
		switch p[0] {
		case "n":
			c.n, _ = strconv.Atoi(p[1])
		case "k":
			c.k, _ = strconv.Atoi(p[1])
		case "ws":
			c.wstall, _ = strconv.Atoi(p[1])
		case "fs":
			c.fstall, _ = strconv.Atoi(p[1])
		case "we":
			c.werr, _ = strconv.Atoi(p[1])
		case "call":
			c.oneway = p[1] == "oneway"
		case "burst":
			c.burst = p[1] == "1"
		case "wd":
			kv := strings.SplitN(p[1], ":", 2)
			c.wdelayK, _ = strconv.Atoi(kv[0])
			if len(kv) == 2 {
				c.wdelayMS, _ = strconv.Atoi(kv[1])
			}
		case "pad":
			c.pad, _ = strconv.Atoi(p[1])
		case "tvia":
			c.tviaHeader = p[1] == "header"
		case "ctx":
			c.ctxVia = p[1]
		case "gap":
			c.gap, _ = strconv.ParseUint(p[1], 10, 64)
		case "f":
			for _, t := range strings.Split(p[1], ".") {
				if t == "u" {
					c.frames = append(c.frames, -1)
				} else if strings.HasPrefix(t, "w") {
					// an op id nobody issued that equals caller k's op id modulo 2^64: not a uint64, so the
					// frame is malformed and the transport may close itself, but it is nobody's response
					v, _ := strconv.Atoi(t[1:])
					c.frames = append(c.frames, 1000+v-1)
					c.malformed = true
				} else if t != "" {
					v, _ := strconv.Atoi(t)
					c.frames = append(c.frames, v-1)
				}
			}
		case "t":
			for _, t := range strings.Split(p[1], "/") {
				if t == "h" {
					// a positive timeout below the millisecond granularity of the _timeout header
					c.timeouts = append(c.timeouts, 500*time.Microsecond)
					continue
				}
				ms, _ := strconv.Atoi(t)
				c.timeouts = append(c.timeouts, time.Duration(ms)*time.Millisecond)
			}
		}
	}
	for len(c.timeouts) < c.n {
		c.timeouts = append(c.timeouts, 5*time.Second)
	}
	return c
}

func vfMuxMake(scn string) (func(), func(*vsched.Exec) (string, *vsched.Violation)) {
	cfg := vfParseMuxCfg(scn)
	var st *vfMuxState
	body := func() {
		vfResetGlobals()
		st = &vfMuxState{}
		p := vfNewPipe()
		st.pipe = p
		tr := NewAdapterTransport(p).(*fAdapterTransport)
		st.tr = tr
		var inbound FContext
		for i := 0; i < cfg.n; i++ {
			if cfg.gap > 1 && i > 0 {
				// other parts of the process made contexts in between: the op ids of the requests in
				// flight are cfg.gap apart (equal in their low bits when the gap is a power of two)
				nextOpID += cfg.gap - 1
			}
			ctx := NewFContext(fmt.Sprintf("cid%d", i))
			switch cfg.ctxVia {
			case "clone":
				// a server handling one inbound request makes its outbound calls with clones of the
				// inbound context
				if inbound == nil {
					inbound = NewFContext("inbound")
				}
				ctx = inbound.(*FContextImpl).Clone()
			case "fclone":
				if inbound == nil {
					inbound = vfDecoCtx{NewFContext("inbound")}
				}
				ctx = Clone(inbound)
			}
			// every FContext is confined to its caller in this harness (C17 covers sharing)
			if ci, ok := ctx.(*FContextImpl); ok {
				ci.mu.SetQuiet()
			}
			if cfg.tviaHeader {
				// the timeout arrives as a header (a gateway copying the inbound request headers onto
				// its outbound context)
				ctx.AddRequestHeader("_timeout", strconv.FormatInt(int64(cfg.timeouts[i]/time.Millisecond), 10))
			} else {
				ctx.SetTimeout(cfg.timeouts[i])
			}
			op, _ := ctx.RequestHeader(opIDHeader)
			st.callers = append(st.callers, &vfMuxCaller{ctx: ctx, opid: op, timeout: cfg.timeouts[i]})
		}
		p.next = func(p *vfPipe) bool {
			if st.framesK >= len(cfg.frames) {
				return false // sequence exhausted: the peer is silent from now on
			}
			if cfg.burst && st.reqWritten < cfg.n {
				return false // a burst starts once every request has reached the peer
			}
			allowIdle := !cfg.burst && st.returned < cfg.n && st.idles < 2*cfg.n+1
			if allowIdle && vsched.Choose(2) == 1 {
				st.idles++ // the next frame arrives only after one more client-side event
				return false
			}
			c := cfg.frames[st.framesK]
			op := "99"
			if c >= 0 && c < cfg.n {
				op = st.callers[c].opid
			}
			if c >= 1000 {
				own, _ := new(big.Int).SetString(st.callers[c-1000].opid, 10)
				op = new(big.Int).Add(own, new(big.Int).Lsh(big.NewInt(1), 64)).String()
			}
			mark := fmt.Sprintf("m%d", len(st.emitted))
			st.emitted = append(st.emitted, op+"/"+mark)
			if c >= 0 && c < cfg.n {
				cl := st.callers[c]
				if reg, ok := tr.registry.(*fRegistryImpl); ok && cl.started && !cl.done && cl.deliverable == "" {
					if _, registered := reg.channels[vfOpKey(cl.opid)]; registered {
						fired := false
						for _, tm := range vsched.Current().TimersOwnedBy(cl.tid) {
							if !tm.Pending() {
								fired = true
							}
						}
						if !fired {
							cl.deliverable = mark
						}
					}
				}
			}
			fr := vfFrame(map[string]string{"_opid": op, "_cid": "x"}, []byte(mark))
			if cfg.pad > 0 && len(fr)-4 < cfg.pad {
				// the frame body (what follows the size prefix) is exactly pad bytes long
				fr = vfFrame(map[string]string{"_opid": op, "_cid": "x"}, []byte(mark+strings.Repeat("~", cfg.pad-(len(fr)-4))))
			}
			p.inbound = append(p.inbound, fr...)
			st.framesK++
			if cfg.burst && st.framesK < len(cfg.frames) {
				return p.next(p) // the rest of the burst is already on the wire
			}
			return true
		}
		nw, nf := 0, 0
		if cfg.burst {
			p.onFlush = func(p *vfPipe) error {
				st.reqWritten++
				p.event()
				return nil
			}
		}
		if cfg.wstall >= 0 || cfg.werr >= 0 || cfg.wdelayK >= 0 {
			p.onWrite = func(p *vfPipe, b []byte) error {
				nw++
				if nw-1 == cfg.wdelayK {
					// a congested peer: this write takes a while, then goes through
					vsched.Sleep(int64(cfg.wdelayMS) * int64(time.Millisecond))
				}
				if nw-1 == cfg.werr {
					return thrift.NewTTransportException(thrift.UNKNOWN_TRANSPORT_EXCEPTION, "injected write failure")
				}
				if nw-1 == cfg.wstall {
					// the peer stops reading: this write never returns while the stream is open
					vsched.WaitUntil(p.out, func() bool { return !p.open })
					return errVfClosed
				}
				return nil
			}
		}
		if cfg.fstall >= 0 {
			p.onFlush = func(p *vfPipe) error {
				nf++
				if nf-1 == cfg.fstall {
					vsched.WaitUntil(p.out, func() bool { return !p.open })
					return errVfClosed
				}
				return nil
			}
		}
		if err := tr.Open(); err != nil {
			panic(err)
		}
		vsched.OnIdleAdvance(func(now int64) {
			// nothing is runnable and time is about to advance: a caller whose own deadline timer
			// has already fired must have returned by now (it needs no later event)
			e := vsched.Current()
			for i, c := range st.callers {
				if !c.started || c.done || st.needLate != "" {
					continue
				}
				for _, tm := range e.TimersOwnedBy(c.tid) {
					if !tm.Pending() && tm.When() <= e.Now() && tm.When() < now {
						st.needLate = fmt.Sprintf("caller%d (timeout %s) is still inside Request with nothing runnable although its own deadline (%dns) has passed; time advances to %dns", i, c.timeout, tm.When(), now)
					}
				}
			}
		})
		for i := range st.callers {
			i := i
			c := st.callers[i]
			vsched.GoNamed(fmt.Sprintf("caller%d", i), true, func() {
				payload := vfFrame(map[string]string{"_opid": c.opid}, []byte("req"))
				c.start = vsched.Current().Now()
				c.tid = vsched.Current().CurThread().ID
				c.started = true
				var res thrift.TTransport
				var err error
				if cfg.oneway {
					err = tr.Oneway(c.ctx, payload)
				} else {
					res, err = tr.Request(c.ctx, payload)
				}
				c.retClock = vsched.Current().Now() - c.start
				c.done = true
				switch {
				case err != nil:
					if te, ok := err.(thrift.TTransportException); ok {
						c.errType = te.TypeId()
						if te.TypeId() == TRANSPORT_EXCEPTION_TIMED_OUT {
							c.outcome = "timeout"
						} else {
							c.outcome = fmt.Sprintf("terr%d", te.TypeId())
						}
					} else {
						c.outcome = "err:" + err.Error()
					}
				case res == nil && cfg.oneway:
					c.outcome = "sent"
				case res == nil:
					c.outcome = "nil"
				default:
					b, _ := io.ReadAll(res)
					h, pl, perr := vfParse(b)
					if perr != nil {
						c.outcome = "garbled"
					} else {
						c.gotOpid = h["_opid"]
						c.gotMark = strings.TrimRight(string(pl), "~")
						c.outcome = "ok:" + c.gotOpid + "/" + c.gotMark
					}
				}
				st.returned++
				vsched.Note(fmt.Sprintf("caller%d -> %s @%dms", i, c.outcome, c.retClock/1e6))
				p.event()
			})
		}
	}
	check := func(e *vsched.Exec) (string, *vsched.Violation) {
		var outs []string
		for _, c := range st.callers {
			o := c.outcome
			if !c.done {
				o = "blocked"
			}
			outs = append(outs, o)
		}
		out := strings.Join(outs, ",") + " frames=" + strings.Join(st.emitted, " ")
		var first *vsched.Violation
		viol := func(key, msg string) (string, *vsched.Violation) {
			if first == nil && vfWants(key) {
				first = &vsched.Violation{Key: key, Msg: msg + " | " + out}
			}
			return out, first
		}
		// correlation is by op id: two requests of one transport must not have been given the same one
		for i := range st.callers {
			for j := 0; j < i; j++ {
				if st.callers[i].opid == st.callers[j].opid {
					viol("C01/callers-share-an-op-id", fmt.Sprintf("the contexts of callers %d and %d carry the same op id %s", j, i, st.callers[i].opid))
					return out, first
				}
			}
		}
		if e.Status == vsched.Panicked {
			viol(vfPropOr("C01")+"/panic/"+vfFirstLine(e.PanicS), e.PanicS)
			return out, first
		}
		if e.Status == vsched.Horizon {
			viol(vfPropOr("C13")+"/livelock", "step horizon exceeded: some thread spins without making progress")
			return out, first
		}
		bl := e.Blocked()
		for _, b := range bl {
			if b.FG {
				continue // a caller that never returns is C13's finding, reported below
			}
			if b.Kind == vsched.KSend || b.Kind == vsched.KLock || b.Kind == vsched.KRLock {
				viol("C06/wedged/"+b.Kind.String()+"@"+b.Where,
					fmt.Sprintf("thread %q is parked forever in %s at %s with the system quiescent: the inbound path is stalled", b.Thread, b.Kind, b.Where))
			}
		}
		for _, b := range bl {
			if b.FG {
				viol("C13/caller-never-returns/"+b.Kind.String()+"@"+b.Where,
					fmt.Sprintf("caller %q never returns although every timer has fired (parked in %s at %s)", b.Thread, b.Kind, b.Where))
			}
		}
		if st.needLate != "" {
			viol("C13/needs-later-event", st.needLate)
		}
		emitted := map[string]bool{}
		for _, f := range st.emitted {
			emitted[f] = true
		}
		for i, c := range st.callers {
			switch {
			case strings.HasPrefix(c.outcome, "ok:"):
				if c.gotOpid != c.opid {
					viol("C01/wrong-response", fmt.Sprintf("caller%d (op %s) completed with a frame for op %s", i, c.opid, c.gotOpid))
				}
				if !emitted[c.gotOpid+"/"+c.gotMark] {
					viol("C01/phantom-response", fmt.Sprintf("caller%d completed with a frame the peer never sent", i))
				}
			case c.outcome == "timeout":
				if c.retClock+c.start < c.start+int64(c.timeout) {
					viol("C13/early-timeout", fmt.Sprintf("caller%d reported TIMED_OUT at %dns, before its timeout %s", i, c.retClock, c.timeout))
				}
				if e.EarlyTimers == 0 && cfg.wstall < 0 && cfg.fstall < 0 && cfg.werr < 0 && c.retClock > int64((c.timeout+time.Millisecond-1)/time.Millisecond*time.Millisecond) {
					// (the timeout travels in whole milliseconds - documentation/protocol.md, _timeout -
					// so the deadline of a timeout that is not a whole number of them is the next one)
					viol("C13/late-timeout", fmt.Sprintf("caller%d reported TIMED_OUT %dns after the call although its timeout is %s, no timer fired early and nothing stalled", i, c.retClock, c.timeout))
				}
			case c.outcome == "sent" && cfg.oneway:
				// a oneway call returns once the request is written
			default:
				if cfg.werr >= 0 && strings.HasPrefix(c.outcome, "terr") {
					break // the injected write failure is reported to exactly the caller whose write failed
				}
				if cfg.malformed && strings.HasPrefix(c.outcome, "terr") {
					break // the transport gave up on a stream that carried a malformed frame
				}
				viol("C01/unexpected-outcome/"+c.outcome, fmt.Sprintf("caller%d: outcome %q is neither its own response nor a timeout", i, c.outcome))
			}
		}
		if reg, ok := st.tr.registry.(*fRegistryImpl); ok {
			if n := len(reg.channels); n != 0 {
				viol("C01/registry-leak", fmt.Sprintf("%d registrations left after all callers returned", n))
			}
		}
		if cfg.wstall < 0 && cfg.fstall < 0 && cfg.werr < 0 && !cfg.malformed {
			// the peer only ever sent well-formed frames and nothing failed
			if !st.tr.isOpen || !st.pipe.open {
				viol("C06/transport-closed-by-benign-input", "the client transport closed itself although the peer sent only well-formed frames and no fault was injected: no later frame can be delivered")
			}
			if e.EarlyTimers == 0 {
				// every timer fired at quiescence, i.e. after the reader had been given the chance to
				// hand over everything the peer had sent: a response emitted while its request was
				// registered and not yet timed out must have reached its caller
				for i, c := range st.callers {
					if c.deliverable != "" && !strings.HasPrefix(c.outcome, "ok:") {
						viol("C06/response-not-delivered", fmt.Sprintf("caller%d ended with %q although the peer sent its response (%s) while the request was registered and before its deadline", i, c.outcome, c.deliverable))
					}
				}
			}
		}
		if len(st.pipe.inbound) != 0 {
			viol("C06/unconsumed-input", fmt.Sprintf("%d inbound bytes never consumed although the transport is open and idle", len(st.pipe.inbound)))
		}
		return out, first
	}
	return body, check
}

func vfFirstLine(s string) string {
	if i := strings.Index(s, "\n"); i >= 0 {
		s = s[:i]
	}
	if i := strings.Index(s, "): "); i >= 0 {
		s = s[i+3:]
	}
	if len(s) > 80 {
		s = s[:80]
	}
	return s
}

func init() {
	vfRegister(&vfHarness{
		Name:  "mux",
		Props: []string{"C01", "C06", "C13"},
		Scenarios: func(tier string) []string {
			var out []string
			seqs := func(n, k int) []string {
				syms := []string{}
				for i := 1; i <= n; i++ {
					syms = append(syms, strconv.Itoa(i))
				}
				syms = append(syms, "u")
				cur := []string{""}
				for d := 0; d < k; d++ {
					var nx []string
					for _, p := range cur {
						for _, s := range syms {
							if p == "" {
								nx = append(nx, s)
							} else {
								nx = append(nx, p+"."+s)
							}
						}
					}
					cur = nx
				}
				return cur
			}
			for _, f := range seqs(2, 3) {
				out = append(out, "n=2,t=1/5,f="+f)
			}
			// peers that stop reading (a write or flush that never returns) or whose write fails, with
			// and without responses for the other caller
			for _, fault := range []string{"ws=0", "ws=1", "fs=0", "fs=1", "we=0", "we=1"} {
				for _, f := range []string{"", "1", "2", "1.2", "2.1"} {
					out = append(out, "n=2,t=1/5,"+fault+",f="+f)
				}
			}
			// oneway calls: healthy peer, stalled write / flush, failing write
			for _, fault := range []string{"", "ws=0,", "ws=1,", "fs=0,", "fs=1,", "we=0,"} {
				out = append(out, "n=2,t=1/5,call=oneway,"+fault+"f=")
			}
			out = append(out, "n=2,t=1/5,call=oneway,f=1.u")
			// a write that takes part of the timeout and then completes: silent peer, late peer
			for _, f := range []string{"", "1"} {
				out = append(out, "n=1,t=5,wd=0:3,f="+f, "n=2,t=5/5,wd=1:3,f="+f)
			}
			// frame bodies at and around the sizes at which buffers fill up
			for _, pad := range []int{4095, 4096, 4097, 8192} {
				for _, f := range []string{"1", "2.1"} {
					out = append(out, fmt.Sprintf("n=2,t=5/5,pad=%d,f=%s", pad, f))
				}
			}
			// a positive timeout of half a millisecond (silent peer, late peer, peer answering the other)
			out = append(out, "n=1,t=h,f=", "n=2,t=h/5,f=", "n=2,t=h/5,f=2", "n=2,t=h/5,call=oneway,ws=1,f=")
			// callers whose contexts are clones of one inbound context (of the library's own type, of a
			// third-party type)
			for _, f := range []string{"2.1", "1.2", "2"} {
				out = append(out, "n=2,t=5/5,ctx=clone,f="+f, "n=2,t=5/5,ctx=fclone,f="+f)
			}
			// op ids in flight that agree in their low 6 / 8 / 16 / 32 bits (whatever an index or a
			// narrower integer might keep of them)
			for _, gap := range []uint64{64, 256, 65536, 1 << 32} {
				for _, f := range []string{"1.1.2", "2.2.1", "1.2.1", "2.1.2"} {
					if tier != "thorough" && gap > 64 && (f == "1.2.1" || f == "2.1.2") {
						continue
					}
					out = append(out, fmt.Sprintf("n=2,t=5/5,gap=%d,f=%s", gap, f))
				}
			}
			// the timeout given through the request header instead of SetTimeout
			for _, f := range []string{"", "2", "2.1"} {
				out = append(out, "n=2,t=1/5,tvia=header,f="+f)
			}
			// an op id beyond 64 bits that is congruent to a caller's own
			for _, f := range []string{"w1", "w1.1", "w2.1.2", "1.w2.2", "w2.w1"} {
				out = append(out, "n=2,t=1/5,f="+f)
			}
			// bursts of frames nobody waits for (unknown op ids, duplicates) in front of a wanted response
			many := func(tok string, n int) string { return strings.TrimSuffix(strings.Repeat(tok+".", n), ".") }
			for _, f := range []string{many("u", 12) + ".2", many("u", 16) + ".2.1", "2." + many("2", 12) + ".1", many("u", 6) + "." + many("1", 7) + ".2"} {
				out = append(out, "n=2,t=5/5,burst=1,f="+f)
			}
			if tier == "thorough" {
				for _, f := range seqs(2, 4) {
					out = append(out, "n=2,t=5/5,f="+f)
				}
				for _, f := range seqs(3, 3) {
					out = append(out, "n=3,t=1/2/3,f="+f)
				}
			}
			return out
		},
		Make: vfMuxMake,
		Bound: func(tier, scn string) (int, bool) {
			if tier == "thorough" {
				return 3, true
			}
			return 2, true
		},
	})
}

// vfOpKey is the registry key of an op id header value.
func vfOpKey(opid string) uint64 {
	v, _ := strconv.ParseUint(opid, 10, 64)
	return v
}

// vfDecoCtx is a third-party FContext: a decorator around the library's own.
type vfDecoCtx struct{ FContext }
