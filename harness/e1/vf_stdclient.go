package frugal

// Harness "stdclient" (C03): several goroutines share ONE FStandardClient (what a generated client
// wraps) over a transport that takes a while to put a request on the wire, and a real FBaseProcessor
// behind it. Between the moment the client has encoded a request and the moment the transport has
// consumed the bytes, the other callers run. Oracles: every handler is invoked exactly once per call
// with that call's arguments, every caller observes the result computed from its own arguments, a
// oneway call is never answered.

import (
	"bytes"
	"context"
	"fmt"
	"sort"
	"strings"

	"github.com/apache/thrift/lib/go/thrift"

	"verif/engine/vsched"
)

type vfPair struct{ a, b int32 }

func (s *vfPair) Write(ctx context.Context, p thrift.TProtocol) error {
	if err := p.WriteStructBegin(ctx, "pair"); err != nil {
		return err
	}
	for i, v := range []int32{s.a, s.b} {
		if err := p.WriteFieldBegin(ctx, "v", thrift.I32, int16(i+1)); err != nil {
			return err
		}
		if err := p.WriteI32(ctx, v); err != nil {
			return err
		}
		if err := p.WriteFieldEnd(ctx); err != nil {
			return err
		}
	}
	if err := p.WriteFieldStop(ctx); err != nil {
		return err
	}
	return p.WriteStructEnd(ctx)
}

func (s *vfPair) Read(ctx context.Context, p thrift.TProtocol) error {
	if _, err := p.ReadStructBegin(ctx); err != nil {
		return err
	}
	for {
		_, ft, id, err := p.ReadFieldBegin(ctx)
		if err != nil {
			return err
		}
		if ft == thrift.STOP {
			break
		}
		if ft == thrift.I32 && (id == 1 || id == 2) {
			v, err := p.ReadI32(ctx)
			if err != nil {
				return err
			}
			if id == 1 {
				s.a = v
			} else {
				s.b = v
			}
		} else if err := p.Skip(ctx, ft); err != nil {
			return err
		}
		if err := p.ReadFieldEnd(ctx); err != nil {
			return err
		}
	}
	return p.ReadStructEnd(ctx)
}
func (s *vfPair) String() string { return fmt.Sprintf("pair(%d,%d)", s.a, s.b) }

func vfPairResult(method string, a, b int32) int32 {
	switch method {
	case "add":
		return a + b
	case "mul":
		return a * b
	}
	return -1
}

type vfPairFn struct {
	*FBaseProcessorFunction
	method string
	oneway bool
	st     *vfSCState
}

func (f *vfPairFn) Process(fctx FContext, in, out *FProtocol) error {
	ctx := context.Background()
	args := &vfPair{}
	if err := args.Read(ctx, in); err != nil {
		return err
	}
	if err := in.ReadMessageEnd(ctx); err != nil {
		return err
	}
	f.st.handled = append(f.st.handled, fmt.Sprintf("%s(%d,%d)", f.method, args.a, args.b))
	if f.oneway {
		return nil
	}
	return f.SendReply(fctx, out, f.method, &vfPair{a: vfPairResult(f.method, args.a, args.b), b: 0})
}

// vfLoopTransport serves a request in-process through a processor, after a visible wait.
type vfLoopTransport struct {
	proc    FProcessor
	pf      *FProtocolFactory
	st      *vfSCState
	replies int
	shared  *vsched.Obj
}

func (t *vfLoopTransport) SetMonitor(FTransportMonitor) {}
func (t *vfLoopTransport) Closed() <-chan error         { return nil }
func (t *vfLoopTransport) Open() error                  { return nil }
func (t *vfLoopTransport) IsOpen() bool                 { return true }
func (t *vfLoopTransport) Close() error                 { return nil }
func (t *vfLoopTransport) GetRequestSizeLimit() uint    { return 0 }

func (t *vfLoopTransport) serve(payload []byte) ([]byte, error) {
	vsched.Yield() // the connection / write lock is not ours yet
	t.shared.Write() // callers contend for the connection: their orders are not equivalent
	vsched.Yield()
	t.shared.Write()
	if len(payload) < 4 {
		return nil, fmt.Errorf("short request")
	}
	n := int(uint32(payload[0])<<24 | uint32(payload[1])<<16 | uint32(payload[2])<<8 | uint32(payload[3]))
	if n != len(payload)-4 {
		t.st.wire = append(t.st.wire, fmt.Sprintf("frame prefix %d for %d bytes", n, len(payload)-4))
		return nil, thrift.NewTTransportException(thrift.UNKNOWN_TRANSPORT_EXCEPTION, "frame length prefix does not match the payload")
	}
	body := append([]byte{}, payload[4:]...)
	vsched.Yield() // on the wire
	in := &thrift.TMemoryBuffer{Buffer: bytes.NewBuffer(body)}
	out := NewTMemoryOutputBuffer(0)
	if err := t.proc.Process(t.pf.GetProtocol(in), t.pf.GetProtocol(out)); err != nil {
		return nil, err
	}
	return out.Bytes(), nil
}

func (t *vfLoopTransport) Oneway(ctx FContext, payload []byte) error {
	r, err := t.serve(payload)
	if err == nil && len(r) > 4 {
		t.replies++
		t.st.wire = append(t.st.wire, "a oneway call was answered")
	}
	return err
}

func (t *vfLoopTransport) Request(ctx FContext, payload []byte) (thrift.TTransport, error) {
	r, err := t.serve(payload)
	if err != nil {
		return nil, err
	}
	if len(r) <= 4 {
		return nil, thrift.NewTTransportException(thrift.END_OF_FILE, "no reply")
	}
	return &thrift.TMemoryBuffer{Buffer: bytes.NewBuffer(r[4:])}, nil
}

type vfSCCaller struct {
	method  string
	a, b    int32
	done    bool
	outcome string
}

type vfSCState struct {
	callers []*vfSCCaller
	handled []string
	wire    []string
}

func vfStdClientMake(scn string) (func(), func(*vsched.Exec) (string, *vsched.Violation)) {
	// scn: "p=binary,m=add/mul/note"
	proto, methods := "binary", []string{"add", "add"}
	for _, kv := range strings.Split(scn, ",") {
		if strings.HasPrefix(kv, "p=") {
			proto = kv[2:]
		}
		if strings.HasPrefix(kv, "m=") {
			methods = strings.Split(kv[2:], "/")
		}
	}
	var st *vfSCState
	body := func() {
		vfResetGlobals()
		st = &vfSCState{}
		pf := vbProtoFactory(proto)
		proc := NewFBaseProcessor()
		for _, m := range []string{"add", "mul", "note"} {
			proc.AddToProcessorMap(m, &vfPairFn{FBaseProcessorFunction: NewFBaseProcessorFunction(proc.GetWriteMutex(), nil), method: m, oneway: m == "note", st: st})
		}
		tr := &vfLoopTransport{proc: proc, pf: pf, st: st, shared: vsched.NewObj("connection")}
		cl := NewFStandardClient(NewFServiceProvider(tr, pf))
		for i, m := range methods {
			c := &vfSCCaller{method: m, a: int32(3 + 10*i), b: int32(4 + 100*i)}
			st.callers = append(st.callers, c)
			i := i
			vsched.GoNamed(fmt.Sprintf("caller%d", i), true, func() {
				fctx := NewFContext(fmt.Sprintf("cid%d", i))
				var err error
				res := &vfPair{a: -7}
				if c.method == "note" {
					err = cl.Oneway(fctx, c.method, &vfPair{a: c.a, b: c.b})
				} else {
					err = cl.Call(fctx, c.method, &vfPair{a: c.a, b: c.b}, res)
				}
				switch {
				case err != nil:
					c.outcome = "error: " + vfFirstLine(err.Error())
				case c.method == "note":
					c.outcome = "sent"
				default:
					c.outcome = fmt.Sprintf("%d", res.a)
				}
				c.done = true
			})
		}
	}
	check := func(e *vsched.Exec) (string, *vsched.Violation) {
		var outs, want []string
		for _, c := range st.callers {
			o := c.outcome
			if !c.done {
				o = "blocked"
			}
			outs = append(outs, c.method+"->"+o)
			want = append(want, fmt.Sprintf("%s(%d,%d)", c.method, c.a, c.b))
		}
		got := append([]string{}, st.handled...)
		sort.Strings(got)
		sort.Strings(want)
		out := strings.Join(outs, ",") + " handled=" + strings.Join(got, " ")
		var first *vsched.Violation
		viol := func(key, msg string) {
			if first == nil && vfWants(key) {
				first = &vsched.Violation{Key: key, Msg: msg + " | " + scn + " -> " + out}
			}
		}
		if e.Status == vsched.Panicked {
			viol("C03/shared-client/panic/"+vfFirstLine(e.PanicS), e.PanicS)
			return out, first
		}
		if e.Status == vsched.Horizon {
			viol("C03/shared-client/livelock", "step horizon exceeded")
			return out, first
		}
		for _, b := range e.Blocked() {
			if b.FG {
				viol("C03/shared-client/caller-never-returns/"+b.Kind.String()+"@"+b.Where, fmt.Sprintf("%s never returns (parked in %s at %s)", b.Thread, b.Kind, b.Where))
			}
		}
		if first != nil {
			return out, first
		}
		for i, c := range st.callers {
			switch {
			case strings.HasPrefix(c.outcome, "error: "):
				viol("C03/shared-client/call-failed/"+proto, fmt.Sprintf("caller%d %s(%d,%d) on a client shared with the other callers failed although no handler failed: %s", i, c.method, c.a, c.b, c.outcome))
			case c.method != "note" && c.outcome != fmt.Sprint(vfPairResult(c.method, c.a, c.b)):
				viol("C03/shared-client/wrong-result/"+proto, fmt.Sprintf("caller%d %s(%d,%d) on a client shared with the other callers observed %s, the handler's value for its arguments is %d", i, c.method, c.a, c.b, c.outcome, vfPairResult(c.method, c.a, c.b)))
			}
		}
		if strings.Join(got, " ") != strings.Join(want, " ") {
			viol("C03/shared-client/handler-invocations/"+proto, fmt.Sprintf("calls made %v, handler invocations %v", want, got))
		}
		if len(st.wire) > 0 {
			viol("C03/shared-client/wire/"+proto, strings.Join(st.wire, "; "))
		}
		return out, first
	}
	return body, check
}

func init() {
	vfRegister(&vfHarness{
		Name:  "stdclient",
		Props: []string{"C03"},
		Scenarios: func(tier string) []string {
			out := []string{"p=binary,m=add/add", "p=binary,m=add/mul", "p=binary,m=add/note", "p=json,m=add/mul", "p=compact,m=mul/note"}
			if tier == "thorough" {
				out = append(out, "p=binary,m=add/mul/note", "p=json,m=add/add/mul", "p=compact,m=add/mul/add", "p=json,m=note/note/add")
			}
			return out
		},
		Make: vfStdClientMake,
		Bound: func(tier, scn string) (int, bool) {
			if tier == "thorough" {
				return 3, true
			}
			return 2, true
		},
	})
}
