package frugal

// Harness "life": the real fAdapterTransport + monitorRunner + BaseFTransportMonitor over vfPipe.
// Each scenario fixes a history of sessions (inbound bytes cut at an offset and ended by a fault
// kind), the answers of the underlying Open for every reopen attempt, the monitor policy and a user
// script; the explorer enumerates every interleaving of user, read loop, monitor and timers.
// Serves C15.

import (
	"errors"
	"fmt"
	"io"
	"strconv"
	"strings"
	"time"

	"github.com/apache/thrift/lib/go/thrift"

	"verif/engine/vsched"
)

type vfSess struct {
	cut  int    // bytes of the two-frame stream delivered before the fault
	kind string // eof | err | notopen | none
}

type vfLifeCfg struct {
	max   uint
	sess  []vfSess
	opens string // answers of pipe.Open for reopen attempts: k = ok, e = error
	user  string // script over O C I R
	wfail int    // index of the pipe write that fails (-1: none)
	cfail int    // the first cfail calls of the underlying transport's Close fail (and leave it open)
	nomon bool
}

func vfParseLife(s string) vfLifeCfg {
	c := vfLifeCfg{wfail: -1}
	for _, kv := range strings.Split(s, ",") {
		p := strings.SplitN(kv, "=", 2)
		if len(p) != 2 {
			continue
		}
		switch p[0] {
		case "m":
			if p[1] == "none" {
				c.nomon = true
			} else {
				v, _ := strconv.Atoi(p[1])
				c.max = uint(v)
			}
		case "s":
			for _, one := range strings.Split(p[1], "+") {
				q := strings.SplitN(one, ":", 2)
				cut, _ := strconv.Atoi(q[0])
				c.sess = append(c.sess, vfSess{cut: cut, kind: q[1]})
			}
		case "o":
			c.opens = p[1]
		case "u":
			c.user = p[1]
		case "w":
			c.wfail, _ = strconv.Atoi(p[1])
		case "cf":
			c.cfail, _ = strconv.Atoi(p[1])
		}
	}
	return c
}

type vfLifeState struct {
	cfg       vfLifeCfg
	pipe      *vfPipe
	tr        *fAdapterTransport
	log       []string // ordered observations
	monLog    []string
	sessions  int // successful opens of the pipe
	delivered []bool
	faulted   []bool   // the fault of session i was handed to the reader
	causes    []string // per session: "", "nil", "err"
	chClosed  []bool
	userOps   []string
	maxWait   time.Duration
	sleeps    []time.Duration
	monTid    int
	errInj    error
	watch     func()
	watched   map[<-chan error]bool
	attached  map[int]bool // sessions whose Closed() channel the harness obtained in time
}

type vfMon struct {
	base *BaseFTransportMonitor
	st   *vfLifeState
}

func (m *vfMon) OnClosedCleanly() {
	m.st.monLog = append(m.st.monLog, "clean")
	m.base.OnClosedCleanly()
}
func (m *vfMon) OnClosedUncleanly(cause error) (bool, time.Duration) {
	r, w := m.base.OnClosedUncleanly(cause)
	m.st.monTid = vsched.Current().CurThread().ID
	m.st.monLog = append(m.st.monLog, fmt.Sprintf("unclean(%v)", cause != nil))
	return r, w
}
func (m *vfMon) OnReopenFailed(prev uint, wait time.Duration) (bool, time.Duration) {
	r, w := m.base.OnReopenFailed(prev, wait)
	m.st.monLog = append(m.st.monLog, fmt.Sprintf("failed(%d)", prev))
	if w > m.st.maxWait && r {
		m.st.monLog = append(m.st.monLog, fmt.Sprintf("WAIT-ABOVE-MAX(%s)", w))
	}
	return r, w
}
func (m *vfMon) OnReopenSucceeded() {
	m.st.monLog = append(m.st.monLog, "succeeded")
	m.base.OnReopenSucceeded()
	if m.st.watch != nil {
		m.st.watch()
	}
}

var vfLifeStream = append(vfFrame(map[string]string{"_opid": "77"}, []byte("a")), vfFrame(map[string]string{"_opid": "78"}, []byte("b"))...)

// vfPolicyGrid enumerates the stock monitor policy as the pure function it is: every configuration
// of a small grid (InitialWait <= MaxWait, both from {0, 1ns, 1ms, 3ms, 1s}, 0-4 attempts) is driven
// through the callback protocol of the runner with every reopen failing. Oracle: exactly
// MaxReopenAttempts attempts, no negative wait, no wait above MaxWait, first wait InitialWait, every
// later wait min(2 x previous, MaxWait).
func vfPolicyGrid() (func(), func(*vsched.Exec) (string, *vsched.Violation)) {
	var bad []string
	n := 0
	body := func() {
		bad, n = nil, 0
		ds := []time.Duration{0, 1, time.Millisecond, 3 * time.Millisecond, time.Second}
		for _, iw := range ds {
			for _, mw := range ds {
				if iw > mw {
					continue
				}
				for att := uint(0); att <= 4; att++ {
					n++
					m := &BaseFTransportMonitor{MaxReopenAttempts: att, InitialWait: iw, MaxWait: mw}
					desc := fmt.Sprintf("MaxReopenAttempts=%d InitialWait=%s MaxWait=%s", att, iw, mw)
					again, w := m.OnClosedUncleanly(errors.New("x"))
					attempts := uint(0)
					want := iw
					for again && attempts < 20 {
						if w < 0 || w > mw {
							bad = append(bad, fmt.Sprintf("%s: wait %d is %s", desc, attempts, w))
						} else if w != want {
							bad = append(bad, fmt.Sprintf("%s: wait %d is %s, doubling from InitialWait clamped to MaxWait gives %s", desc, attempts, w, want))
						}
						attempts++
						prev := w
						again, w = m.OnReopenFailed(attempts, prev)
						want = 2 * prev
						if want > mw {
							want = mw
						}
					}
					if attempts != att {
						bad = append(bad, fmt.Sprintf("%s: %d attempts allowed", desc, attempts))
					}
				}
			}
		}
	}
	check := func(e *vsched.Exec) (string, *vsched.Violation) {
		out := fmt.Sprintf("policies=%d bad=%d", n, len(bad))
		if e.Status == vsched.Panicked {
			return out, &vsched.Violation{Key: "C15/panic/" + vfFirstLine(e.PanicS), Msg: e.PanicS}
		}
		if len(bad) > 0 {
			return out, &vsched.Violation{Key: "C15/policy-waits-or-attempts", Msg: strings.Join(bad[:1], "; ") + fmt.Sprintf(" (%d of %d policies)", len(bad), n)}
		}
		return out, nil
	}
	return body, check
}

func vfLifeMake(scn string) (func(), func(*vsched.Exec) (string, *vsched.Violation)) {
	if scn == "policy-grid" {
		return vfPolicyGrid()
	}
	cfg := vfParseLife(scn)
	var st *vfLifeState
	body := func() {
		vfResetGlobals()
		st = &vfLifeState{cfg: cfg, maxWait: 2 * time.Millisecond, monTid: -1}
		st.errInj = errors.New("injected stream failure")
		p := vfNewPipe()
		st.pipe = p
		tr := NewAdapterTransport(p).(*fAdapterTransport)
		st.tr = tr
		st.watched = map[<-chan error]bool{}
		st.attached = map[int]bool{}
		watch := func() {
			ch := tr.Closed()
			if ch == nil || st.watched[ch] || vsched.Killed() {
				return
			}
			st.watched[ch] = true
			idx := st.sessions - 1
			st.attached[idx] = true
			vsched.GoNamed(fmt.Sprintf("watch%d", idx), false, func() {
				v, ok := vsched.Recv2(ch)
				if vsched.Killed() {
					return
				}
				for len(st.causes) <= idx {
					st.causes = append(st.causes, "")
					st.chClosed = append(st.chClosed, false)
				}
				switch {
				case !ok:
					st.causes[idx] = "closed-without-value"
				case v == nil:
					st.causes[idx] = "nil"
				default:
					st.causes[idx] = "err"
				}
				vsched.Note(fmt.Sprintf("session%d cause=%s", idx, st.causes[idx]))
				if ok {
					_, ok2 := vsched.Recv2(ch)
					if vsched.Killed() {
						return
					}
					if !ok2 {
						st.chClosed[idx] = true
					} else {
						st.causes[idx] = "second-value"
					}
				}
			})
		}
		reopenIdx := 0
		p.onOpen = func(p *vfPipe) error {
			if p.opens == 1 {
				return nil
			}
			ans := byte('k')
			if reopenIdx < len(cfg.opens) {
				ans = cfg.opens[reopenIdx]
			}
			reopenIdx++
			if ans == 'e' {
				return thrift.NewTTransportException(thrift.UNKNOWN_TRANSPORT_EXCEPTION, "injected open failure")
			}
			return nil
		}
		p.onClose = func(p *vfPipe) error {
			if p.closes <= cfg.cfail {
				vsched.Note("underlying Close fails")
				return thrift.NewTTransportException(thrift.UNKNOWN_TRANSPORT_EXCEPTION, "injected close failure")
			}
			return nil
		}
		nwrites := 0
		p.onWrite = func(p *vfPipe, b []byte) error {
			nwrites++
			if nwrites-1 == cfg.wfail {
				return thrift.NewTTransportException(thrift.UNKNOWN_TRANSPORT_EXCEPTION, "injected write failure")
			}
			return nil
		}
		cur := -1 // session index the pipe currently serves
		p.next = func(p *vfPipe) bool {
			// called with no buffered input: supply this session's bytes, then its fault
			if cur < 0 || cur >= len(cfg.sess) {
				return false
			}
			s := cfg.sess[cur]
			if !st.delivered[cur] {
				st.delivered[cur] = true
				if s.cut > 0 {
					p.inbound = append(p.inbound, vfLifeStream[:s.cut]...)
					return true
				}
			}
			if !st.faulted[cur] && s.kind != "none" {
				st.faulted[cur] = true
				switch s.kind {
				case "eof":
					p.readErr = thrift.NewTTransportExceptionFromError(io.EOF)
				case "err":
					p.readErr = thrift.NewTTransportExceptionFromError(st.errInj)
				case "notopen":
					p.readErr = thrift.NewTTransportException(thrift.NOT_OPEN, "peer reset")
				default:
					return false
				}
				vsched.Note(fmt.Sprintf("session%d stream ends (%s after %d bytes)", cur, s.kind, s.cut))
				return true
			}
			return false
		}
		origOpen := p.onOpen
		p.onOpen = func(p *vfPipe) error {
			if err := origOpen(p); err != nil {
				return err
			}
			if !p.open {
				cur = st.sessions
				st.sessions++
				st.delivered = append(st.delivered, false)
				st.faulted = append(st.faulted, false)
			}
			return nil
		}
		if !cfg.nomon {
			tr.SetMonitor(&vfMon{base: &BaseFTransportMonitor{MaxReopenAttempts: cfg.max, InitialWait: time.Millisecond, MaxWait: st.maxWait}, st: st})
		}
		if err := tr.Open(); err != nil {
			panic(err)
		}
		st.watch = watch
		watch()
		vsched.GoNamed("user", true, func() {
			for _, op := range cfg.user {
				var r string
				switch op {
				case 'O':
					err := tr.Open()
					r = "O:" + vfErrName(err)
					if err == nil {
						watch()
					}
				case 'C':
					r = "C:" + vfErrName(tr.Close())
				case 'I':
					r = fmt.Sprintf("I:%v", tr.IsOpen())
				case 'R':
					ctx := NewFContext("u")
					ctx.(*FContextImpl).mu.SetQuiet()
					ctx.SetTimeout(time.Millisecond)
					_, err := tr.Request(ctx, []byte{0, 0, 0, 0, 1})
					r = "R:" + vfErrName(err)
				case 'W':
					// wait for virtual time to pass (lets monitor timers fire first)
					vsched.Sleep(int64(10 * time.Millisecond))
					r = "W"
				}
				if vsched.Killed() {
					return
				}
				st.userOps = append(st.userOps, r)
				vsched.Note("user " + r)
			}
		})
	}
	check := func(e *vsched.Exec) (string, *vsched.Violation) {
		out := fmt.Sprintf("user=%v mon=%v causes=%v sessions=%d open=%v", st.userOps, st.monLog, st.causes, st.sessions, st.tr.isOpen)
		var first *vsched.Violation
		viol := func(key, msg string) {
			if first == nil && vfWants(key) {
				first = &vsched.Violation{Key: key, Msg: msg + " | " + out}
			}
		}
		if e.Status == vsched.Panicked {
			viol("C15/panic/"+vfFirstLine(e.PanicS), e.PanicS)
			return out, first
		}
		if e.Status == vsched.Horizon {
			viol("C15/livelock", "step horizon exceeded")
			return out, first
		}
		bl := e.Blocked()
		readers := 0
		for _, b := range bl {
			if strings.Contains(b.Where, "vfPipe).Read") {
				readers++
			}
			if b.Kind == vsched.KSend || b.Kind == vsched.KLock || b.Kind == vsched.KRLock {
				viol("C15/stuck/"+b.Kind.String()+"@"+b.Where, fmt.Sprintf("thread %q is parked forever in %s at %s (Open/Close/IsOpen deadlock)", b.Thread, b.Kind, b.Where))
			}
			if b.FG {
				viol("C15/user-call-never-returns/"+b.Kind.String()+"@"+b.Where, fmt.Sprintf("user call never returns: parked in %s at %s", b.Kind, b.Where))
			}
		}
		if first != nil {
			return out, first
		}
		// I2: an open transport has a live reader; a closed one has closed its stream
		if st.tr.isOpen && st.pipe.open && readers == 0 {
			viol("C15/open-without-reader", "transport reports open but its read loop is gone: a stream failure was swallowed")
		}
		if st.tr.isOpen && !st.pipe.open {
			// IsOpen() reports false here (it also asks the underlying transport), acceptable
		}
		if !st.tr.isOpen && st.pipe.open {
			viol("C15/closed-but-stream-open", "transport closed but the underlying stream was left open")
		}
		// I3 / I4: one cause per ended session, nil only for clean closes
		userClosed := 0
		for _, u := range st.userOps {
			if u == "C:nil" {
				userClosed++
			}
		}
		for i := 0; i < st.sessions && i < len(cfg.sess)+1; i++ {
			var s vfSess
			if i < len(cfg.sess) {
				s = cfg.sess[i]
			} else {
				s = vfSess{kind: "none"}
			}
			ended := i < len(st.faulted) && st.faulted[i]
			cause := ""
			if i < len(st.causes) {
				cause = st.causes[i]
			}
			if s.kind == "none" && s.cut == len(vfLifeStream) && userClosed == 0 && !strings.ContainsAny(cfg.user, "CR") && cfg.wfail < 0 {
				// a healthy session: the peer sent two complete frames and then stayed silent
				if cause != "" {
					viol("C15/healthy-session-closed", fmt.Sprintf("session %d received a well-formed stream and no fault, yet a close cause (%s) was published: state of an earlier, failed session leaked into it", i, cause))
				} else if i == st.sessions-1 && (!st.tr.isOpen || !st.pipe.open) {
					viol("C15/healthy-session-closed", fmt.Sprintf("session %d received a well-formed stream and no fault, yet the transport is closed", i))
				}
			}
			if cause == "second-value" || cause == "closed-without-value" {
				viol("C15/closed-channel-protocol/"+cause, fmt.Sprintf("session %d: Closed() must yield exactly one value and then be closed, got %s", i, cause))
			}
			if ended && cause == "" && i < st.sessions-1 && st.attached[i] {
				viol("C15/no-close-cause", fmt.Sprintf("session %d ended (%s) and a later session was opened, but its Closed() channel never yielded a cause", i, s.kind))
			}
			if ended && cause == "" && i == st.sessions-1 && userClosed == 0 && st.attached[i] {
				viol("C15/failure-undetected", fmt.Sprintf("session %d: the stream failed (%s after %d bytes) but no close cause was published", i, s.kind, s.cut))
			}
			if cause != "" && cause != "second-value" && i < len(st.chClosed) && !st.chClosed[i] {
				viol("C15/closed-channel-not-closed", fmt.Sprintf("session %d: Closed() yielded a value but was not closed afterwards", i))
			}
			if ended && cause == "nil" && (s.kind == "err" || s.kind == "notopen") && userClosed == 0 {
				viol("C15/nil-cause-for-unclean-close", fmt.Sprintf("session %d failed with %s but the published cause is nil", i, s.kind))
			}
			if ended && cause == "err" && s.kind == "eof" && (s.cut == 0 || s.cut == len(vfLifeStream)/2 || s.cut == len(vfLifeStream)) && userClosed == 0 {
				// documented classification: end of stream at a frame boundary is a clean close
				viol("C15/error-cause-for-clean-eof", fmt.Sprintf("session %d ended with EOF at a frame boundary but the cause is an error", i))
			}
		}
		// I5: monitor callback sequence against a reference runner (only when the user does not
		// drive the lifecycle itself)
		if !cfg.nomon && !strings.ContainsAny(cfg.user, "OC") {
			want, decided := vfRefMonitor(cfg, st)
			got := strings.Join(st.monLog, " ")
			if decided && got != want {
				viol("C15/monitor-sequence", fmt.Sprintf("monitor callbacks %q, reference runner expects %q", got, want))
			}
		}
		for _, m := range st.monLog {
			if strings.HasPrefix(m, "WAIT-ABOVE-MAX") {
				viol("C15/wait-above-max", "monitor policy returned a wait above MaxWait: "+m)
			}
		}
		if st.monTid >= 0 {
			for _, tm := range e.TimersOwnedBy(st.monTid) {
				_ = tm
			}
		}
		// sequential reference for user-driven lifecycle without monitor and without faults
		if cfg.nomon && len(cfg.sess) == 0 {
			open := true
			for _, u := range st.userOps {
				exp := ""
				switch u[0] {
				case 'O':
					if open {
						exp = "O:ALREADY_OPEN"
					} else {
						exp = "O:nil"
						open = true
					}
				case 'C':
					if open {
						exp = "C:nil"
						open = false
					} else {
						exp = "C:NOT_OPEN"
					}
				case 'I':
					exp = fmt.Sprintf("I:%v", open)
				default:
					continue
				}
				if u != exp {
					viol("C15/lifecycle-result", fmt.Sprintf("user op returned %s, sequential reference expects %s", u, exp))
					break
				}
			}
		}
		return out, first
	}
	return body, check
}

// vfRefMonitor replays the documented monitor protocol over the session outcomes: the cause the
// harness observed on Closed(), or, when it attached too late to observe it, the outcome the
// scenario's fault kind determines (ambiguous kinds make the reference undecided).
func vfRefMonitor(cfg vfLifeCfg, st *vfLifeState) (string, bool) {
	var out []string
	oi := 0
	full := len(vfLifeStream)
	for i := 0; i < st.sessions; i++ {
		c := ""
		if i < len(st.causes) {
			c = st.causes[i]
		}
		if c == "" {
			if i >= len(st.faulted) || !st.faulted[i] || i >= len(cfg.sess) {
				break
			}
			s := cfg.sess[i]
			switch {
			case s.kind == "err" || s.kind == "notopen":
				c = "err"
			case s.kind == "eof" && (s.cut == 0 || s.cut == full/2 || s.cut == full):
				c = "nil"
			default:
				return "", false
			}
		}
		if c == "nil" {
			out = append(out, "clean")
			return strings.Join(out, " "), true
		}
		out = append(out, "unclean(true)")
		if cfg.max == 0 {
			return strings.Join(out, " "), true
		}
		prev := uint(0)
		ok := false
		for {
			ans := byte('k')
			if oi < len(cfg.opens) {
				ans = cfg.opens[oi]
			}
			oi++
			if ans == 'k' {
				out = append(out, "succeeded")
				ok = true
				break
			}
			prev++
			out = append(out, fmt.Sprintf("failed(%d)", prev))
			if prev >= cfg.max {
				break
			}
		}
		if !ok {
			return strings.Join(out, " "), true
		}
	}
	return strings.Join(out, " "), true
}

func vfErrName(err error) string {
	if err == nil {
		return "nil"
	}
	if te, ok := err.(thrift.TTransportException); ok {
		switch te.TypeId() {
		case TRANSPORT_EXCEPTION_ALREADY_OPEN:
			return "ALREADY_OPEN"
		case TRANSPORT_EXCEPTION_NOT_OPEN:
			return "NOT_OPEN"
		case TRANSPORT_EXCEPTION_TIMED_OUT:
			return "TIMED_OUT"
		case TRANSPORT_EXCEPTION_END_OF_FILE:
			return "EOF"
		}
		return fmt.Sprintf("TTransport(%d)", te.TypeId())
	}
	return "error"
}

func init() {
	vfRegister(&vfHarness{
		Name:  "life",
		Props: []string{"C15"},
		Scenarios: func(tier string) []string {
			var out []string
			out = append(out, "policy-grid")
			full := len(vfLifeStream)
			half := full / 2
			kinds := []string{"eof", "err", "notopen"}
			// (a) one session, every cut offset x fault kind, monitor that may reopen once
			for cut := 0; cut <= full; cut++ {
				for _, k := range kinds {
					out = append(out, fmt.Sprintf("m=1,s=%d:%s,o=k,u=I", cut, k))
				}
			}
			// (b) two and three failing sessions in a row, representative cut classes
			cuts := []int{0, 2, 10, half, half + 2, full}
			if tier != "thorough" {
				cuts = []int{0, 2, 10, half}
			}
			for _, c1 := range cuts {
				for _, k1 := range kinds {
					for _, c2 := range cuts {
						for _, k2 := range kinds {
							out = append(out, fmt.Sprintf("m=2,s=%d:%s+%d:%s,o=k,u=WI", c1, k1, c2, k2))
						}
					}
				}
			}
			// (b2) a failing session (every cut offset) followed by a healthy one after the reopen
			for cut := 0; cut <= full; cut++ {
				for _, k := range []string{"eof", "err"} {
					if tier != "thorough" && k == "eof" && cut%2 == 1 {
						continue
					}
					out = append(out, fmt.Sprintf("m=1,s=%d:%s+%d:none,o=k,u=WI", cut, k, full))
				}
			}
			// (b3) several outages in a row, each with failed reopen attempts before the one that works: the
			// attempt budget is per outage, and a healthy session follows
			for _, mo := range []string{"2:ekek", "2:ekekek", "3:eekeek", "3:ekeekek", "2:kek"} {
				q := strings.SplitN(mo, ":", 2)
				nOut := strings.Count(q[1], "k")
				sess := strings.Repeat("10:err+", nOut) + fmt.Sprintf("%d:none", full)
				out = append(out, fmt.Sprintf("m=%s,s=%s,o=%s,u=WWI", q[0], sess, q[1]))
			}
			// (c) reopen attempts that fail, all policies
			for _, m := range []int{0, 1, 2} {
				for _, o := range []string{"k", "ek", "eek", "eee"} {
					out = append(out, fmt.Sprintf("m=%d,s=10:err+0:err,o=%s,u=WI", m, o))
				}
			}
			// (d) user lifecycle scripts racing a failure, with and without monitor
			scripts := []string{"C", "CC", "CO", "OC", "IC", "COC", "CI", "WC", "WCO", "WCC", "R", "RC", "CR"}
			if tier == "thorough" {
				for _, a := range "OCI" {
					for _, b := range "OCI" {
						for _, c := range "OCI" {
							for _, d := range "OCIW" {
								scripts = append(scripts, string([]rune{a, b, c, d}))
							}
						}
					}
				}
			}
			for _, u := range scripts {
				for _, s := range []string{"0:eof", "10:err", "0:none"} {
					out = append(out, fmt.Sprintf("m=1,s=%s,o=k,u=%s", s, u))
					out = append(out, fmt.Sprintf("m=1,s=%s+0:eof,o=k,u=%s", s, u))
				}
			}
			// (e) sequential lifecycle reference without monitor or faults: every script <= 3 (4)
			alpha := "OCI"
			var gen func(prefix string, n int)
			gen = func(prefix string, n int) {
				if prefix != "" {
					out = append(out, "m=none,u="+prefix)
				}
				if n == 0 {
					return
				}
				for _, a := range alpha {
					gen(prefix+string(a), n-1)
				}
			}
			if tier == "thorough" {
				gen("", 4)
			} else {
				gen("", 3)
			}
			// (g) the underlying transport's Close fails once (and leaves the stream open) under a user's
			// Close: whatever the transport answers, it must stay consistent — open with a live reader,
			// or closed with its stream closed, its cause published and its monitor told
			for _, u := range []string{"C", "CC", "CI", "CO", "CCO", "CCC", "WC", "WCC"} {
				out = append(out, fmt.Sprintf("m=1,s=0:none,o=k,u=%s,cf=1", u))
			}
			// (f) write failures at every operation index
			for w := 0; w < 3; w++ {
				out = append(out, fmt.Sprintf("m=1,s=0:none,u=RR,w=%d", w))
			}
			return out
		},
		Make: vfLifeMake,
		Bound: func(tier, scn string) (int, bool) {
			if tier == "thorough" {
				return 3, true
			}
			return 2, true
		},
	})
}
