package frugal

// E3 "bytex": bounded-exhaustive byte strings at every synchronous receiving entry point (C05).
// Every input is executed inside its own vsched execution (single default schedule), so a call that
// parks forever is a detected end state (foreground thread blocked at quiescence), not a timeout.

import (
	"bytes"
	"context"
	"encoding/base64"
	"encoding/binary"
	"encoding/json"
	"fmt"
	"io"
	"net/http"
	"net/http/httptest"
	"os"
	"runtime/debug"
	"sort"
	"strings"
	"time"

	"github.com/apache/thrift/lib/go/thrift"

	"verif/engine/vsched"
	"verif/engine/vsched/fakenats"
)

type vbEmpty struct{}

func (vbEmpty) Write(ctx context.Context, p thrift.TProtocol) error {
	if err := p.WriteStructBegin(ctx, "e"); err != nil {
		return err
	}
	if err := p.WriteFieldStop(ctx); err != nil {
		return err
	}
	return p.WriteStructEnd(ctx)
}
func (vbEmpty) Read(ctx context.Context, p thrift.TProtocol) error {
	return p.Skip(ctx, thrift.STRUCT)
}
func (vbEmpty) String() string { return "vbEmpty" }

// vbPing is a hand-written FProcessorFunction for a method without arguments.
// vbPing is shaped like a generated processor function: it replies through SendReply, i.e. under the
// processor's write mutex.
type vbPing struct {
	calls *int
	base  *FBaseProcessorFunction
}

func (v vbPing) Process(fctx FContext, in, out *FProtocol) error {
	ctx := context.Background()
	if err := in.Skip(ctx, thrift.STRUCT); err != nil {
		return err
	}
	if err := in.ReadMessageEnd(ctx); err != nil {
		return err
	}
	*v.calls++
	if v.base != nil {
		return v.base.SendReply(fctx, out, "ping", vbEmpty{})
	}
	out.WriteResponseHeader(fctx)
	out.WriteMessageBegin(ctx, "ping", thrift.REPLY, 0)
	vbEmpty{}.Write(ctx, out)
	out.WriteMessageEnd(ctx)
	return out.Flush(ctx)
}
func (vbPing) AddMiddleware(ServiceMiddleware) {}

func vbProtoFactory(name string) *FProtocolFactory {
	switch name {
	case "compact":
		return NewFProtocolFactory(thrift.NewTCompactProtocolFactoryConf(nil))
	case "json":
		return NewFProtocolFactory(thrift.NewTJSONProtocolFactory())
	}
	return NewFProtocolFactory(thrift.NewTBinaryProtocolFactoryConf(nil))
}

// vbMessage builds headers + thrift message (no frame size prefix).
func vbMessage(proto string, hdr map[string]string, method string, typ thrift.TMessageType) []byte {
	buf := thrift.NewTMemoryBuffer()
	buf.Write(vfEncodeHeaders(hdr))
	p := vbProtoFactory(proto).GetProtocol(buf)
	ctx := context.Background()
	p.WriteMessageBegin(ctx, method, typ, 0)
	vbEmpty{}.Write(ctx, p)
	p.WriteMessageEnd(ctx)
	p.Flush(ctx)
	return buf.Bytes()
}

func vbFramed(b []byte) []byte {
	out := binary.BigEndian.AppendUint32(nil, uint32(len(b)))
	return append(out, b...)
}

var vbReqHdr = map[string]string{"_opid": "1", "_cid": "c", "k": "v"}

type vbRT struct {
	status int
	body   []byte
}

func (r vbRT) RoundTrip(req *http.Request) (*http.Response, error) {
	return &http.Response{StatusCode: r.status, Status: "x", Body: io.NopCloser(bytes.NewReader(r.body)), Header: http.Header{}, Request: req}, nil
}

type vbConn struct {
	in  *bytes.Reader
	out bytes.Buffer
}

func (c *vbConn) Read(b []byte) (int, error) {
	n, err := c.in.Read(b)
	if err == io.EOF {
		return n, thrift.NewTTransportExceptionFromError(io.EOF)
	}
	return n, err
}
func (c *vbConn) Write(b []byte) (int, error)     { return c.out.Write(b) }
func (c *vbConn) Flush(ctx context.Context) error { return nil }
func (c *vbConn) Open() error                     { return nil }
func (c *vbConn) Close() error                    { return nil }
func (c *vbConn) IsOpen() bool                    { return true }
func (c *vbConn) RemainingBytes() uint64          { return uint64(c.in.Len()) }

// vbEP is one receiving entry point. run feeds b and then checks that a well-formed message is
// still handled; it returns a non-empty string if the follow-up failed.
type vbEP struct {
	name   string
	stream bool // the entry point allocates the declared header size before reading it
	run    func(b []byte) string
}

func vbCtx1() FContext {
	c := NewFContext("c")
	setRequestOpID(c, 1)
	return c
}

func vbEntryPoints() []vbEP {
	var eps []vbEP
	goodReply := vbMessage("binary", map[string]string{"_opid": "1", "_cid": "c"}, "ping", thrift.REPLY)
	regFollow := func(exec func([]byte) error, ch chan []byte, framed bool) string {
		// drain anything the bad input delivered
		if n, _ := vsched.ChanInfo(ch); n > 0 {
			vsched.Recv(ch)
		}
		g := goodReply
		if framed {
			g = vbFramed(g)
		}
		if err := exec(g); err != nil {
			return "good frame rejected after bad one: " + err.Error()
		}
		if n, _ := vsched.ChanInfo(ch); n != 1 {
			return "good frame not delivered after bad one"
		}
		return ""
	}
	eps = append(eps, vbEP{name: "registry.Execute", run: func(b []byte) string {
		reg := newFRegistry()
		ch := make(chan []byte, 1)
		reg.Register(vbCtx1(), ch)
		reg.Execute(b)
		return regFollow(reg.Execute, ch, false)
	}})
	eps = append(eps, vbEP{name: "fBaseTransport.ExecuteFrame", run: func(b []byte) string {
		bt := newFBaseTransport(0)
		ch := make(chan []byte, 1)
		bt.registry.Register(vbCtx1(), ch)
		bt.ExecuteFrame(b)
		return regFollow(bt.ExecuteFrame, ch, true)
	}})
	eps = append(eps, vbEP{name: "fNatsTransport.handler", run: func(b []byte) string {
		// through the exported path: the transport subscribes its handler on <inbox>.*, the broker
		// model delivers what a peer publishes there
		conn := fakenats.NewConn()
		tr := NewFNatsTransport(conn, "subj", "inbox").(*fNatsTransport)
		if err := tr.Open(); err != nil {
			return "open: " + err.Error()
		}
		ch := make(chan []byte, 1)
		tr.registry.Register(vbCtx1(), ch)
		conn.Inject("inbox.1", "", nil, b)
		conn.Inject("inbox."+string(b), "", fakenats.Header{"Status": {"503"}}, nil)
		conn.Inject("inbox.1", "", fakenats.Header{"Status": {string(b)}}, b)
		conn.Inject("inbox.zz", "", fakenats.Header{"Status": {"503"}}, b)
		// let the dispatcher work everything off, then deliver a good reply
		vsched.WaitUntil(vbIdle, func() bool { return conn.PendingTotal() == 0 })
		if n, _ := vsched.ChanInfo(ch); n > 0 {
			vsched.Recv(ch)
		}
		conn.Inject("inbox.1", "", nil, vbFramed(goodReply))
		vsched.WaitUntil(vbIdle, func() bool { return conn.PendingTotal() == 0 })
		if n, _ := vsched.ChanInfo(ch); n != 1 {
			return "good reply not delivered after bad messages"
		}
		return ""
	}})
	// the adapter transport's read loop over a stream that carries exactly these bytes and then ends:
	// whatever they are, the loop ends with a cause on Closed() (it may not bring the process down)
	eps = append(eps, vbEP{name: "fAdapterTransport.readLoop", run: func(b []byte) string {
		p := vfNewPipe()
		fed, ended := false, false
		p.next = func(p *vfPipe) bool {
			switch {
			case !fed && len(b) > 0:
				fed = true
				p.inbound = append([]byte{}, b...)
				return true
			case !ended && len(p.inbound) == 0:
				ended = true
				p.readErr = thrift.NewTTransportExceptionFromError(io.EOF)
				return true
			}
			return false
		}
		tr := NewAdapterTransport(p)
		if err := tr.Open(); err != nil {
			return ""
		}
		if ch := tr.Closed(); ch != nil {
			vsched.Recv2(ch)
		}
		if tr.IsOpen() {
			return "the adapter transport is still open after its stream ended"
		}
		return ""
	}})
	eps = append(eps, vbEP{name: "getHeadersFromFrame", run: func(b []byte) string {
		// unmarshalFrame / addHeadersToFrame are not reachable from any receive path of lib/go
		// (no non-test caller), so only the reader the registry uses is driven here
		getHeadersFromFrame(b)
		return ""
	}})
	eps = append(eps, vbEP{name: "FProtocol.ReadHeaders", stream: true, run: func(b []byte) string {
		pf := vbProtoFactory("binary")
		pf.GetProtocol(&thrift.TMemoryBuffer{Buffer: bytes.NewBuffer(b)}).ReadRequestHeader()
		pf.GetProtocol(&thrift.TMemoryBuffer{Buffer: bytes.NewBuffer(b)}).ReadResponseHeader(vbCtx1())
		return ""
	}})
	for _, proto := range []string{"binary", "compact", "json"} {
		proto := proto
		goodReq := vbMessage(proto, vbReqHdr, "ping", thrift.CALL)
		mkProc := func() (*FBaseProcessor, *int) {
			n := 0
			p := NewFBaseProcessor()
			p.AddToProcessorMap("ping", vbPing{calls: &n, base: NewFBaseProcessorFunction(p.GetWriteMutex(), nil)})
			return p, &n
		}
		eps = append(eps, vbEP{name: "FBaseProcessor.Process/" + proto, stream: true, run: func(b []byte) string {
			pf := vbProtoFactory(proto)
			proc, n := mkProc()
			out := thrift.NewTMemoryBuffer()
			proc.Process(pf.GetProtocol(&thrift.TMemoryBuffer{Buffer: bytes.NewBuffer(b)}), pf.GetProtocol(out))
			*n = 0
			out2 := thrift.NewTMemoryBuffer()
			if err := proc.Process(pf.GetProtocol(&thrift.TMemoryBuffer{Buffer: bytes.NewBuffer(goodReq)}), pf.GetProtocol(out2)); err != nil || *n != 1 || out2.Len() == 0 {
				return fmt.Sprintf("good request not served after bad one (err=%v calls=%d)", err, *n)
			}
			return ""
		}})
		eps = append(eps, vbEP{name: "fNatsServer.processFrame/" + proto, stream: true, run: func(b []byte) string {
			// through the exported path: Serve subscribes, requests are published to the subject,
			// Stop drains; every accepted request has been processed when Serve returns
			conn := fakenats.NewConn()
			proc, n := mkProc()
			srv := NewFNatsServerBuilder(conn, proc, vbProtoFactory(proto), []string{"s"}).Build()
			served := false
			vsched.GoNamed("serve", false, func() { srv.Serve(); served = true })
			conn.WaitSubsEver(1)
			conn.PublishRequest("s", "r-bad", b)
			conn.PublishRequest("s", "r-good", vbFramed(goodReq))
			srv.Stop()
			vsched.WaitUntil(vbIdle, func() bool { return served })
			good := 0
			for _, m := range conn.Log {
				if m.Subject == "r-good" {
					good++
				}
			}
			if *n < 1 || good != 1 {
				return fmt.Sprintf("good request not answered after bad one (handler calls=%d replies=%d)", *n, good)
			}
			return ""
		}})
		eps = append(eps, vbEP{name: "NewFrugalHandlerFunc/" + proto, stream: true, run: func(b []byte) string {
			proc, n := mkProc()
			h := NewFrugalHandlerFunc(proc, vbProtoFactory(proto))
			enc := base64.StdEncoding.EncodeToString(b)
			for _, body := range []string{enc, string(b)} {
				req := httptest.NewRequest("POST", "/frugal", strings.NewReader(body))
				h(httptest.NewRecorder(), req)
				req2 := httptest.NewRequest("POST", "/frugal", strings.NewReader(body))
				req2.Header.Set(payloadLimitHeader, string(b))
				h(httptest.NewRecorder(), req2)
				req3 := httptest.NewRequest("POST", "/frugal", strings.NewReader(body))
				req3.ContentLength = int64(len(b)) - 3
				h(httptest.NewRecorder(), req3)
			}
			*n = 0
			rec := httptest.NewRecorder()
			h(rec, httptest.NewRequest("POST", "/frugal", strings.NewReader(base64.StdEncoding.EncodeToString(vbFramed(goodReq)))))
			if rec.Code != 200 || *n != 1 {
				return fmt.Sprintf("good HTTP request not served after bad one (status %d calls=%d)", rec.Code, *n)
			}
			return ""
		}})
		eps = append(eps, vbEP{name: "FSimpleServer.accept/" + proto, stream: true, run: func(b []byte) string {
			proc, n := mkProc()
			srv := NewFSimpleServer(proc, nil, vbProtoFactory(proto))
			srv.accept(&vbConn{in: bytes.NewReader(b)})
			// a later connection is unaffected
			*n = 0
			c2 := &vbConn{in: bytes.NewReader(vbFramed(goodReq))}
			srv.accept(c2)
			if *n != 1 || c2.out.Len() == 0 {
				return "a later connection was not served after a bad one"
			}
			return ""
		}})
		eps = append(eps, vbEP{name: "FStandardClient.processReply/" + proto, stream: true, run: func(b []byte) string {
			cl := &FStandardClient{protocolFactory: vbProtoFactory(proto)}
			ctx := context.Background()
			cl.processReply(ctx, vbCtx1(), "ping", vbEmpty{}, &thrift.TMemoryBuffer{Buffer: bytes.NewBuffer(b)})
			good := vbMessage(proto, map[string]string{"_opid": "1"}, "ping", thrift.REPLY)
			if err := cl.processReply(ctx, vbCtx1(), "ping", vbEmpty{}, &thrift.TMemoryBuffer{Buffer: bytes.NewBuffer(good)}); err != nil {
				return "good reply rejected after bad one: " + err.Error()
			}
			return ""
		}})
	}
	eps = append(eps, vbEP{name: "fHTTPTransport.Request", stream: true, run: func(b []byte) string {
		enc := []byte(base64.StdEncoding.EncodeToString(b))
		cl := &FStandardClient{protocolFactory: vbProtoFactory("binary")}
		for _, st := range []int{200, 413, 500} {
			for _, body := range [][]byte{enc, b} {
				tr := NewFHTTPTransportBuilder(&http.Client{Transport: vbRT{status: st, body: body}}, "http://x/frugal").Build()
				res, err := tr.Request(vbCtx1(), []byte{0, 0, 0, 1, 9})
				if err == nil && res != nil {
					cl.processReply(context.Background(), vbCtx1(), "ping", vbEmpty{}, res)
				}
			}
		}
		return ""
	}})
	eps = append(eps, vbEP{name: "TFramedTransport.Read", run: func(b []byte) string {
		ft := NewTFramedTransportMaxLength(&thrift.TMemoryBuffer{Buffer: bytes.NewBuffer(b)}, 1024)
		buf := make([]byte, 16)
		for i := 0; i < 12; i++ {
			if _, err := ft.Read(buf); err != nil {
				break
			}
		}
		return ""
	}})
	return eps
}

// vbHugeFor reports whether entry point ep would allocate a declared header size above 1 MiB for
// input b (the stream readers allocate the declared size before reading it). Such calls cost up to
// a second each and are a diagnostic, not a violation; they are counted as skipped and represented
// by the explicit "probes" mode.
func vbHugeFor(ep string, b []byte) bool {
	big := func(x []byte, off int) bool {
		return len(x) >= off+4 && int32(binary.BigEndian.Uint32(x[off:])) > 1<<20
	}
	switch {
	case strings.HasPrefix(ep, "FSimpleServer.accept"):
		// dry run of what Process does first, through the real framed transport: version byte,
		// then the declared header size
		ft := NewTFramedTransport(&vbConn{in: bytes.NewReader(b)})
		var hdr [5]byte
		if _, err := io.ReadFull(ft, hdr[:1]); err != nil || hdr[0] != 0 {
			return false
		}
		if _, err := io.ReadFull(ft, hdr[1:5]); err != nil {
			return false
		}
		return int32(binary.BigEndian.Uint32(hdr[1:5])) > 1<<20
	case strings.HasPrefix(ep, "fNatsServer.processFrame"), strings.HasPrefix(ep, "NewFrugalHandlerFunc"), ep == "fHTTPTransport.Request":
		return len(b) > 4 && b[4] == 0 && big(b, 5)
	}
	return len(b) > 0 && b[0] == 0 && big(b, 1)
}

// vbIdle is a dummy object for waits whose predicate depends on broker / server progress.
var vbIdle = &vsched.Obj{Name: "idle"}

var vbAlphabet = []byte{0x00, 0x01, 0x04, 0x05, 0x7f, 0x80, 0xfe, 0xff}
var vbJSONAlphabet = []byte{'[', ']', '"', '1', ',', '{', '}', ':'}

// vbHugeDeclared reports inputs whose declared header size (bytes 1..4 after the version byte, or
// 5..8 behind a frame size) is between 1 MiB and 2 GiB: the stream readers allocate that much
// before reading (a diagnostic, not a violation) and each such call costs about a second, so they
// are represented by explicit probes instead of being enumerated.
func vbHugeDeclared(b []byte) bool {
	chk := func(off int) bool {
		if len(b) >= off+4 {
			v := int32(binary.BigEndian.Uint32(b[off:]))
			return v > 1<<20
		}
		return false
	}
	return chk(1) || chk(5)
}

type vbFinding struct {
	Key   string `json:"key"`
	Msg   string `json:"msg"`
	EP    string `json:"ep"`
	Input string `json:"input"`
}

type vbResult struct {
	Mode       string           `json:"mode"`
	Inputs     int64            `json:"inputs"`
	Calls      int64            `json:"calls"`
	Skipped    int64            `json:"skipped_huge_declared_size"`
	Findings   []vbFinding      `json:"findings"`
	PerEP      map[string]int64 `json:"calls_per_entry_point"`
	Outcomes   map[string]int64 `json:"outcome_classes"`
	Samples    []string         `json:"samples"`
	Nontrivial int64            `json:"nontrivial"`
	Slow       []string         `json:"slow_calls"`
	TimeNS     map[string]int64 `json:"time_ns_per_entry_point"`
	seen       map[string]bool
}

func vbPanicSite(stack string) string {
	lines := strings.Split(stack, "\n")
	seenPanic := false
	for _, l := range lines {
		if strings.HasPrefix(l, "panic(") {
			seenPanic = true
			continue
		}
		if seenPanic && strings.Contains(l, "frugal/lib/go.") && !strings.Contains(l, ".vb") && !strings.Contains(l, ".vf") {
			l = l[strings.Index(l, "frugal/lib/go.")+len("frugal/lib/go."):]
			if i := strings.Index(l, "("); i > 0 && !strings.HasPrefix(l, "(") {
				l = l[:i]
			} else if j := strings.LastIndex(l, "("); j > 0 {
				l = l[:j]
			}
			return l
		}
	}
	return "?"
}

func (r *vbResult) add(f vbFinding) {
	if r.seen == nil {
		r.seen = map[string]bool{}
	}
	if r.seen[f.Key] {
		return
	}
	r.seen[f.Key] = true
	r.Findings = append(r.Findings, f)
}

// vbRunInput executes all entry points on b inside one vsched execution.
func vbRunInput(res *vbResult, eps []vbEP, b []byte, only map[string]bool) {
	res.Inputs++
	if res.Mode == "strings" && res.Inputs%512 == 0 {
		// the collector is off (see vbMain); in the mode with thousands of small inputs per shard collect
		// by hand every 512 inputs so that the garbage of the executions so far (about 2 MB each) stays
		// around 1 GiB and 16 shards fit side by side. The template mode has few inputs per shard and
		// declared sizes of up to 2 GiB: there a collection makes the runtime recycle (and clear) those
		// buffers, which is what switching the collector off avoids.
		debug.FreeOSMemory()
	}
	if len(b) >= 5 {
		res.Nontrivial++
	}
	var curEP string
	body := func() {
		vfResetGlobals()
		for _, ep := range eps {
			if only != nil && !only[ep.name] {
				continue
			}
			if ep.stream && only == nil && vbHugeFor(ep.name, b) {
				res.Skipped++
				continue
			}
			curEP = ep.name
			res.Calls++
			res.PerEP[ep.name]++
			t0 := time.Now()
			func() {
				defer func() {
					d := time.Since(t0).Nanoseconds()
					res.TimeNS[ep.name] += d
					if d > 200e6 && len(res.Slow) < 10 {
						res.Slow = append(res.Slow, fmt.Sprintf("%s %x %dms", ep.name, b, d/1e6))
					}
					if r := recover(); r != nil {
						if vsched.Killed() {
							panic(r)
						}
						st := string(debug.Stack())
						site := vbPanicSite(st)
						res.Outcomes["panic"]++
						res.add(vbFinding{Key: "C05/panic/" + ep.name + "/" + site, EP: ep.name,
							Msg: fmt.Sprintf("%s panics on input %x: %v (in %s)", ep.name, b, r, site), Input: fmt.Sprintf("%x", b)})
					}
				}()
				if msg := ep.run(b); msg != "" {
					res.Outcomes["followup-failed"]++
					res.add(vbFinding{Key: "C05/wedged/" + ep.name, EP: ep.name, Msg: fmt.Sprintf("%s: %s (input %x)", ep.name, msg, b), Input: fmt.Sprintf("%x", b)})
				} else {
					res.Outcomes["handled"]++
				}
			}()
		}
	}
	e := vsched.Run(body, nil, &vsched.Options{MaxSteps: 100000, Bound: -1})
	if e.Status == vsched.Panicked {
		res.add(vbFinding{Key: "C05/panic-thread/" + curEP + "/" + vfFirstLine(e.PanicS), EP: curEP, Msg: e.PanicS, Input: fmt.Sprintf("%x", b)})
	}
	for _, bl := range e.Blocked() {
		if bl.FG {
			res.Outcomes["blocked"]++
			res.add(vbFinding{Key: "C05/blocks-forever/" + curEP + "/" + bl.Kind.String() + "@" + bl.Where, EP: curEP,
				Msg: fmt.Sprintf("%s never returns on input %x: parked in %s at %s", curEP, b, bl.Kind, bl.Where), Input: fmt.Sprintf("%x", b)})
		}
	}
	e.Finish()
}

// vbTemplates returns well-formed frames (with size prefix) whose fields get substituted.
func vbTemplates() map[string][]byte {
	t := map[string][]byte{}
	for _, p := range []string{"binary", "compact", "json"} {
		t["request/"+p] = vbFramed(vbMessage(p, vbReqHdr, "ping", thrift.CALL))
		t["reply/"+p] = vbFramed(vbMessage(p, map[string]string{"_opid": "1", "_cid": "c"}, "ping", thrift.REPLY))
		t["exception/"+p] = vbFramed(vbMessage(p, map[string]string{"_opid": "1"}, "ping", thrift.EXCEPTION))
		t["unknown-method/"+p] = vbFramed(vbMessage(p, vbReqHdr, "nope", thrift.CALL))
		t["oneway/"+p] = vbFramed(vbMessage(p, vbReqHdr, "ping", thrift.ONEWAY))
	}
	return t
}

var vbSubst = []uint32{0, 1, 2, 3, 4, 5, 0x7fffffff, 0x80000000, 0xfffffffc, 0xffffffff}

// VbMain runs one shard of a bytex mode and prints a JSON result.
func vbMain(mode string, shard, nshards int, tier string, replay string) {
	// Huge declared sizes make the stream readers allocate before they read; with the collector off
	// such buffers are fresh untouched mappings (cheap) instead of recycled spans that must be
	// cleared. Shards are short-lived, so the small garbage does not matter.
	debug.SetGCPercent(-1)
	eps := vbEntryPoints()
	res := &vbResult{Mode: mode, PerEP: map[string]int64{}, Outcomes: map[string]int64{}, TimeNS: map[string]int64{}}
	if replay != "" {
		var rf struct {
			EP    string `json:"ep"`
			Input string `json:"input"`
		}
		b, _ := os.ReadFile(replay)
		var wrap map[string]json.RawMessage
		json.Unmarshal(b, &wrap)
		json.Unmarshal(b, &rf)
		var in []byte
		fmt.Sscanf(rf.Input, "%x", &in)
		vbRunInput(res, eps, in, map[string]bool{rf.EP: true})
		json.NewEncoder(os.Stdout).Encode(res)
		if len(res.Findings) > 0 {
			os.Exit(1)
		}
		return
	}
	idx := 0
	feed := func(b []byte, withFrameVariants bool) {
		idx++
		if idx%nshards != shard {
			return
		}
		vbRunInput(res, eps, b, nil)
		if len(res.Samples) < 4 {
			res.Samples = append(res.Samples, fmt.Sprintf("%x", b))
		}
	}
	switch mode {
	case "strings":
		L := 5
		if tier == "thorough" {
			L = 7
		}
		var rec func(p []byte)
		rec = func(p []byte) {
			feed(p, true)
			if len(p) == L {
				return
			}
			for _, c := range vbAlphabet {
				rec(append(append([]byte{}, p...), c))
			}
		}
		rec(nil)
		// the same strings behind a correct frame-size prefix and behind a version byte + header
		// size that matches (so the pair parser is reached with every string)
		L2 := 4
		if tier == "thorough" {
			L2 = 5
		}
		var rec2 func(p []byte)
		rec2 = func(p []byte) {
			feed(vbFramed(p), false)
			hb := append([]byte{0}, binary.BigEndian.AppendUint32(nil, uint32(len(p)))...)
			feed(append(hb, p...), false)
			feed(vbFramed(append(hb, p...)), false)
			if len(p) == L2 {
				return
			}
			for _, c := range vbAlphabet {
				rec2(append(append([]byte{}, p...), c))
			}
		}
		rec2(nil)
		// JSON-ish strings for the JSON protocol paths, behind valid headers
		hdr := vfEncodeHeaders(vbReqHdr)
		var rec3 func(p []byte)
		rec3 = func(p []byte) {
			feed(append(append([]byte{}, hdr...), p...), false)
			feed(vbFramed(append(append([]byte{}, hdr...), p...)), false)
			if len(p) == L {
				return
			}
			for _, c := range vbJSONAlphabet {
				rec3(append(append([]byte{}, p...), c))
			}
		}
		rec3(nil)
		// request bodies as text for the HTTP handler: base64 digits, padding and the white space that
		// Go's decoder skips, so that the body's length and the decoded length part company
		httpEPs := map[string]bool{}
		for _, ep := range eps {
			if strings.HasPrefix(ep.name, "NewFrugalHandlerFunc/") {
				httpEPs[ep.name] = true
			}
		}
		L4 := 8
		if tier == "thorough" {
			L4 = 9
		}
		var rec4 func(p []byte)
		rec4 = func(p []byte) {
			idx++
			if idx%nshards == shard {
				vbRunInput(res, eps, p, httpEPs)
			}
			if len(p) == L4 {
				return
			}
			for _, c := range []byte("AQ=\n\r") {
				rec4(append(append([]byte{}, p...), c))
			}
		}
		rec4(nil)
	case "probes":
		// explicit representatives of the declared-size range that the enumeration skips
		sizes := []uint32{1<<20 + 1, 1 << 24}
		if tier == "thorough" {
			sizes = append(sizes, 0x7fffffff)
		}
		for _, sz := range sizes {
			h := append([]byte{0}, binary.BigEndian.AppendUint32(nil, sz)...)
			for _, in := range [][]byte{h, append(append([]byte{}, h...), 1, 2, 3), vbFramed(h), vbFramed(append(append([]byte{}, h...), 1, 2, 3))} {
				idx++
				if idx%nshards != shard {
					continue
				}
				res.Inputs++
				res.Nontrivial++
				body := in
				for _, ep := range eps {
					only := map[string]bool{ep.name: true}
					vbRunInput(res, eps, body, only)
					res.Inputs--
				}
			}
		}
		// well-formed but hostile requests: an unknown method with a name of 600 KiB (the reply echoes it
		// twice and does not fit a 1 MiB reply buffer) and a correlation id just under 1 MiB
		bigName := vbMessage("binary", map[string]string{"_opid": "1", "_cid": "c", "_timeout": "50"}, strings.Repeat("n", 600<<10), thrift.CALL)
		bigCid := vbMessage("binary", map[string]string{"_opid": "1", "_cid": strings.Repeat("c", 1<<20-200), "_timeout": "50"}, "nope", thrift.CALL)
		for _, in := range [][]byte{bigName, vbFramed(bigName), bigCid, vbFramed(bigCid)} {
			idx++
			if idx%nshards != shard {
				continue
			}
			res.Inputs++
			res.Nontrivial++
			for _, ep := range eps {
				vbRunInput(res, eps, in, map[string]bool{ep.name: true})
				res.Inputs--
			}
		}
	case "templates":
		tm := vbTemplates()
		names := make([]string, 0, len(tm))
		for n := range tm {
			names = append(names, n)
		}
		sort.Strings(names)
		for _, n := range names {
			t := tm[n]
			for _, unframed := range []bool{false, true} {
				base := t
				if unframed {
					base = t[4:]
				}
				// every truncation
				for cut := 0; cut <= len(base); cut++ {
					feed(base[:cut], false)
				}
				// every 4-byte field position x every boundary value (+ n-1, n, n+1 of the original)
				for off := 0; off+4 <= len(base) && off < 80; off++ {
					orig := binary.BigEndian.Uint32(base[off:])
					vals := append([]uint32{}, vbSubst...)
					if orig > 0 && orig < 1<<16 {
						vals = append(vals, orig-1, orig+1, orig+4, orig*2)
					}
					for _, v := range vals {
						m := append([]byte{}, base...)
						binary.BigEndian.PutUint32(m[off:], v)
						feed(m, false)
					}
					if tier == "thorough" {
						// pairs: a second substituted field further on
						for off2 := off + 4; off2+4 <= len(base) && off2 < 48; off2 += 1 {
							for _, v := range []uint32{0, 1, 0x7fffffff, 0xffffffff} {
								for _, v2 := range []uint32{0, 1, 0x7fffffff, 0xffffffff} {
									m := append([]byte{}, base...)
									binary.BigEndian.PutUint32(m[off:], v)
									binary.BigEndian.PutUint32(m[off2:], v2)
									feed(m, false)
								}
							}
						}
					}
				}
				// single byte flips to boundary bytes over the first 48 bytes
				for off := 0; off < len(base) && off < 48; off++ {
					for _, c := range vbAlphabet {
						m := append([]byte{}, base...)
						m[off] = c
						feed(m, false)
					}
				}
			}
		}
	}
	json.NewEncoder(os.Stdout).Encode(res)
}
