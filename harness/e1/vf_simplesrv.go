package frugal

// Harness "simplesrv" (C14): the real FSimpleServer (acceptLoop, accept, one goroutine per
// connection) over a fake listener that hands out in-memory connections back to back. Every
// connection carries its own framed requests and then ends (EOF); a processor built from
// FBaseProcessor pieces answers each request with the request's id. Oracles: every request is
// answered exactly once, on its own connection, in order, with its own op id; no connection is read
// by two goroutines; Serve returns after Stop.

import (
	"context"
	"errors"
	"fmt"
	"io"
	"strconv"
	"strings"

	"github.com/apache/thrift/lib/go/thrift"

	"verif/engine/vsched"
)

type vfListener struct {
	obj         *vsched.Obj
	conns       []*vfPipe
	handed      int
	interrupted bool
}

func (l *vfListener) Listen() error { return nil }
func (l *vfListener) Accept() (thrift.TTransport, error) {
	vsched.Yield() // a connection arriving is a visible step
	l.obj.Write()
	if l.handed < len(l.conns) {
		c := l.conns[l.handed]
		l.handed++
		return c, nil
	}
	vsched.WaitUntil(l.obj, func() bool { return l.interrupted })
	return nil, errors.New("listener interrupted")
}
func (l *vfListener) Close() error { return nil }
func (l *vfListener) Interrupt() error {
	l.obj.Write()
	l.interrupted = true
	return nil
}

// vfIDProc answers every request with a one-byte payload carrying the request's id; "unknown"
// requests (id >= 200) are answered like FBaseProcessor answers an unknown method.
type vfIDProc struct {
	st *vfSSState
}

func (p *vfIDProc) Process(in, out *FProtocol) error {
	fctx, err := in.ReadRequestHeader()
	if err != nil {
		return err
	}
	b, err := in.ReadByte(context.Background())
	if err != nil {
		return err
	}
	id := int(uint8(b))
	p.st.processed[id]++
	vsched.Note(fmt.Sprintf("process %d", id))
	vsched.Yield() // the handler takes a while
	if err := out.WriteResponseHeader(fctx); err != nil {
		return err
	}
	if err := out.WriteByte(context.Background(), b); err != nil {
		return err
	}
	return out.Flush(context.Background())
}
func (p *vfIDProc) AddMiddleware(ServiceMiddleware)            {}
func (p *vfIDProc) Annotations() map[string]map[string]string { return nil }

type vfSSState struct {
	conns     []*vfPipe
	ids       [][]int
	processed map[int]int
	serveRet  bool
	serveErr  error
}

func vfSimpleSrvMake(scn string) (func(), func(*vsched.Exec) (string, *vsched.Violation)) {
	// scn: "c=2/1" -> two connections with 2 and 1 requests
	var counts []int
	for _, kv := range strings.Split(scn, ",") {
		if strings.HasPrefix(kv, "c=") {
			for _, t := range strings.Split(strings.TrimPrefix(kv, "c="), "/") {
				n, _ := strconv.Atoi(t)
				counts = append(counts, n)
			}
		}
	}
	var st *vfSSState
	body := func() {
		vfResetGlobals()
		st = &vfSSState{processed: map[int]int{}}
		l := &vfListener{obj: vsched.NewObj("listener")}
		id := 0
		for ci, n := range counts {
			p := vfNewPipe()
			p.Open()
			var ids []int
			for k := 0; k < n; k++ {
				id++
				ids = append(ids, id)
				p.inbound = append(p.inbound, vfFrame(map[string]string{"_opid": strconv.Itoa(1000*(ci+1) + k), "_cid": "c"}, []byte{byte(id)})...)
			}
			// when its requests are consumed the client hangs up
			p.next = func(p *vfPipe) bool {
				if p.readErr == nil && p.consumed > 0 && len(p.inbound) == 0 {
					p.readErr = thrift.NewTTransportExceptionFromError(io.EOF)
					return true
				}
				return false
			}
			if n == 0 {
				p.readErr = thrift.NewTTransportExceptionFromError(io.EOF)
			}
			st.conns = append(st.conns, p)
			st.ids = append(st.ids, ids)
			l.conns = append(l.conns, p)
		}
		pf := NewFProtocolFactory(thrift.NewTBinaryProtocolFactoryConf(nil))
		srv := NewFSimpleServer(&vfIDProc{st: st}, l, pf)
		vsched.GoNamed("serve", true, func() {
			st.serveErr = srv.Serve()
			st.serveRet = true
		})
		vsched.GoNamed("stopper", true, func() {
			// stop once every connection has been handed out and every request was seen or nothing moves
			vsched.WaitUntil(l.obj, func() bool { return l.handed == len(l.conns) })
			vsched.Sleep(int64(1e9)) // let the connections be served (virtual time: fires at quiescence)
			srv.Stop()
		})
	}
	check := func(e *vsched.Exec) (string, *vsched.Violation) {
		var parts []string
		for ci, p := range st.conns {
			var got []string
			for _, f := range vfSplitFrames(p.writes) {
				h, pl, err := vfParse(f)
				if err != nil || len(pl) != 1 {
					got = append(got, "garbled")
					continue
				}
				got = append(got, fmt.Sprintf("%d/%s", pl[0], h["_opid"]))
			}
			parts = append(parts, fmt.Sprintf("conn%d:%v", ci, got))
		}
		out := strings.Join(parts, " ") + fmt.Sprintf(" serveRet=%v", st.serveRet)
		var first *vsched.Violation
		viol := func(key, msg string) {
			if first == nil && vfWants(key) {
				first = &vsched.Violation{Key: key, Msg: msg + " | " + scn + " -> " + out}
			}
		}
		if e.Status == vsched.Panicked {
			viol("C14/panic/simple-server/"+vfFirstLine(e.PanicS), e.PanicS)
			return out, first
		}
		if e.Status == vsched.Horizon {
			viol("C14/livelock/simple-server", "step horizon exceeded")
			return out, first
		}
		for _, b := range e.Blocked() {
			if b.FG {
				viol("C14/simple-server-never-returns/"+b.Thread+"/"+b.Kind.String()+"@"+b.Where, fmt.Sprintf("%s never returns (parked in %s at %s)", b.Thread, b.Kind, b.Where))
			}
		}
		if first != nil {
			return out, first
		}
		for ci, p := range st.conns {
			var gotIDs []int
			for _, f := range vfSplitFrames(p.writes) {
				h, pl, err := vfParse(f)
				if err != nil || len(pl) != 1 {
					viol("C14/simple-server/garbled-reply", fmt.Sprintf("connection %d carries a reply that does not parse (replies of two requests interleaved?)", ci))
					continue
				}
				gotIDs = append(gotIDs, int(pl[0]))
				k := len(gotIDs) - 1
				if k < len(st.ids[ci]) && h["_opid"] != strconv.Itoa(1000*(ci+1)+k) {
					viol("C14/simple-server/reply-opid", fmt.Sprintf("connection %d reply %d carries op id %s", ci, k, h["_opid"]))
				}
			}
			if fmt.Sprint(gotIDs) != fmt.Sprint(st.ids[ci]) {
				viol("C14/simple-server/connection-not-served-faithfully", fmt.Sprintf("connection %d sent requests %v and got replies %v", ci, st.ids[ci], gotIDs))
			}
		}
		for id, n := range st.processed {
			if n != 1 {
				viol("C14/simple-server/request-processed-n-times", fmt.Sprintf("request %d processed %d times", id, n))
			}
		}
		if !st.serveRet {
			viol("C14/simple-server/serve-did-not-return", "Serve has not returned after Stop")
		}
		return out, first
	}
	return body, check
}

// vfSplitFrames splits what was written to a connection into frames (size prefix stripped). The
// framed transport writes a frame in one or more Write calls; they are concatenated first.
func vfSplitFrames(writes [][]byte) [][]byte {
	var all []byte
	for _, w := range writes {
		all = append(all, w...)
	}
	var out [][]byte
	for len(all) >= 4 {
		n := int(uint32(all[0])<<24 | uint32(all[1])<<16 | uint32(all[2])<<8 | uint32(all[3]))
		if n < 0 || 4+n > len(all) {
			out = append(out, all) // trailing garbage: reported as garbled by the caller
			return out
		}
		out = append(out, all[4:4+n])
		all = all[4+n:]
	}
	if len(all) > 0 {
		out = append(out, all)
	}
	return out
}

func init() {
	vfRegister(&vfHarness{
		Name:  "simplesrv",
		Props: []string{"C14"},
		Scenarios: func(tier string) []string {
			out := []string{"c=1", "c=2", "c=1/1", "c=2/1", "c=1/2", "c=0/1", "c=1/0/1"}
			if tier == "thorough" {
				out = append(out, "c=2/2", "c=1/1/1", "c=3/1", "c=2/1/1")
			}
			return out
		},
		Make: vfSimpleSrvMake,
		Bound: func(tier, scn string) (int, bool) {
			if tier == "thorough" {
				return 3, true
			}
			return 2, true
		},
	})
}
