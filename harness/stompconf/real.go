package main

import (
	"fmt"
	"net"
	"strings"
	"sync"
	"time"

	"github.com/go-stomp/stomp"
	"github.com/go-stomp/stomp/frame"
	"github.com/go-stomp/stomp/server"
)

type realBroker struct {
	c    *stomp.Conn
	wait time.Duration
}

type realSub struct {
	s    *stomp.Subscription
	wait time.Duration
}

func rerr(err error) string {
	switch err {
	case nil:
		return "ok"
	case stomp.ErrCompletedSubscription:
		return "completed"
	}
	return "err"
}

func (b *realBroker) Subscribe(dest, id string, auto bool) (Sub, string) {
	mode := stomp.AckClientIndividual
	if auto {
		mode = stomp.AckAuto
	}
	var opts []func(*frame.Frame) error
	if id != "" {
		opts = append(opts, stomp.SubscribeOpt.Id(id))
	}
	s, err := b.c.Subscribe(dest, mode, opts...)
	return realSub{s, b.wait}, rerr(err)
}
func (b *realBroker) Send(dest string, body []byte) string {
	return rerr(b.c.Send(dest, "application/octet-stream", body, stomp.SendOpt.Header("persistent", "true")))
}
func (b *realBroker) Ack(h any) string { return rerr(b.c.Ack(h.(*stomp.Message))) }

func (r realSub) Unsubscribe() string {
	if r.s == nil {
		return "no-sub"
	}
	done := make(chan string, 1)
	go func() { done <- rerr(r.s.Unsubscribe()) }()
	select {
	case s := <-done:
		return s
	case <-time.After(5 * time.Second):
		return "unsubscribe-hangs"
	}
}
func (r realSub) Recv() Msg {
	if r.s == nil {
		return Msg{Kind: "no-sub"}
	}
	select {
	case m, ok := <-r.s.C:
		if !ok {
			return Msg{Kind: "closed"}
		}
		if m.Err != nil {
			return Msg{Kind: "err"}
		}
		return Msg{Kind: "msg", Body: string(m.Body), Dest: m.Destination, H: m}
	case <-time.After(r.wait):
		return Msg{Kind: "empty"}
	}
}

func startServer() (string, func(), error) {
	l, err := net.Listen("tcp", "127.0.0.1:0")
	if err != nil {
		return "", nil, err
	}
	go server.Serve(l)
	return l.Addr().String(), func() { l.Close() }, nil
}

var runCtr struct {
	sync.Mutex
	n int
}

// realOutcome runs the script once on a fresh connection with destinations private to the run.
func realOutcome(addr string, sc Script, wait time.Duration) (string, error) {
	c, err := stomp.Dial("tcp", addr)
	if err != nil {
		return "", err
	}
	defer func() {
		d := make(chan struct{})
		go func() { c.Disconnect(); close(d) }()
		select {
		case <-d:
		case <-time.After(2 * time.Second):
		}
	}()
	runCtr.Lock()
	runCtr.n++
	prefix := fmt.Sprintf("c%d-", runCtr.n)
	runCtr.Unlock()
	res := runScript(&realBroker{c: c, wait: wait}, sc, prefix)
	for i := range res {
		res[i] = strings.Replace(res[i], prefix, "", 1)
	}
	return strings.Join(res, ","), nil
}
