package main

import (
	"encoding/json"
	"flag"
	"fmt"
	"os"
	"sync"
	"time"
)

type report struct {
	Tier            string   `json:"tier"`
	Depth           int      `json:"script_depth"`
	Scripts         int      `json:"scripts"`
	ShardScripts    int      `json:"scripts_in_this_shard"`
	ModelExecs      int64    `json:"model_executions"`
	ModelStates     int64    `json:"model_states"`
	ModelTrans      int64    `json:"model_transitions"`
	ModelOutcomes   int      `json:"model_outcomes"`
	ModelCapped     []string `json:"model_capped_scripts"`
	RealRuns        int      `json:"real_runs"`
	RealDistinct    int      `json:"real_distinct_observations"`
	Inconclusive    int      `json:"real_runs_inconclusive"`
	UnexplainedOnce []string `json:"unexplained_once"`
	Mismatches      []string `json:"mismatches"`
	Status          string   `json:"status"`
	WallS           float64  `json:"wall_s"`
	Server          string   `json:"server"`
}

func main() {
	depth := flag.Int("depth", 3, "maximum script length (exhaustive)")
	reps := flag.Int("reps", 3, "real runs per script")
	out := flag.String("out", "", "write the report here")
	tier := flag.String("tier", "quick", "label")
	only := flag.Int("only", -1, "run a single script (index) verbosely")
	list := flag.Bool("list", false, "list the scripts")
	shard := flag.Int("shard", 0, "this process handles scripts with index % nshards == shard")
	nshards := flag.Int("nshards", 1, "number of shard processes")
	waitMs := flag.Int("wait", 60, "how long a real receive waits before it reports an empty channel (ms); unexplained observations are looked for again with ten times as much")
	flag.Int64Var(&maxExecs, "maxexecs", 200000, "per-script cap on model executions")
	flag.Parse()
	t0 := time.Now()
	all := append(scripts(*depth), curated()...)
	if *list {
		for i, s := range all {
			fmt.Println(i, s)
		}
		return
	}
	rep := &report{Tier: *tier, Depth: *depth, Scripts: len(all), Server: "github.com/go-stomp/stomp v2.1.4: client against its own in-process server package over loopback TCP"}
	addr, stop, err := startServer()
	if err != nil {
		rep.Status = "skipped: " + err.Error()
		write(rep, *out)
		fmt.Println("STOMP-CONFORMANCE skipped:", err)
		return
	}
	defer stop()
	wait := time.Duration(*waitMs) * time.Millisecond

	if *only >= 0 {
		sc := all[*only]
		fmt.Println("script:", sc)
		m := modelOutcomes(sc)
		for _, o := range sortedKeys(m.Outcomes) {
			fmt.Println("  model:", o)
		}
		fmt.Println("  model capped/violations:", m.Capped, m.Violations)
		for i := 0; i < *reps; i++ {
			o, err := realOutcome(addr, sc, wait)
			fmt.Println("  real :", o, err, m.Outcomes[o])
		}
		return
	}

	type item struct {
		idx   int
		sc    Script
		model map[string]bool
	}
	work := make(chan *item, 64)
	var mu sync.Mutex
	seenReal := map[string]bool{}
	var wg sync.WaitGroup
	for w := 0; w < 4; w++ {
		wg.Add(1)
		go func() {
			defer wg.Done()
			for it := range work {
				unexplained := map[string]int{}
				suspicious := false
				for i := 0; i < *reps; i++ {
					o, err := realOutcome(addr, it.sc, wait)
					mu.Lock()
					rep.RealRuns++
					if err != nil {
						rep.Inconclusive++
						mu.Unlock()
						continue
					}
					seenReal[fmt.Sprintf("%d/%s", it.idx, o)] = true
					mu.Unlock()
					if !it.model[o] {
						suspicious = true
					}
				}
				if suspicious {
					// look again with long waits: only what still is not a model outcome then counts
					for i := 0; i < 4; i++ {
						o, err := realOutcome(addr, it.sc, 10*wait)
						mu.Lock()
						rep.RealRuns++
						mu.Unlock()
						if err == nil && !it.model[o] {
							unexplained[o]++
						}
					}
				}
				mu.Lock()
				for o, n := range unexplained {
					line := fmt.Sprintf("script %d [%s]: real observation {%s} is not a model outcome (seen %d times with long waits; model has %d outcomes, e.g. {%s})", it.idx, it.sc, o, n, len(it.model), first(it.model))
					if n >= 2 {
						rep.Mismatches = append(rep.Mismatches, line)
					} else {
						rep.UnexplainedOnce = append(rep.UnexplainedOnce, line)
					}
				}
				mu.Unlock()
			}
		}()
	}
	for i, sc := range all {
		if i%*nshards != *shard {
			continue
		}
		rep.ShardScripts++
		m := modelOutcomes(sc)
		rep.ModelExecs += m.Execs
		rep.ModelStates += m.States
		rep.ModelTrans += m.Trans
		rep.ModelOutcomes += len(m.Outcomes)
		if m.Capped != "" || len(m.Violations) > 0 {
			rep.ModelCapped = append(rep.ModelCapped, fmt.Sprintf("%d [%s] %s %v", i, sc, m.Capped, m.Violations))
			continue
		}
		work <- &item{idx: i, sc: sc, model: m.Outcomes}
	}
	close(work)
	wg.Wait()
	rep.RealDistinct = len(seenReal)
	rep.WallS = time.Since(t0).Seconds()
	rep.Status = "conforms"
	if len(rep.Mismatches) > 0 {
		rep.Status = "mismatch"
	}
	write(rep, *out)
	fmt.Printf("STOMP-CONFORMANCE %s: %d scripts (depth %d), model: %d executions, %d states, %d outcomes; real: %d runs, %d distinct observations, %d inconclusive, %d unexplained once, %d mismatches; %.1fs\n",
		rep.Status, rep.ShardScripts, rep.Depth, rep.ModelExecs, rep.ModelStates, rep.ModelOutcomes, rep.RealRuns, rep.RealDistinct, rep.Inconclusive, len(rep.UnexplainedOnce), len(rep.Mismatches), rep.WallS)
	for _, m := range rep.Mismatches {
		fmt.Println("  MISMATCH", m)
	}
	if len(rep.Mismatches) > 0 {
		os.Exit(3)
	}
}

func first(m map[string]bool) string {
	k := sortedKeys(m)
	if len(k) == 0 {
		return ""
	}
	return k[0]
}

func write(r *report, path string) {
	if path == "" {
		return
	}
	b, _ := json.MarshalIndent(r, "", " ")
	os.WriteFile(path, b, 0o644)
}
