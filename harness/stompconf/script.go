// Command stompconf binds the STOMP broker model the E1 pubsub harness runs on
// (verif/engine/vsched/fakestomp) to the implementation it stands for: the go-stomp client
// (github.com/go-stomp/stomp v2.1.4, what lib/go pins) talking to go-stomp's own in-process server
// (github.com/go-stomp/stomp/server, the server lib/go's tests use) over a loopback socket.
//
// Same shape as harness/brokerconf: every script of a bounded alphabet of client operations is explored
// exhaustively on the model under vsched (all Choose answers, all schedules), giving the set of model
// outcomes; the same script runs several times against the real client and server, and every real
// observation must be an element of that set.
package main

import (
	"fmt"
	"strings"
)

// Op is one operation of the script's main thread.
type Op struct {
	K    byte   // S subscribe, P send, U unsubscribe, R receive from a subscription's channel, A ack the last message received
	Dest string // S P
	ID   string // S: explicit subscription id ("" = generated)
	Auto bool   // S: ack mode auto instead of client-individual (lib/go uses client-individual)
	Arg  string // P: body
	I    int    // U R A: subscription index
}

type Script []Op

func (o Op) String() string {
	switch o.K {
	case 'S':
		s := "S(" + o.Dest
		if o.ID != "" {
			s += ",id=" + o.ID
		}
		if o.Auto {
			s += ",auto"
		}
		return s + ")"
	case 'P':
		return "P(" + o.Dest + "," + o.Arg + ")"
	}
	return fmt.Sprintf("%c(%d)", o.K, o.I)
}

func (s Script) String() string {
	p := make([]string, len(s))
	for i, o := range s {
		p[i] = o.String()
	}
	return strings.Join(p, " ")
}

// Msg is what a receive observed.
type Msg struct {
	Kind string // "msg", "err", "closed", "empty"
	Body string
	Dest string
	H    any // broker-side handle for Ack
}

// Broker is what a script needs from either side.
type Broker interface {
	Subscribe(dest, id string, auto bool) (Sub, string)
	Send(dest string, body []byte) string
	Ack(h any) string
}

type Sub interface {
	Unsubscribe() string
	// Recv takes the next message if one is there (the real side waits a while for it), reports
	// "closed" for a closed and empty channel and "empty" when nothing arrives.
	Recv() Msg
}

// runScript executes a script and returns the per-operation observations.
func runScript(b Broker, sc Script, prefix string) []string {
	var subs []Sub
	var last []*Msg
	var res []string
	for _, o := range sc {
		switch o.K {
		case 'S':
			s, r := b.Subscribe(pfx(prefix, o.Dest), o.ID, o.Auto)
			subs = append(subs, s)
			last = append(last, nil)
			res = append(res, r)
		case 'P':
			res = append(res, b.Send(pfx(prefix, o.Dest), []byte(o.Arg)))
		case 'U':
			res = append(res, subs[o.I].Unsubscribe())
		case 'R':
			m := subs[o.I].Recv()
			switch m.Kind {
			case "msg":
				mm := m
				last[o.I] = &mm
				res = append(res, "msg:"+m.Body+"@"+strings.TrimPrefix(strings.Replace(m.Dest, prefix, "", 1), ""))
			default:
				res = append(res, m.Kind)
			}
		case 'A':
			if last[o.I] == nil {
				res = append(res, "nothing-to-ack")
			} else {
				res = append(res, b.Ack(last[o.I].H))
			}
		}
	}
	// drain: what is still readable on every subscription, in order
	for i, s := range subs {
		for n := 0; n < 8; n++ {
			m := s.Recv()
			if m.Kind == "msg" {
				res = append(res, fmt.Sprintf("left%d:%s", i, m.Body))
				continue
			}
			res = append(res, fmt.Sprintf("end%d:%s", i, m.Kind))
			if m.Kind == "err" {
				continue
			}
			break
		}
	}
	return res
}

// pfx makes destinations private to a run: /topic/a -> /topic/<prefix>a
func pfx(prefix, dest string) string {
	i := strings.LastIndex(dest, "/")
	return dest[:i+1] + prefix + dest[i+1:]
}

// withServerGaps adds Unsubscribe and Ack to the alphabet. The only STOMP server in the sandbox is
// go-stomp's own server package, which never answers UNSUBSCRIBE with a RECEIPT (the client's
// Unsubscribe then waits forever) and rejects the STOMP 1.2 ACK frame the client sends (ERROR, connection
// closed), so those two operations cannot be compared and stay bound to go-stomp by reading only.
var withServerGaps = false

func alphabet(nsubs int, idUsed int) []Op {
	var a []Op
	if nsubs < 2 {
		a = append(a,
			Op{K: 'S', Dest: "/topic/a"},
			Op{K: 'S', Dest: "/queue/a"},
			Op{K: 'S', Dest: "/topic/b"},
			Op{K: 'S', Dest: "/topic/a", Auto: true},
		)
	}
	a = append(a,
		Op{K: 'P', Dest: "/topic/a", Arg: "m"},
		Op{K: 'P', Dest: "/queue/a", Arg: "m"},
		Op{K: 'P', Dest: "/topic/b", Arg: "m"},
	)
	for i := 0; i < nsubs; i++ {
		a = append(a, Op{K: 'R', I: i})
		if withServerGaps {
			a = append(a, Op{K: 'U', I: i}, Op{K: 'A', I: i})
		}
	}
	return a
}

// scripts enumerates every script of at most n operations that starts with a subscription; bodies of
// successive sends are made distinct (m1, m2, ...).
func scripts(n int) []Script {
	var out []Script
	var rec func(cur Script, nsubs int)
	rec = func(cur Script, nsubs int) {
		if len(cur) > 0 {
			cp := make(Script, len(cur))
			copy(cp, cur)
			k := 0
			for i := range cp {
				if cp[i].K == 'P' {
					k++
					cp[i].Arg = fmt.Sprintf("m%d", k)
				}
			}
			out = append(out, cp)
		}
		if len(cur) == n {
			return
		}
		for _, o := range alphabet(nsubs, 0) {
			if len(cur) == 0 && o.K != 'S' {
				continue
			}
			ns := nsubs
			if o.K == 'S' {
				ns++
			}
			rec(append(cur, o), ns)
		}
	}
	rec(nil, 0)
	return out
}

// curated longer scripts: the shapes lib/go and the pubsub harness produce.
func curated() []Script {
	p := func(d, b string) Op { return Op{K: 'P', Dest: d, Arg: b} }
	T, Q := "/topic/a", "/queue/a"
	all := []Script{
		{{K: 'S', Dest: T}, p(T, "1"), p(T, "2"), p(T, "3"), {K: 'R', I: 0}, {K: 'R', I: 0}, {K: 'R', I: 0}},
		{{K: 'S', Dest: T}, {K: 'S', Dest: T}, p(T, "1"), p("/topic/b", "2"), p(T, "3")},
		{{K: 'S', Dest: Q}, {K: 'S', Dest: Q}, p(Q, "1"), p(Q, "2")},
		{p(Q, "1"), {K: 'S', Dest: Q}, p(Q, "2"), {K: 'R', I: 0}},
		{p(T, "1"), {K: 'S', Dest: T}, p(T, "2"), {K: 'R', I: 0}},
		// a subscription id in use (nothing in flight, and nothing sent afterwards: the model takes the
		// broker's ERROR as arriving at once, reality takes a moment)
		{{K: 'S', Dest: T, ID: "x"}, {K: 'S', Dest: "/topic/b", ID: "x"}, {K: 'R', I: 0}, {K: 'R', I: 1}, {K: 'R', I: 1}},
		{{K: 'S', Dest: T, ID: "x"}, {K: 'S', Dest: T, ID: "x"}, {K: 'R', I: 1}, {K: 'R', I: 0}},
		{{K: 'S', Dest: T, ID: "x"}, {K: 'S', Dest: T, ID: "y"}, {K: 'S', Dest: T, ID: "y"}, {K: 'R', I: 0}, {K: 'R', I: 1}, {K: 'R', I: 2}},
		{{K: 'S', Dest: T, ID: "x"}, {K: 'S', Dest: "/topic/b", ID: "y"}, p(T, "1"), p("/topic/b", "2"), {K: 'R', I: 0}, {K: 'R', I: 1}},
	}
	return all
}
