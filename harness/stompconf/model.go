package main

import (
	"sort"
	"strings"

	"verif/engine/vsched"
	stomp "verif/engine/vsched/fakestomp"
)

type modelBroker struct{ c *stomp.Conn }

type modelSub struct{ s *stomp.Subscription }

func merr(err error) string {
	switch err {
	case nil:
		return "ok"
	case stomp.ErrCompletedSubscription:
		return "completed"
	}
	return "err"
}

func (b *modelBroker) Subscribe(dest, id string, auto bool) (Sub, string) {
	mode := stomp.AckClientIndividual
	if auto {
		mode = stomp.AckAuto
	}
	var opts []func(*stomp.Frame) error
	if id != "" {
		opts = append(opts, stomp.SubscribeOpt.Id(id))
	}
	s, err := b.c.Subscribe(dest, mode, opts...)
	return modelSub{s}, merr(err)
}
func (b *modelBroker) Send(dest string, body []byte) string {
	return merr(b.c.Send(dest, "application/octet-stream", body, stomp.SendOpt.Header("persistent", "true")))
}
func (b *modelBroker) Ack(h any) string { return merr(b.c.Ack(h.(*stomp.Message))) }

func (m modelSub) Unsubscribe() string {
	if m.s == nil {
		return "no-sub"
	}
	return merr(m.s.Unsubscribe())
}
func (m modelSub) Recv() Msg {
	if m.s == nil {
		return Msg{Kind: "no-sub"}
	}
	n, closed := vsched.ChanInfo(m.s.C)
	if n == 0 {
		if closed {
			return Msg{Kind: "closed"}
		}
		return Msg{Kind: "empty"}
	}
	x := vsched.Recv(m.s.C)
	if x.Err != nil {
		return Msg{Kind: "err"}
	}
	return Msg{Kind: "msg", Body: string(x.Body), Dest: x.Destination, H: x}
}

var maxExecs int64 = 200000

type modelResult struct {
	Outcomes   map[string]bool
	Execs      int64
	States     int64
	Trans      int64
	Capped     string
	Violations []string
}

func modelOutcomes(sc Script) *modelResult {
	var res []string
	body := func() {
		res = nil
		b := &modelBroker{c: stomp.NewConn()}
		res = runScript(b, sc, "")
		for _, s := range res {
			vsched.Note(s)
		}
	}
	r := &modelResult{Outcomes: map[string]bool{}}
	x := &vsched.Explorer{Body: body, Bound: -1, Prune: true, MaxSteps: 5000, MaxExecs: maxExecs,
		Check: func(e *vsched.Exec) (string, *vsched.Violation) {
			out := strings.Join(res, ",")
			if e.Status == vsched.Panicked || e.Status == vsched.Horizon {
				return out, &vsched.Violation{Key: "model/" + e.Status.String(), Msg: e.Status.String()}
			}
			r.Outcomes[out] = true
			return out, nil
		}}
	x.Explore()
	r.Execs, r.States, r.Trans, r.Capped = x.Stats.Execs, x.Stats.States, x.Stats.Transitions, x.Stats.Capped
	for _, v := range x.Violations {
		r.Violations = append(r.Violations, v.Key+" "+v.Msg)
	}
	return r
}

func sortedKeys(m map[string]bool) []string {
	var k []string
	for s := range m {
		k = append(k, s)
	}
	sort.Strings(k)
	return k
}
