package frugal

// Free-running complement of the E1 "ctx" harness (C17): the same operation alphabet on one shared
// FContext and the creation routes, on real goroutines under the race detector. A cooperative
// scheduler cannot see unsynchronised plain-memory accesses (its hand-offs are happens-before
// edges); this pass can. It is supplementary evidence: it samples schedules, it does not enumerate.

import (
	"bytes"
	"sync"
	"testing"
	"time"

	"github.com/apache/thrift/lib/go/thrift"
)

var vfRacePF = NewFProtocolFactory(thrift.NewTBinaryProtocolFactoryConf(nil))

// response headers as they come off the wire: version 0, one pair "r" = "v"
var vfRaceRespHeaders = []byte{0, 0, 0, 0, 10, 0, 0, 0, 1, 'r', 0, 0, 0, 1, 'v'}

func TestVerifRaceSharedContext(t *testing.T) {
	ops := []func(c *FContextImpl, i int){
		func(c *FContextImpl, i int) { c.AddRequestHeader("a", "v") },
		func(c *FContextImpl, i int) { c.RequestHeader("a") },
		func(c *FContextImpl, i int) { m := c.RequestHeaders(); m["zz"] = "x" },
		func(c *FContextImpl, i int) { c.AddResponseHeader("a", "v") },
		func(c *FContextImpl, i int) { c.ResponseHeader("a") },
		func(c *FContextImpl, i int) { m := c.ResponseHeaders(); m["zz"] = "x" },
		func(c *FContextImpl, i int) { c.SetTimeout(time.Duration(i) * time.Millisecond) },
		func(c *FContextImpl, i int) { c.Timeout() },
		func(c *FContextImpl, i int) { c.AddEphemeralProperty("a", i) },
		func(c *FContextImpl, i int) { c.EphemeralProperty("a") },
		func(c *FContextImpl, i int) { m := c.EphemeralProperties(); m["zz"] = 1 },
		func(c *FContextImpl, i int) { cl := c.Clone(); cl.AddRequestHeader("q", "w"); cl.AddEphemeralProperty("q", 1) },
		func(c *FContextImpl, i int) { cl := Clone(c); cl.AddResponseHeader("q", "w") },
		func(c *FContextImpl, i int) { c.CorrelationID() },
		// the library's own consumers of a context: serialising it into a request / response, and
		// reading response headers into it
		func(c *FContextImpl, i int) {
			vfRacePF.GetProtocol(&thrift.TMemoryBuffer{Buffer: new(bytes.Buffer)}).WriteRequestHeader(c)
		},
		func(c *FContextImpl, i int) {
			vfRacePF.GetProtocol(&thrift.TMemoryBuffer{Buffer: new(bytes.Buffer)}).WriteResponseHeader(c)
		},
		func(c *FContextImpl, i int) {
			vfRacePF.GetProtocol(&thrift.TMemoryBuffer{Buffer: bytes.NewBuffer(append([]byte{}, vfRaceRespHeaders...))}).ReadResponseHeader(c)
		},
	}
	for a := range ops {
		for b := range ops {
			ctx := NewFContext("cid").(*FContextImpl)
			var wg sync.WaitGroup
			for _, op := range []func(*FContextImpl, int){ops[a], ops[b], ops[(a+b)%len(ops)]} {
				op := op
				wg.Add(1)
				go func() {
					defer wg.Done()
					for i := 0; i < 20; i++ {
						op(ctx, i)
					}
				}()
			}
			wg.Wait()
		}
	}
}

func TestVerifRaceOpIDs(t *testing.T) {
	const G, N = 8, 200
	ids := make(chan string, G*N*3)
	var wg sync.WaitGroup
	base := NewFContext("base")
	for g := 0; g < G; g++ {
		wg.Add(1)
		go func() {
			defer wg.Done()
			for i := 0; i < N; i++ {
				c := NewFContext("c")
				id, _ := c.RequestHeader(opIDHeader)
				ids <- id
				id2, _ := Clone(base).RequestHeader(opIDHeader)
				ids <- id2
				buf := v0Marshaler.marshalHeaders(map[string]string{opIDHeader: "77", cidHeader: "x"})
				rc, err := NewFProtocolFactory(thrift.NewTBinaryProtocolFactoryConf(nil)).GetProtocol(&thrift.TMemoryBuffer{Buffer: bytes.NewBuffer(buf)}).ReadRequestHeader()
				if err != nil {
					t.Error(err)
					return
				}
				id3, _ := rc.RequestHeader(opIDHeader)
				ids <- id3
			}
		}()
	}
	wg.Wait()
	close(ids)
	seen := map[string]bool{}
	for id := range ids {
		if seen[id] {
			t.Fatalf("op id %s handed out twice", id)
		}
		seen[id] = true
	}
}
