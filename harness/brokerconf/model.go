package main

import (
	"sort"
	"strings"

	"verif/engine/vsched"
	nats "verif/engine/vsched/fakenats"
)

// modelBroker runs a script against the broker model inside one vsched execution.
type modelBroker struct {
	c   *nats.Conn
	log *[]string
}

type modelSub struct{ s *nats.Subscription }

func (m modelSub) Unsubscribe() error { return m.s.Unsubscribe() }
func (m modelSub) Drain() error       { return m.s.Drain() }

func (b *modelBroker) Subscribe(subj, queue string, cb func(subj, reply, status string, data []byte)) (Sub, error) {
	s, err := b.c.QueueSubscribe(subj, queue, func(m *nats.Msg) {
		cb(m.Subject, m.Reply, m.Header.Get("Status"), m.Data)
	})
	if err != nil {
		return modelSub{}, err
	}
	return modelSub{s}, nil
}
func (b *modelBroker) Publish(subj string, data []byte) error { return b.c.Publish(subj, data) }
func (b *modelBroker) PublishRequest(subj, reply string, data []byte) error {
	return b.c.PublishRequest(subj, reply, data)
}
func (b *modelBroker) Flush() error           { return b.c.Flush() }
func (b *modelBroker) Barrier(f func()) error { return b.c.Barrier(f) }
func (b *modelBroker) NewGate() (func(), func()) {
	o := vsched.NewObj("gate")
	open := false
	return func() { vsched.WaitUntil(o, func() bool { return open }) },
		func() { vsched.Yield(); o.Write(); open = true }
}
func (b *modelBroker) Record(s string) {
	vsched.Note(s) // folded into the thread's hash: equal state keys imply equal observations
	*b.log = append(*b.log, s)
}

var maxExecs int64 = 400000

type modelResult struct {
	Outcomes   map[string]bool
	Execs      int64
	Complete   int64
	States     int64
	Trans      int64
	Capped     string
	Violations []string
}

// modelOutcomes enumerates every schedule of the model for one script.
func modelOutcomes(sc Script, async bool) *modelResult {
	var log []string
	var res []string
	body := func() {
		log = nil
		res = nil
		c := nats.NewConn()
		c.Async = async
		b := &modelBroker{c: c, log: &log}
		res = runScript(b, sc, "")
	}
	r := &modelResult{Outcomes: map[string]bool{}}
	x := &vsched.Explorer{Body: body, Bound: -1, Prune: true, MaxSteps: 5000, MaxExecs: maxExecs,
		Check: func(e *vsched.Exec) (string, *vsched.Violation) {
			out := outcome(res, log)
			if e.Status == vsched.Panicked || e.Status == vsched.Horizon {
				return out, &vsched.Violation{Key: "model/" + e.Status.String(), Msg: e.Status.String()}
			}
			r.Outcomes[out] = true
			return out, nil
		}}
	x.Explore()
	r.Execs, r.Complete, r.States, r.Trans, r.Capped = x.Stats.Execs, x.Stats.Complete, x.Stats.States, x.Stats.Transitions, x.Stats.Capped
	for _, v := range x.Violations {
		r.Violations = append(r.Violations, v.Key+" "+v.Msg)
	}
	return r
}

func outcome(res, log []string) string {
	return strings.Join(res, ",") + " | " + strings.Join(log, " ")
}

func sortedKeys(m map[string]bool) []string {
	var k []string
	for s := range m {
		k = append(k, s)
	}
	sort.Strings(k)
	return k
}
