package main

import (
	"encoding/json"
	"flag"
	"fmt"
	"os"
	"sync"
	"time"
)

type report struct {
	Tier            string         `json:"tier"`
	Depth           int            `json:"script_depth"`
	Scripts         int            `json:"scripts"`
	ShardScripts    int            `json:"scripts_in_this_shard"`
	ModelExecs      int64          `json:"model_executions"`
	ModelStates     int64          `json:"model_states"`
	ModelTrans      int64          `json:"model_transitions"`
	ModelOutcomes   int            `json:"model_outcomes"`
	ModelCapped     []string       `json:"model_capped_scripts"`
	RealRuns        int            `json:"real_runs"`
	RealDistinct    int            `json:"real_distinct_observations"`
	Inconclusive    int            `json:"real_runs_inconclusive"`
	UnexplainedOnce []string       `json:"unexplained_once"`
	Mismatches      []string       `json:"mismatches"`
	SyncGap         int            `json:"scripts_where_zero_latency_submodel_misses_a_real_observation"`
	SyncGapExamples []string       `json:"zero_latency_gap_examples"`
	Status          string         `json:"status"`
	WallS           float64        `json:"wall_s"`
	Server          string         `json:"server"`
	Extra           map[string]any `json:"extra,omitempty"`
}

func main() {
	depth := flag.Int("depth", 3, "maximum script length (exhaustive)")
	reps := flag.Int("reps", 3, "real runs per script")
	out := flag.String("out", "", "write the report here")
	tier := flag.String("tier", "quick", "label")
	only := flag.Int("only", -1, "run a single script (index) verbosely")
	shard := flag.Int("shard", 0, "this process handles scripts with index % nshards == shard")
	nshards := flag.Int("nshards", 1, "number of shard processes")
	flag.Int64Var(&maxExecs, "maxexecs", 400000, "per-script cap on model executions (a capped script is reported and not compared)")
	flag.Parse()
	t0 := time.Now()
	all := append(scripts(*depth), curated()...)
	rep := &report{Tier: *tier, Depth: *depth, Scripts: len(all), Server: "github.com/nats-io/nats-server/v2 v2.10.11 embedded, github.com/nats-io/nats.go v1.33.1"}
	srv, err := startServer()
	if err != nil {
		rep.Status = "skipped: " + err.Error()
		write(rep, *out)
		fmt.Println("CONFORMANCE skipped:", err)
		return
	}
	defer srv.Shutdown()
	url := srv.ClientURL()

	if *only >= 0 {
		sc := all[*only]
		fmt.Println("script:", sc)
		m := modelOutcomes(sc, true)
		for _, o := range sortedKeys(m.Outcomes) {
			fmt.Println("  model:", o)
		}
		for i := 0; i < *reps; i++ {
			o, ok, err := realOutcome(url, sc)
			fmt.Println("  real :", o, ok, err, m.Outcomes[o])
		}
		return
	}

	// model side: sequential (the explorer is a process-wide singleton); real side: parallel workers
	type item struct {
		idx   int
		sc    Script
		model map[string]bool
		sync  map[string]bool
	}
	work := make(chan *item, 64)
	var mu sync.Mutex
	seenReal := map[string]bool{}
	var wg sync.WaitGroup
	for w := 0; w < 3; w++ {
		wg.Add(1)
		go func() {
			defer wg.Done()
			for it := range work {
				unexplained := map[string]int{}
				gap := false
				runs := *reps
				for i := 0; i < runs; i++ {
					o, ok, err := realOutcome(url, it.sc)
					mu.Lock()
					rep.RealRuns++
					if err != nil || !ok {
						rep.Inconclusive++
						mu.Unlock()
						continue
					}
					seenReal[fmt.Sprintf("%d/%s", it.idx, o)] = true
					mu.Unlock()
					if !it.model[o] {
						unexplained[o]++
						if runs < *reps+6 {
							runs += 3 // look again: a systematic gap shows up repeatedly
						}
					} else if !it.sync[o] {
						gap = true
					}
				}
				mu.Lock()
				for o, n := range unexplained {
					line := fmt.Sprintf("script %d [%s]: real observation {%s} is not a model outcome (seen %d times; model has %d outcomes)", it.idx, it.sc, o, n, len(it.model))
					if n >= 2 {
						rep.Mismatches = append(rep.Mismatches, line)
					} else {
						rep.UnexplainedOnce = append(rep.UnexplainedOnce, line)
					}
				}
				if gap {
					rep.SyncGap++
					if len(rep.SyncGapExamples) < 5 {
						rep.SyncGapExamples = append(rep.SyncGapExamples, it.sc.String())
					}
				}
				mu.Unlock()
			}
		}()
	}
	for i, sc := range all {
		if i%*nshards != *shard {
			continue
		}
		rep.ShardScripts++
		m := modelOutcomes(sc, true)
		s := modelOutcomes(sc, false)
		rep.ModelExecs += m.Execs + s.Execs
		rep.ModelStates += m.States + s.States
		rep.ModelTrans += m.Trans + s.Trans
		rep.ModelOutcomes += len(m.Outcomes)
		if m.Capped != "" || len(m.Violations) > 0 {
			rep.ModelCapped = append(rep.ModelCapped, fmt.Sprintf("%d [%s] %s %v", i, sc, m.Capped, m.Violations))
			continue // an incomplete outcome set proves nothing
		}
		// the zero-latency sub-model must only show behaviours the full model has
		for o := range s.Outcomes {
			if !m.Outcomes[o] {
				mu.Lock()
				rep.Mismatches = append(rep.Mismatches, fmt.Sprintf("script %d [%s]: zero-latency outcome {%s} is not an outcome of the full model", i, sc, o))
				mu.Unlock()
			}
		}
		work <- &item{idx: i, sc: sc, model: m.Outcomes, sync: s.Outcomes}
	}
	close(work)
	wg.Wait()
	rep.RealDistinct = len(seenReal)
	rep.WallS = time.Since(t0).Seconds()
	rep.Status = "conforms"
	if len(rep.Mismatches) > 0 {
		rep.Status = "mismatch"
	}
	write(rep, *out)
	fmt.Printf("CONFORMANCE %s: %d scripts (depth %d), model: %d executions, %d states, %d outcomes; real: %d runs, %d distinct observations, %d inconclusive, %d unexplained once, %d mismatches; zero-latency sub-model misses a real observation in %d scripts; %.1fs\n",
		rep.Status, rep.Scripts, rep.Depth, rep.ModelExecs, rep.ModelStates, rep.ModelOutcomes, rep.RealRuns, rep.RealDistinct, rep.Inconclusive, len(rep.UnexplainedOnce), len(rep.Mismatches), rep.SyncGap, rep.WallS)
	for _, m := range rep.Mismatches {
		fmt.Println("  MISMATCH", m)
	}
	if len(rep.Mismatches) > 0 {
		os.Exit(3)
	}
}

func write(r *report, path string) {
	if path == "" {
		return
	}
	b, _ := json.MarshalIndent(r, "", " ")
	os.WriteFile(path, b, 0o644)
}
