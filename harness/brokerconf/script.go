// Command brokerconf binds the broker model the E1 harnesses run on (verif/engine/vsched/fakenats)
// to the implementation it stands for (github.com/nats-io/nats.go v1.33.1 talking to an embedded
// github.com/nats-io/nats-server v2.10.11, the versions lib/go pins).
//
// For every script of a bounded alphabet of client operations (subscribe, queue-subscribe, publish,
// publish-request, unsubscribe, drain, flush, barrier, a callback that blocks on a gate) the model side
// enumerates ALL schedules of the model under the vsched explorer (unbounded, happens-before pruning,
// observations folded into the state key) and collects the set of observable outcomes; the real side
// runs the same script against the real client and server several times and requires every
// observation to be an element of that set. The direction that matters for soundness is exactly this
// one: a behaviour the real broker can show and the model cannot would be a behaviour the E1 checks
// never explore.
package main

import (
	"fmt"
	"strings"
)

// Op is one operation of the script's main thread.
type Op struct {
	K    byte   // S subscribe, Q queue-subscribe, P publish, R publish-request, U unsubscribe, D drain, F flush, B barrier, G open the gate
	Subj string // S Q P R
	Arg  string // Q: queue; P R: data
	Rep  string // R: reply subject
	I    int    // U D: subscription index
	Gate bool   // S Q: the subscription's first callback waits for the gate
}

type Script []Op

func (o Op) String() string {
	switch o.K {
	case 'S':
		if o.Gate {
			return "Sg(" + o.Subj + ")"
		}
		return "S(" + o.Subj + ")"
	case 'Q':
		return "Q(" + o.Subj + "," + o.Arg + ")"
	case 'P':
		return "P(" + o.Subj + "," + o.Arg + ")"
	case 'R':
		return "R(" + o.Subj + "," + o.Rep + "," + o.Arg + ")"
	case 'U', 'D':
		return fmt.Sprintf("%c(%d)", o.K, o.I)
	}
	return string(o.K)
}

func (s Script) String() string {
	p := make([]string, len(s))
	for i, o := range s {
		p[i] = o.String()
	}
	return strings.Join(p, " ")
}

// Broker is what a script needs from either side.
type Broker interface {
	Subscribe(subj, queue string, cb func(subj, reply, status string, data []byte)) (Sub, error)
	Publish(subj string, data []byte) error
	PublishRequest(subj, reply string, data []byte) error
	Flush() error
	Barrier(f func()) error
	// NewGate returns wait / open functions of a one-shot gate.
	NewGate() (wait func(), open func())
	// Record appends one observation atomically.
	Record(s string)
}

type Sub interface {
	Unsubscribe() error
	Drain() error
}

func errs(err error) string {
	if err == nil {
		return "ok"
	}
	return err.Error()
}

// runScript executes the main thread of a script and returns the per-operation results; callbacks
// record "<sub index>:<data>" (or "<sub index>:status=503").
func runScript(b Broker, sc Script, prefix string) []string {
	var subs []Sub
	var res []string
	wait, open := b.NewGate()
	opened := false
	for _, o := range sc {
		switch o.K {
		case 'S', 'Q':
			idx := len(subs)
			first := true
			gated := o.Gate
			q := ""
			if o.K == 'Q' {
				q = o.Arg
			}
			s, err := b.Subscribe(prefix+o.Subj, q, func(subj, reply, status string, data []byte) {
				if status != "" {
					b.Record(fmt.Sprintf("%d:status=%s", idx, status))
				} else {
					b.Record(fmt.Sprintf("%d:%s", idx, data))
				}
				if gated && first {
					first = false
					wait()
					b.Record(fmt.Sprintf("%d:released", idx))
				}
			})
			subs = append(subs, s)
			res = append(res, errs(err))
			// like every user in lib/go: a subscription is followed by a flush before anything else
			res = append(res, errs(b.Flush()))
		case 'P':
			res = append(res, errs(b.Publish(prefix+o.Subj, []byte(o.Arg))))
		case 'R':
			res = append(res, errs(b.PublishRequest(prefix+o.Subj, prefix+o.Rep, []byte(o.Arg))))
		case 'U':
			res = append(res, errs(subs[o.I].Unsubscribe()))
		case 'D':
			res = append(res, errs(subs[o.I].Drain()))
		case 'F':
			res = append(res, errs(b.Flush()))
		case 'B':
			res = append(res, errs(b.Barrier(func() { b.Record("barrier") })))
		case 'G':
			if !opened {
				opened = true
				open()
			}
			res = append(res, "ok")
		}
	}
	// settle: everything published has been routed
	res = append(res, errs(b.Flush()))
	if !opened {
		open()
	}
	return res
}

// alphabet returns the operations that may follow a script with nsubs subscriptions.
func alphabet(nsubs int, gateUsed bool) []Op {
	var a []Op
	if nsubs < 3 {
		a = append(a,
			Op{K: 'S', Subj: "t.a"},
			Op{K: 'S', Subj: "t.*"},
			Op{K: 'S', Subj: "r.1"},
			Op{K: 'Q', Subj: "t.a", Arg: "q"},
		)
		if !gateUsed {
			a = append(a, Op{K: 'S', Subj: "t.a", Gate: true})
		}
	}
	a = append(a,
		Op{K: 'P', Subj: "t.a", Arg: "x"},
		Op{K: 'P', Subj: "t.b", Arg: "y"},
		Op{K: 'R', Subj: "t.a", Rep: "r.1", Arg: "q"},
		Op{K: 'R', Subj: "t.z", Rep: "r.1", Arg: "n"},
		Op{K: 'F'},
		Op{K: 'B'},
	)
	if gateUsed {
		a = append(a, Op{K: 'G'})
	}
	for i := 0; i < nsubs; i++ {
		a = append(a, Op{K: 'U', I: i}, Op{K: 'D', I: i})
	}
	return a
}

// scripts enumerates every script of at most n operations that starts with a subscription; data of
// successive publishes is made distinct (x1, x2, ...) so that order and loss are observable.
func scripts(n int) []Script {
	var out []Script
	var rec func(cur Script, nsubs int, gate bool)
	rec = func(cur Script, nsubs int, gate bool) {
		if len(cur) > 0 {
			cp := make(Script, len(cur))
			copy(cp, cur)
			k := 0
			for i := range cp {
				if cp[i].K == 'P' || cp[i].K == 'R' {
					k++
					cp[i].Arg = fmt.Sprintf("%s%d", cp[i].Arg, k)
				}
			}
			out = append(out, cp)
		}
		if len(cur) == n {
			return
		}
		for _, o := range alphabet(nsubs, gate) {
			if len(cur) == 0 && o.K != 'S' && o.K != 'Q' {
				continue
			}
			ns, g := nsubs, gate
			if o.K == 'S' || o.K == 'Q' {
				ns++
				g = g || o.Gate
			}
			rec(append(cur, o), ns, g)
		}
	}
	rec(nil, 0, false)
	return out
}

// curated longer scripts: the shapes lib/go actually produces (server shutdown, request / reply
// multiplexing on an inbox wildcard, subscriber teardown while a callback runs).
func curated() []Script {
	p := func(s, d string) Op { return Op{K: 'P', Subj: s, Arg: d} }
	return []Script{
		// NATS server Stop: drain every subscription, flush, barrier
		{{K: 'Q', Subj: "t.a", Arg: "q"}, p("t.a", "1"), p("t.a", "2"), {K: 'D', I: 0}, {K: 'F'}, {K: 'B'}, p("t.a", "3")},
		{{K: 'Q', Subj: "t.a", Arg: "q"}, {K: 'Q', Subj: "t.*", Arg: "q"}, p("t.a", "1"), p("t.a", "2"), {K: 'D', I: 0}, {K: 'D', I: 1}, {K: 'F'}, {K: 'B'}},
		{{K: 'S', Subj: "t.a", Gate: true}, p("t.a", "1"), p("t.a", "2"), {K: 'D', I: 0}, {K: 'F'}, {K: 'B'}, {K: 'G'}, p("t.a", "3")},
		// client transport: inbox wildcard, requests with and without responders
		{{K: 'S', Subj: "r.*"}, {K: 'R', Subj: "t.z", Rep: "r.1", Arg: "a"}, {K: 'R', Subj: "t.z", Rep: "r.2", Arg: "b"}, {K: 'F'}, {K: 'U', I: 0}},
		{{K: 'S', Subj: "r.*"}, {K: 'S', Subj: "t.a"}, {K: 'R', Subj: "t.a", Rep: "r.1", Arg: "a"}, {K: 'R', Subj: "t.z", Rep: "r.2", Arg: "b"}, p("r.1", "resp")},
		// subscriber teardown while a callback is running
		{{K: 'S', Subj: "t.a", Gate: true}, p("t.a", "1"), p("t.a", "2"), {K: 'F'}, {K: 'U', I: 0}, {K: 'G'}, p("t.a", "3")},
		{{K: 'S', Subj: "t.a", Gate: true}, p("t.a", "1"), p("t.a", "2"), {K: 'U', I: 0}, {K: 'U', I: 0}, {K: 'D', I: 0}},
		// queue group of two members plus a plain subscriber
		{{K: 'Q', Subj: "t.a", Arg: "q"}, {K: 'Q', Subj: "t.a", Arg: "q"}, {K: 'S', Subj: "t.a"}, p("t.a", "1"), p("t.a", "2")},
	}
}
