package main

import (
	"fmt"
	"sync"
	"time"

	"github.com/nats-io/nats-server/v2/server"
	"github.com/nats-io/nats.go"
)

// realBroker runs a script against nats.go + an embedded nats-server.
type realBroker struct {
	nc       *nats.Conn
	mu       sync.Mutex
	log      []string
	inflight int
	subs     []*nats.Subscription
}

type realSub struct{ s *nats.Subscription }

func (r realSub) Unsubscribe() error { return r.s.Unsubscribe() }
func (r realSub) Drain() error       { return r.s.Drain() }

func (b *realBroker) Subscribe(subj, queue string, cb func(subj, reply, status string, data []byte)) (Sub, error) {
	h := func(m *nats.Msg) {
		b.mu.Lock()
		b.inflight++
		b.mu.Unlock()
		cb(m.Subject, m.Reply, m.Header.Get("Status"), m.Data)
		b.mu.Lock()
		b.inflight--
		b.mu.Unlock()
	}
	var s *nats.Subscription
	var err error
	if queue == "" {
		s, err = b.nc.Subscribe(subj, h)
	} else {
		s, err = b.nc.QueueSubscribe(subj, queue, h)
	}
	if err != nil {
		return realSub{}, err
	}
	b.subs = append(b.subs, s)
	return realSub{s}, nil
}
func (b *realBroker) Publish(subj string, data []byte) error { return b.nc.Publish(subj, data) }
func (b *realBroker) PublishRequest(subj, reply string, data []byte) error {
	return b.nc.PublishRequest(subj, reply, data)
}
func (b *realBroker) Flush() error           { return b.nc.Flush() }
func (b *realBroker) Barrier(f func()) error { return b.nc.Barrier(f) }
func (b *realBroker) NewGate() (func(), func()) {
	g := make(chan struct{})
	return func() { <-g }, func() { close(g) }
}
func (b *realBroker) Record(s string) {
	b.mu.Lock()
	b.log = append(b.log, s)
	b.mu.Unlock()
}

func (b *realBroker) snapshot() (int, int) {
	b.mu.Lock()
	defer b.mu.Unlock()
	return len(b.log), b.inflight
}

// settle waits until nothing is pending, no callback is running and the log has not grown for a
// while. It reports false when that does not happen within the (generous) limit; such a run is
// counted as inconclusive, never as a mismatch.
func (b *realBroker) settle() bool {
	deadline := time.Now().Add(10 * time.Second)
	stableSince := time.Now()
	lastLen := -1
	for time.Now().Before(deadline) {
		n, fl := b.snapshot()
		pend := 0
		for _, s := range b.subs {
			if s.IsValid() {
				if p, _, err := s.Pending(); err == nil {
					pend += p
				}
			}
		}
		if n != lastLen || fl != 0 || pend != 0 {
			lastLen = n
			stableSince = time.Now()
		} else if time.Since(stableSince) > 25*time.Millisecond {
			return true
		}
		time.Sleep(time.Millisecond)
	}
	return false
}

func startServer() (*server.Server, error) {
	s, err := server.NewServer(&server.Options{Host: "127.0.0.1", Port: -1, NoLog: true, NoSigs: true})
	if err != nil {
		return nil, err
	}
	go s.Start()
	if !s.ReadyForConnections(10 * time.Second) {
		return nil, fmt.Errorf("embedded nats-server did not become ready")
	}
	return s, nil
}

var runCtr struct {
	sync.Mutex
	n int
}

// realOutcome runs the script once on a fresh connection with subjects private to the run.
func realOutcome(url string, sc Script) (string, bool, error) {
	nc, err := nats.Connect(url)
	if err != nil {
		return "", false, err
	}
	defer nc.Close()
	runCtr.Lock()
	runCtr.n++
	prefix := fmt.Sprintf("c%d.", runCtr.n)
	runCtr.Unlock()
	b := &realBroker{nc: nc}
	res := runScript(b, sc, prefix)
	ok := b.settle()
	b.mu.Lock()
	out := outcome(res, b.log)
	b.mu.Unlock()
	return out, ok, nil
}
