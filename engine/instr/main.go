// Command instr instruments a Go package for the vsched controlled scheduler.
//
//	instr -dir <pkgdir> [-tags verif] [-rewrite from=to:name ...] [-maprange] [-skip file.go,...]
//
// It type-checks the package in <pkgdir> (which must already be a scratch copy), rewrites every
// non-test file in place: imports of sync, sync/atomic, time and context (plus -rewrite pairs) are
// redirected to the shims, and go / send / receive / select / close / range-over-channel become
// vsched calls. With -maprange, `for k, v := range m` over maps is redirected through
// vsched.MapKeys so that the explorer owns the iteration order.
package main

import (
	"bytes"
	"flag"
	"fmt"
	"go/ast"
	"go/format"
	"go/token"
	"go/types"
	"os"
	"path/filepath"
	"strconv"
	"strings"

	"golang.org/x/tools/go/ast/astutil"
	"golang.org/x/tools/go/packages"
)

type rewrites map[string][2]string // import path -> (new path, local name)

var (
	dir      = flag.String("dir", ".", "package directory (scratch copy, rewritten in place)")
	tags     = flag.String("tags", "verif", "build tags for loading")
	mapRange = flag.Bool("maprange", false, "rewrite range-over-map loops only (compiler tree mode)")
	skip     = flag.String("skip", "", "comma separated base names not to rewrite")
	pattern  = flag.String("pattern", ".", "package pattern(s), space separated")
	noStd    = flag.Bool("nostd", false, "do not redirect sync/time/context imports")
)

type rwFlag struct{ m rewrites }

func (r *rwFlag) String() string { return "" }
func (r *rwFlag) Set(s string) error {
	eq := strings.Index(s, "=")
	if eq < 0 {
		return fmt.Errorf("bad -rewrite %q", s)
	}
	from, rest := s[:eq], s[eq+1:]
	name := ""
	if c := strings.LastIndex(rest, ":"); c >= 0 {
		rest, name = rest[:c], rest[c+1:]
	}
	r.m[from] = [2]string{rest, name}
	return nil
}

const vsPath = "verif/engine/vsched"
const vsName = "_vs"

func main() {
	rw := &rwFlag{m: rewrites{}}
	flag.Var(rw, "rewrite", "import rewrite from=to:localname (repeatable)")
	flag.Parse()
	if !*noStd && !*mapRange {
		rw.m["sync"] = [2]string{"verif/engine/vsched/vsync", "sync"}
		rw.m["sync/atomic"] = [2]string{"verif/engine/vsched/vatomic", "atomic"}
		rw.m["time"] = [2]string{"verif/engine/vsched/vtime", "time"}
		rw.m["context"] = [2]string{"verif/engine/vsched/vctx", "context"}
	}
	skipSet := map[string]bool{}
	for _, s := range strings.Split(*skip, ",") {
		if s != "" {
			skipSet[s] = true
		}
	}
	cfg := &packages.Config{
		Mode: packages.NeedName | packages.NeedFiles | packages.NeedCompiledGoFiles | packages.NeedSyntax |
			packages.NeedTypes | packages.NeedTypesInfo | packages.NeedImports | packages.NeedDeps,
		Dir:        *dir,
		BuildFlags: []string{"-tags=" + *tags},
		Env:        append(os.Environ(), "GOFLAGS=-mod=mod", "GOPROXY=off", "GOSUMDB=off", "GOTOOLCHAIN=local"),
	}
	pkgs, err := packages.Load(cfg, strings.Fields(*pattern)...)
	if err != nil {
		fatal("load: %v", err)
	}
	nerr := 0
	for _, p := range pkgs {
		for _, e := range p.Errors {
			fmt.Fprintln(os.Stderr, "instr: type error:", e)
			nerr++
		}
	}
	if nerr > 0 {
		fatal("package does not type-check")
	}
	nfiles, nsites := 0, 0
	for _, p := range pkgs {
		for i, f := range p.Syntax {
			name := p.CompiledGoFiles[i]
			if strings.HasSuffix(name, "_test.go") || skipSet[filepath.Base(name)] {
				continue
			}
			in := &inst{fset: p.Fset, info: p.TypesInfo, file: f, rw: rw.m, pkg: p.Types}
			if *mapRange {
				in.rewriteMapRanges()
			} else {
				in.rewrite()
			}
			if in.sites == 0 && !in.importsChanged {
				continue
			}
			f.Comments = nil
			var buf bytes.Buffer
			if err := format.Node(&buf, p.Fset, f); err != nil {
				fatal("print %s: %v", name, err)
			}
			if err := os.WriteFile(name, buf.Bytes(), 0o644); err != nil {
				fatal("write: %v", err)
			}
			nfiles++
			nsites += in.sites
		}
	}
	fmt.Printf("instr: %d files rewritten, %d sites\n", nfiles, nsites)
}

func fatal(f string, a ...interface{}) {
	fmt.Fprintf(os.Stderr, "instr: "+f+"\n", a...)
	os.Exit(2)
}

type inst struct {
	fset           *token.FileSet
	info           *types.Info
	pkg            *types.Package
	file           *ast.File
	rw             rewrites
	sites          int
	importsChanged bool
	usesVS         bool
	tmp            int
	selBlocks      map[*ast.BlockStmt]*ast.SwitchStmt
}

func (in *inst) fresh(p string) *ast.Ident {
	in.tmp++
	return ast.NewIdent(fmt.Sprintf("_vs_%s%d", p, in.tmp))
}

func (in *inst) vs(name string) ast.Expr {
	in.usesVS = true
	return &ast.SelectorExpr{X: ast.NewIdent(vsName), Sel: ast.NewIdent(name)}
}

func (in *inst) call(name string, args ...ast.Expr) *ast.CallExpr {
	return &ast.CallExpr{Fun: in.vs(name), Args: args}
}

func isChan(t types.Type) bool {
	if t == nil {
		return false
	}
	_, ok := t.Underlying().(*types.Chan)
	return ok
}

func (in *inst) isBuiltin(e ast.Expr, name string) bool {
	id, ok := e.(*ast.Ident)
	if !ok || id.Name != name {
		return false
	}
	_, ok = in.info.Uses[id].(*types.Builtin)
	return ok
}

func (in *inst) rewriteImports() {
	for _, imp := range in.file.Imports {
		path, _ := strconv.Unquote(imp.Path.Value)
		if to, ok := in.rw[path]; ok {
			imp.Path.Value = strconv.Quote(to[0])
			if imp.Name == nil && to[1] != "" {
				imp.Name = ast.NewIdent(to[1])
			}
			in.importsChanged = true
		}
	}
}

func (in *inst) addVSImport() {
	if !in.usesVS {
		return
	}
	for _, imp := range in.file.Imports {
		if p, _ := strconv.Unquote(imp.Path.Value); p == vsPath && imp.Name != nil && imp.Name.Name == vsName {
			return
		}
	}
	spec := &ast.ImportSpec{Name: ast.NewIdent(vsName), Path: &ast.BasicLit{Kind: token.STRING, Value: strconv.Quote(vsPath)}}
	decl := &ast.GenDecl{Tok: token.IMPORT, Specs: []ast.Spec{spec}}
	in.file.Decls = append([]ast.Decl{decl}, in.file.Decls...)
	in.file.Imports = append(in.file.Imports, spec)
	in.importsChanged = true
}

func (in *inst) rewrite() {
	in.rewriteImports()
	in.selBlocks = map[*ast.BlockStmt]*ast.SwitchStmt{}
	// communication clauses are handled by the select rule, not the send/recv rules
	commNodes := map[ast.Node]bool{}
	ast.Inspect(in.file, func(n ast.Node) bool {
		if cc, ok := n.(*ast.CommClause); ok && cc.Comm != nil {
			commNodes[cc.Comm] = true
			switch s := cc.Comm.(type) {
			case *ast.ExprStmt:
				commNodes[unparen(s.X)] = true
			case *ast.AssignStmt:
				if len(s.Rhs) == 1 {
					commNodes[unparen(s.Rhs[0])] = true
				}
			}
		}
		return true
	})
	astutil.Apply(in.file, nil, func(c *astutil.Cursor) bool {
		switch n := c.Node().(type) {
		case *ast.GoStmt:
			c.Replace(in.goStmt(n))
			in.sites++
		case *ast.SendStmt:
			if commNodes[n] {
				return true
			}
			// SendTo(ch)(v): the element type is inferred from the channel alone, so a value that is
			// merely assignable to it (an untyped constant, a concrete type for an interface element)
			// converts like in the original statement
			c.Replace(&ast.ExprStmt{X: &ast.CallExpr{Fun: in.call("SendTo", n.Chan), Args: []ast.Expr{n.Value}}})
			in.sites++
		case *ast.UnaryExpr:
			if n.Op != token.ARROW || commNodes[n] {
				return true
			}
			name := "Recv"
			if as, ok := c.Parent().(*ast.AssignStmt); ok && len(as.Lhs) == 2 && len(as.Rhs) == 1 {
				name = "Recv2"
			}
			if vs, ok := c.Parent().(*ast.ValueSpec); ok && len(vs.Names) == 2 && len(vs.Values) == 1 {
				name = "Recv2"
			}
			c.Replace(in.call(name, n.X))
			in.sites++
		case *ast.ParenExpr:
			// (<-ch) in a two-value context is not supported by Go either; nothing to do
		case *ast.CallExpr:
			if len(n.Args) == 1 && in.isBuiltin(n.Fun, "close") {
				n.Fun = in.vs("Close")
				in.sites++
			} else if len(n.Args) == 1 && in.isBuiltin(n.Fun, "len") && isChan(in.info.TypeOf(n.Args[0])) {
				n.Fun = in.vs("ChanLen")
				in.sites++
			}
		case *ast.SelectStmt:
			c.Replace(in.selectStmt(n))
			in.sites++
		case *ast.RangeStmt:
			if isChan(in.info.TypeOf(n.X)) {
				c.Replace(in.rangeChan(n))
				in.sites++
			}
		case *ast.LabeledStmt:
			if b, ok := n.Stmt.(*ast.BlockStmt); ok {
				if sw, ok := in.selBlocks[b]; ok {
					// move the label from the block onto the generated switch
					for i, s := range b.List {
						if s == ast.Stmt(sw) {
							b.List[i] = &ast.LabeledStmt{Label: n.Label, Stmt: sw}
						}
					}
					c.Replace(b)
				}
			}
		}
		return true
	})
	in.addVSImport()
}

func unparen(e ast.Expr) ast.Expr {
	for {
		p, ok := e.(*ast.ParenExpr)
		if !ok {
			return e
		}
		e = p.X
	}
}

// hoistable reports whether an argument must be evaluated at the go statement (not a constant/nil).
func (in *inst) hoistable(e ast.Expr) bool {
	tv, ok := in.info.Types[e]
	if !ok {
		return false
	}
	if tv.Value != nil || tv.IsNil() || tv.IsType() {
		return false
	}
	if b, ok := tv.Type.(*types.Basic); ok && b.Info()&types.IsUntyped != 0 {
		return false
	}
	if _, ok := e.(*ast.FuncLit); ok {
		return false
	}
	return true
}

func (in *inst) goStmt(g *ast.GoStmt) ast.Stmt {
	call := g.Call
	var pre []ast.Stmt
	newArgs := make([]ast.Expr, len(call.Args))
	for i, a := range call.Args {
		if in.hoistable(a) {
			id := in.fresh("a")
			pre = append(pre, &ast.AssignStmt{Lhs: []ast.Expr{id}, Tok: token.DEFINE, Rhs: []ast.Expr{a}})
			newArgs[i] = id
		} else {
			newArgs[i] = a
		}
	}
	inner := &ast.CallExpr{Fun: call.Fun, Args: newArgs, Ellipsis: call.Ellipsis}
	var goCall ast.Expr
	if fl, ok := call.Fun.(*ast.FuncLit); ok && len(call.Args) == 0 && fl.Type.Results == nil {
		goCall = in.call("Go", fl)
	} else {
		lit := &ast.FuncLit{Type: &ast.FuncType{Params: &ast.FieldList{}}, Body: &ast.BlockStmt{List: []ast.Stmt{&ast.ExprStmt{X: inner}}}}
		goCall = in.call("Go", lit)
	}
	st := &ast.ExprStmt{X: goCall}
	if len(pre) == 0 {
		return st
	}
	return &ast.BlockStmt{List: append(pre, st)}
}

func (in *inst) selectStmt(s *ast.SelectStmt) ast.Stmt {
	var decls []ast.Stmt
	var caseVars []ast.Expr
	hasDefault := false
	sw := &ast.SwitchStmt{Body: &ast.BlockStmt{}}
	idx := 0
	for _, cl := range s.Body.List {
		cc := cl.(*ast.CommClause)
		if cc.Comm == nil {
			hasDefault = true
			sw.Body.List = append(sw.Body.List, &ast.CaseClause{List: nil, Body: cc.Body})
			continue
		}
		cv := in.fresh("c")
		var bind ast.Stmt
		switch c := cc.Comm.(type) {
		case *ast.SendStmt:
			decls = append(decls, &ast.AssignStmt{Lhs: []ast.Expr{cv}, Tok: token.DEFINE, Rhs: []ast.Expr{&ast.CallExpr{Fun: in.call("NewSendTo", c.Chan), Args: []ast.Expr{c.Value}}}})
		case *ast.ExprStmt:
			u := unparen(c.X).(*ast.UnaryExpr)
			decls = append(decls, &ast.AssignStmt{Lhs: []ast.Expr{cv}, Tok: token.DEFINE, Rhs: []ast.Expr{in.call("NewRecv", u.X)}})
		case *ast.AssignStmt:
			u := unparen(c.Rhs[0]).(*ast.UnaryExpr)
			decls = append(decls, &ast.AssignStmt{Lhs: []ast.Expr{cv}, Tok: token.DEFINE, Rhs: []ast.Expr{in.call("NewRecv", u.X)}})
			rhs := []ast.Expr{&ast.SelectorExpr{X: cv, Sel: ast.NewIdent("Val")}}
			if len(c.Lhs) == 2 {
				rhs = append(rhs, &ast.SelectorExpr{X: cv, Sel: ast.NewIdent("Ok")})
			}
			allBlank := true
			for _, l := range c.Lhs {
				if id, ok := l.(*ast.Ident); !ok || id.Name != "_" {
					allBlank = false
				}
			}
			tok := c.Tok
			if allBlank {
				tok = token.ASSIGN
			}
			bind = &ast.AssignStmt{Lhs: c.Lhs, Tok: tok, Rhs: rhs}
		}
		caseVars = append(caseVars, cv)
		body := cc.Body
		if bind != nil {
			body = append([]ast.Stmt{bind}, body...)
			// a variable bound by the clause may be unused only if it is blank, as in the original
		}
		sw.Body.List = append(sw.Body.List, &ast.CaseClause{
			List: []ast.Expr{&ast.BasicLit{Kind: token.INT, Value: strconv.Itoa(idx)}}, Body: body})
		idx++
	}
	def := "false"
	if hasDefault {
		def = "true"
	} else {
		// keeps the switch a terminating statement exactly when the select was one
		sw.Body.List = append(sw.Body.List, &ast.CaseClause{List: nil, Body: []ast.Stmt{
			&ast.ExprStmt{X: &ast.CallExpr{Fun: ast.NewIdent("panic"), Args: []ast.Expr{&ast.BasicLit{Kind: token.STRING, Value: strconv.Quote("vsched: unreachable select arm")}}}}}})
	}
	args := append([]ast.Expr{ast.NewIdent(def)}, caseVars...)
	sw.Tag = in.call("Select", args...)
	blk := &ast.BlockStmt{List: append(decls, sw)}
	in.selBlocks[blk] = sw
	return blk
}

func (in *inst) rangeChan(r *ast.RangeStmt) ast.Stmt {
	ok := in.fresh("ok")
	var lhs ast.Expr = ast.NewIdent("_")
	var post ast.Stmt
	if r.Key != nil {
		if r.Tok == token.DEFINE {
			lhs = r.Key
		} else {
			v := in.fresh("v")
			lhs = v
			post = &ast.AssignStmt{Lhs: []ast.Expr{r.Key}, Tok: token.ASSIGN, Rhs: []ast.Expr{v}}
		}
	}
	recv := &ast.AssignStmt{Lhs: []ast.Expr{lhs, ok}, Tok: token.DEFINE, Rhs: []ast.Expr{in.call("Recv2", r.X)}}
	brk := &ast.IfStmt{Cond: &ast.UnaryExpr{Op: token.NOT, X: ok}, Body: &ast.BlockStmt{List: []ast.Stmt{&ast.BranchStmt{Tok: token.BREAK}}}}
	list := []ast.Stmt{recv, brk}
	if post != nil {
		list = append(list, post)
	}
	list = append(list, r.Body.List...)
	return &ast.ForStmt{Body: &ast.BlockStmt{List: list}}
}

// rewriteMapRanges redirects range-over-map loops through vsched.MapKeys.
func (in *inst) rewriteMapRanges() {
	astutil.Apply(in.file, nil, func(c *astutil.Cursor) bool {
		r, ok := c.Node().(*ast.RangeStmt)
		if !ok {
			return true
		}
		t := in.info.TypeOf(r.X)
		if t == nil {
			return true
		}
		if _, ok := t.Underlying().(*types.Map); !ok {
			return true
		}
		if r.Key == nil {
			return true // iteration count only: order-independent
		}
		m := in.fresh("m")
		k := in.fresh("k")
		site := in.fset.Position(r.Pos())
		label := fmt.Sprintf("%s/%s:%d", filepath.Base(filepath.Dir(site.Filename)), filepath.Base(site.Filename), site.Line)
		hoist := &ast.AssignStmt{Lhs: []ast.Expr{m}, Tok: token.DEFINE, Rhs: []ast.Expr{r.X}}
		var body []ast.Stmt
		keyIsBlank := false
		if id, ok := r.Key.(*ast.Ident); ok && id.Name == "_" {
			keyIsBlank = true
		}
		if !keyIsBlank {
			body = append(body, &ast.AssignStmt{Lhs: []ast.Expr{r.Key}, Tok: r.Tok, Rhs: []ast.Expr{k}})
			if r.Tok == token.DEFINE {
				body = append(body, &ast.AssignStmt{Lhs: []ast.Expr{ast.NewIdent("_")}, Tok: token.ASSIGN, Rhs: []ast.Expr{r.Key}})
			}
		}
		if r.Value != nil {
			isBlank := false
			if id, ok := r.Value.(*ast.Ident); ok && id.Name == "_" {
				isBlank = true
			}
			if !isBlank {
				body = append(body, &ast.AssignStmt{Lhs: []ast.Expr{r.Value}, Tok: r.Tok, Rhs: []ast.Expr{&ast.IndexExpr{X: m, Index: k}}})
				if r.Tok == token.DEFINE {
					body = append(body, &ast.AssignStmt{Lhs: []ast.Expr{ast.NewIdent("_")}, Tok: token.ASSIGN, Rhs: []ast.Expr{r.Value}})
				}
			}
		}
		body = append(body, r.Body.List...)
		loop := &ast.RangeStmt{Key: ast.NewIdent("_"), Value: k, Tok: token.DEFINE,
			X:    in.call("MapKeys", m, &ast.BasicLit{Kind: token.STRING, Value: strconv.Quote(label)}),
			Body: &ast.BlockStmt{List: body}}
		if lb, ok := c.Parent().(*ast.LabeledStmt); ok {
			_ = lb
			// keep the label on the loop: hoist the map expression into the range operand instead
			loop.X = in.call("MapKeys", r.X, &ast.BasicLit{Kind: token.STRING, Value: strconv.Quote(label)})
			// value lookups need the map again; re-evaluate the operand (pure in practice)
			for _, s := range body {
				if as, ok := s.(*ast.AssignStmt); ok && len(as.Rhs) == 1 {
					if ie, ok := as.Rhs[0].(*ast.IndexExpr); ok && ie.X == ast.Expr(m) {
						ie.X = r.X
					}
				}
			}
			c.Replace(loop)
		} else {
			c.Replace(&ast.BlockStmt{List: []ast.Stmt{hoist, loop}})
		}
		in.sites++
		return true
	})
	in.addVSImport()
}
