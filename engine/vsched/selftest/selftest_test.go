package selftest

import (
	"fmt"
	"testing"

	"verif/engine/vsched"
	"verif/engine/vsched/vsync"
	"verif/engine/vsched/vtime"
)

// lost update: load; store without a lock, through a channel-protected section in one variant
func TestLostUpdate(t *testing.T) {
	for _, bound := range []int{0, 1, 2, -1} {
		var final int
		x := &vsched.Explorer{Bound: bound, Prune: bound < 0,
			Body: func() {
				var mu vsync.Mutex
				n := 0
				var wg vsync.WaitGroup
				wg.Add(2)
				for i := 0; i < 2; i++ {
					vsched.Go(func() {
						mu.Lock()
						v := n
						mu.Unlock()
						mu.Lock()
						n = v + 1
						mu.Unlock()
						wg.Done()
					})
				}
				wg.Wait()
				final = n
			},
			Check: func(e *vsched.Exec) (string, *vsched.Violation) {
				out := fmt.Sprintf("n=%d %s", final, e.Status)
				if final != 2 {
					return out, &vsched.Violation{Key: "lost", Msg: out}
				}
				return out, nil
			}}
		x.Explore()
		t.Logf("bound=%d execs=%d pruned=%d states=%d outcomes=%v viol=%d", bound, x.Stats.Execs, x.Stats.Pruned, x.Stats.States, x.Stats.Outcomes, len(x.Violations))
		if bound != 0 && len(x.Violations) == 0 {
			t.Fatalf("bound %d: lost update not found", bound)
		}
		if bound == 0 && len(x.Violations) != 0 {
			t.Fatalf("bound 0 should not find it")
		}
		if len(x.Violations) > 0 {
			_, out, v, err := x.Replay(x.Violations[0].Choices)
			if err != nil || v == nil {
				t.Fatalf("replay: %v %v %s", err, v, out)
			}
		}
	}
}

func TestChanSelectTimer(t *testing.T) {
	var got string
	x := &vsched.Explorer{Bound: 1,
		Body: func() {
			got = ""
			res := make(chan int, 1)
			unb := make(chan string)
			vsched.Go(func() { vsched.Send(res, 7) })
			vsched.Go(func() { vsched.Send(unb, "hi") })
			tm := vtime.After(5 * vtime.Millisecond)
			r := vsched.NewRecv(res)
			u := vsched.NewRecv(unb)
			tc := vsched.NewRecv(tm)
			switch vsched.Select(false, r, u, tc) {
			case 0:
				got = fmt.Sprint("res", r.Val)
			case 1:
				got = "unb" + u.Val
			case 2:
				got = "timeout"
			}
		},
		Check: func(e *vsched.Exec) (string, *vsched.Violation) {
			bl := e.Blocked()
			return fmt.Sprintf("%s blocked=%d", got, len(bl)), nil
		}}
	x.Explore()
	t.Logf("execs=%d outcomes=%v", x.Stats.Execs, x.Stats.Outcomes)
	if len(x.Stats.Outcomes) < 3 {
		t.Fatalf("expected >=3 outcomes")
	}
}

func TestDeadlockDetected(t *testing.T) {
	x := &vsched.Explorer{Bound: 2,
		Body: func() {
			var a, b vsync.Mutex
			done := make(chan bool, 2)
			vsched.Go(func() { a.Lock(); b.Lock(); b.Unlock(); a.Unlock(); vsched.Send(done, true) })
			vsched.Go(func() { b.Lock(); a.Lock(); a.Unlock(); b.Unlock(); vsched.Send(done, true) })
			vsched.Recv(done)
			vsched.Recv(done)
		},
		Check: func(e *vsched.Exec) (string, *vsched.Violation) {
			for _, b := range e.Blocked() {
				if b.FG {
					return "deadlock", &vsched.Violation{Key: "dl", Msg: fmt.Sprint(e.Blocked())}
				}
			}
			return "ok", nil
		}}
	x.Explore()
	t.Logf("execs=%d outcomes=%v", x.Stats.Execs, x.Stats.Outcomes)
	if len(x.Violations) == 0 {
		t.Fatal("deadlock not found")
	}
}

// A recursive read lock deadlocks exactly when a writer announces itself between the two RLocks
// (sync.RWMutex's writer preference); with no writer around it must never deadlock.
func TestRecursiveRLockWriterPreference(t *testing.T) {
	run := func(withWriter bool) (int, map[string]int) {
		x := &vsched.Explorer{Bound: 2,
			Body: func() {
				var m vsync.RWMutex
				done := make(chan bool, 2)
				vsched.Go(func() { m.RLock(); m.RLock(); m.RUnlock(); m.RUnlock(); vsched.Send(done, true) })
				n := 1
				if withWriter {
					n = 2
					vsched.Go(func() { m.Lock(); m.Unlock(); vsched.Send(done, true) })
				}
				for i := 0; i < n; i++ {
					vsched.Recv(done)
				}
			},
			Check: func(e *vsched.Exec) (string, *vsched.Violation) {
				for _, b := range e.Blocked() {
					if b.FG {
						return "deadlock", &vsched.Violation{Key: "dl", Msg: fmt.Sprint(e.Blocked())}
					}
				}
				return "ok", nil
			}}
		x.Explore()
		return len(x.Violations), x.Stats.Outcomes
	}
	if n, out := run(true); n == 0 || out["ok"] == 0 {
		t.Fatalf("with a writer: want both deadlocking and completing schedules, got %v", out)
	}
	if n, out := run(false); n != 0 {
		t.Fatalf("without a writer: recursive RLock must not deadlock, got %v", out)
	}
}

// A non-blocking send (select with default) may overtake a receiver that has announced itself but
// is only about to block: with one deviation the default branch must be reachable, with none not.
func TestTrySendMayOvertakeReceiver(t *testing.T) {
	run := func(bound int) map[string]int {
		x := &vsched.Explorer{Bound: bound,
			Body: func() {
				ch := make(chan int)
				ready := make(chan bool, 1)
				got := make(chan string, 1)
				vsched.Go(func() { vsched.Send(ready, true); vsched.Recv(ch) })
				vsched.Go(func() {
					vsched.Recv(ready)
					if vsched.Select(true, vsched.NewSend(ch, 1)) == 0 {
						vsched.Send(got, "sent")
					} else {
						vsched.Send(got, "default")
					}
				})
				vsched.Note(vsched.Recv(got))
			},
			Check: func(e *vsched.Exec) (string, *vsched.Violation) { return fmt.Sprint(e.Log), nil }}
		x.Explore()
		return x.Stats.Outcomes
	}
	if out := run(0); out["[sent]"] == 0 || out["[default]"] != 0 {
		t.Fatalf("bound 0: want only the rendezvous, got %v", out)
	}
	if out := run(1); out["[sent]"] == 0 || out["[default]"] == 0 {
		t.Fatalf("bound 1: want both outcomes, got %v", out)
	}
}

// Bare yields must not make two positions of a thread look like one state: a violation that needs
// the thread to get past several yields has to be found with pruning on.
func TestYieldsDoNotCollapseStates(t *testing.T) {
	x := &vsched.Explorer{Bound: 0, Prune: true,
		Body: func() {
			n := 0
			done := make(chan bool, 1)
			vsched.Go(func() {
				for i := 0; i < 5; i++ {
					vsched.Yield()
					n++
				}
				vsched.Send(done, true)
			})
			vsched.Recv(done)
			vsched.Note(fmt.Sprint(n))
		},
		Check: func(e *vsched.Exec) (string, *vsched.Violation) { return fmt.Sprint(e.Log), nil }}
	x.Explore()
	if x.Stats.Outcomes["[5]"] == 0 {
		t.Fatalf("the execution never completed: %v (execs %d)", x.Stats.Outcomes, x.Stats.Execs)
	}
}
