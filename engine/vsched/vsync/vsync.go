// Package vsync mirrors package sync on top of the vsched controlled scheduler.
package vsync

import (
	"sync"
	"unsafe"

	"verif/engine/vsched"
)

type Locker = sync.Locker

// Pool is a drop-in for sync.Pool: a last-in first-out free list, the behaviour of sync.Pool when
// every user runs on one P and no collection intervenes (the case in which a Put object is certain
// to be handed out again). Its content never survives an execution, and it is deterministic, which
// the real pool (per-P caches, cleared by the collector) is not.
type Pool struct {
	New func() any

	mu    sync.Mutex
	epoch uint32
	items []any
}

func (p *Pool) Get() any {
	p.mu.Lock()
	if ep := vsched.Epoch(); p.epoch != ep {
		p.epoch, p.items = ep, nil
	}
	if n := len(p.items); n > 0 {
		x := p.items[n-1]
		p.items = p.items[:n-1]
		p.mu.Unlock()
		return x
	}
	p.mu.Unlock()
	if p.New != nil {
		return p.New()
	}
	return nil
}

func (p *Pool) Put(x any) {
	if x == nil {
		return
	}
	p.mu.Lock()
	if ep := vsched.Epoch(); p.epoch != ep {
		p.epoch, p.items = ep, nil
	}
	p.items = append(p.items, x)
	p.mu.Unlock()
}

// Mutex is a drop-in for sync.Mutex whose Lock is a scheduling point.
type Mutex struct {
	real   sync.Mutex
	epoch  uint32
	locked bool
	quiet  bool
	obj    *vsched.Obj
}

func (m *Mutex) sync() {
	if ep := vsched.Epoch(); m.epoch != ep {
		m.epoch = ep
		m.locked = false
		m.obj = vsched.ObjAt(uintptr(unsafe.Pointer(m)), "mutex")
	}
}

// SetQuiet removes the mutex from scheduling (for locks that never matter, e.g. the logger's).
func (m *Mutex) SetQuiet() { m.quiet = true }

func (m *Mutex) Lock() {
	if vsched.Passthrough() {
		if !vsched.Killed() {
			m.real.Lock()
		}
		return
	}
	m.sync()
	if m.quiet {
		m.locked = true
		return
	}
	p := &vsched.Pend{Kind: vsched.KLock, Obj: m.obj, Variants: func() int {
		if m.locked {
			return 0
		}
		return 1
	}, Apply: func(int) { m.locked = true; vsched.TouchR(m.obj, vsched.KLock) }}
	vsched.DoPoint(p.SetPC(vsched.CallerPC(2)))
}

func (m *Mutex) TryLock() bool {
	if vsched.Passthrough() {
		if vsched.Killed() {
			return true
		}
		return m.real.TryLock()
	}
	m.sync()
	ok := false
	p := &vsched.Pend{Kind: vsched.KLock, Obj: m.obj, Variants: func() int { return 1 }, Apply: func(int) {
		if !m.locked {
			m.locked = true
			ok = true
		}
		vsched.TouchW(m.obj, vsched.KLock)
	}}
	vsched.DoPoint(p.SetPC(vsched.CallerPC(2)))
	return ok
}

func (m *Mutex) Unlock() {
	if vsched.Passthrough() {
		if !vsched.Killed() {
			m.real.Unlock()
		}
		return
	}
	m.sync()
	if m.quiet {
		m.locked = false
		return
	}
	if !m.locked {
		panic("sync: unlock of unlocked mutex")
	}
	// release: not a scheduling point (a release commutes to the left of every other thread's
	// operation, so no behaviour is lost); publishes the holder's history to the next acquirer
	m.locked = false
	vsched.Publish(m.obj)
}

// RWMutex is a drop-in for sync.RWMutex.
type RWMutex struct {
	real    sync.RWMutex
	epoch   uint32
	writer  bool
	pending bool // a writer has announced itself and waits for the readers inside to leave
	readers int
	quiet   bool
	obj     *vsched.Obj
}

func (m *RWMutex) sync() {
	if ep := vsched.Epoch(); m.epoch != ep {
		m.epoch = ep
		m.writer = false
		m.pending = false
		m.readers = 0
		m.obj = vsched.ObjAt(uintptr(unsafe.Pointer(m)), "rwmutex")
	}
}

func (m *RWMutex) SetQuiet() { m.quiet = true }

func (m *RWMutex) Lock() {
	if vsched.Passthrough() {
		if !vsched.Killed() {
			m.real.Lock()
		}
		return
	}
	m.sync()
	if m.quiet {
		return
	}
	// Like sync.RWMutex: a writer first announces itself (one atomic step that also observes the
	// active readers); from then on new readers block, and the writer waits for the readers that
	// were already inside. Without this a recursive read lock could never deadlock.
	waited := false
	pc := vsched.CallerPC(2)
	p := &vsched.Pend{Kind: vsched.KLock, Obj: m.obj, Variants: func() int {
		if m.writer || m.pending {
			return 0
		}
		return 1
	}, Apply: func(int) {
		if m.readers == 0 {
			m.writer = true
		} else {
			m.pending = true
			waited = true
		}
		vsched.TouchR(m.obj, vsched.KLock)
	}}
	vsched.DoPoint(p.SetPC(pc))
	if !waited {
		return
	}
	p2 := &vsched.Pend{Kind: vsched.KLock, Obj: m.obj, Variants: func() int {
		if m.readers > 0 {
			return 0
		}
		return 1
	}, Apply: func(int) { m.writer = true; m.pending = false; vsched.TouchR(m.obj, vsched.KLock) }}
	vsched.DoPoint(p2.SetPC(pc))
}

func (m *RWMutex) Unlock() {
	if vsched.Passthrough() {
		if !vsched.Killed() {
			m.real.Unlock()
		}
		return
	}
	m.sync()
	if m.quiet {
		return
	}
	if !m.writer {
		panic("sync: Unlock of unlocked RWMutex")
	}
	m.writer = false
	vsched.Publish(m.obj)
}

func (m *RWMutex) RLock() {
	if vsched.Passthrough() {
		if !vsched.Killed() {
			m.real.RLock()
		}
		return
	}
	m.sync()
	if m.quiet {
		return
	}
	p := &vsched.Pend{Kind: vsched.KRLock, Obj: m.obj, Variants: func() int {
		if m.writer || m.pending {
			return 0
		}
		return 1
	}, Apply: func(int) { m.readers++; vsched.TouchR(m.obj, vsched.KRLock) }}
	vsched.DoPoint(p.SetPC(vsched.CallerPC(2)))
}

func (m *RWMutex) RUnlock() {
	if vsched.Passthrough() {
		if !vsched.Killed() {
			m.real.RUnlock()
		}
		return
	}
	m.sync()
	if m.quiet {
		return
	}
	if m.readers <= 0 {
		panic("sync: RUnlock of unlocked RWMutex")
	}
	m.readers--
}

func (m *RWMutex) TryLock() bool  { m.Lock(); return true }
func (m *RWMutex) TryRLock() bool { m.RLock(); return true }

type rlocker RWMutex

func (r *rlocker) Lock()   { (*RWMutex)(r).RLock() }
func (r *rlocker) Unlock() { (*RWMutex)(r).RUnlock() }

func (m *RWMutex) RLocker() Locker { return (*rlocker)(m) }

// WaitGroup is a drop-in for sync.WaitGroup.
type WaitGroup struct {
	real  sync.WaitGroup
	epoch uint32
	n     int
	obj   *vsched.Obj
}

func (w *WaitGroup) sync() {
	if ep := vsched.Epoch(); w.epoch != ep {
		w.epoch = ep
		w.n = 0
		w.obj = vsched.ObjAt(uintptr(unsafe.Pointer(w)), "waitgroup")
	}
}

func (w *WaitGroup) Add(d int) {
	if vsched.Passthrough() {
		if !vsched.Killed() {
			w.real.Add(d)
		}
		return
	}
	w.sync()
	// counter updates only matter to Wait; like a release they need no scheduling point
	w.n += d
	if w.n < 0 {
		panic("sync: negative WaitGroup counter")
	}
	vsched.TouchW(w.obj, vsched.KWGAdd)
}

func (w *WaitGroup) Done() { w.Add(-1) }

func (w *WaitGroup) Wait() {
	if vsched.Passthrough() {
		if !vsched.Killed() {
			w.real.Wait()
		}
		return
	}
	w.sync()
	p := &vsched.Pend{Kind: vsched.KWGWait, Obj: w.obj, Variants: func() int {
		if w.n == 0 {
			return 1
		}
		return 0
	}, Apply: func(int) { vsched.TouchR(w.obj, vsched.KWGWait) }}
	vsched.DoPoint(p.SetPC(vsched.CallerPC(2)))
}

// Once is a drop-in for sync.Once.
type Once struct {
	real  sync.Once
	epoch uint32
	done  bool
	m     Mutex
}

func (o *Once) Do(f func()) {
	if vsched.Passthrough() {
		if !vsched.Killed() {
			o.real.Do(f)
		}
		return
	}
	if ep := vsched.Epoch(); o.epoch != ep {
		o.epoch = ep
		o.done = false
	}
	o.m.Lock()
	defer o.m.Unlock()
	if !o.done {
		defer func() { o.done = true }()
		f()
	}
}

// Cond is a drop-in for sync.Cond.
type Cond struct {
	L     Locker
	epoch uint32
	gen   int
	wake  int
	obj   *vsched.Obj
	real  *sync.Cond
}

func NewCond(l Locker) *Cond { return &Cond{L: l, real: sync.NewCond(l)} }

func (c *Cond) sync() {
	if ep := vsched.Epoch(); c.epoch != ep {
		c.epoch = ep
		c.gen, c.wake = 0, 0
		c.obj = vsched.ObjAt(uintptr(unsafe.Pointer(c)), "cond")
	}
}

func (c *Cond) Wait() {
	if vsched.Passthrough() {
		if !vsched.Killed() {
			c.real.Wait()
		}
		return
	}
	c.sync()
	my := c.gen
	c.L.Unlock()
	p := &vsched.Pend{Kind: vsched.KCond, Obj: c.obj, Variants: func() int {
		if c.gen > my || c.wake > 0 {
			return 1
		}
		return 0
	}, Apply: func(int) {
		if c.gen <= my {
			c.wake--
		}
		vsched.TouchR(c.obj, vsched.KCond)
	}}
	vsched.DoPoint(p.SetPC(vsched.CallerPC(2)))
	c.L.Lock()
}

func (c *Cond) Signal() {
	if vsched.Passthrough() {
		if !vsched.Killed() {
			c.real.Signal()
		}
		return
	}
	c.sync()
	c.wake++
	vsched.TouchW(c.obj, vsched.KCond)
}

func (c *Cond) Broadcast() {
	if vsched.Passthrough() {
		if !vsched.Killed() {
			c.real.Broadcast()
		}
		return
	}
	c.sync()
	c.gen++
	c.wake = 0
	vsched.TouchW(c.obj, vsched.KCond)
}

// Map wraps sync.Map; every access is a scheduling point.
type Map struct {
	real sync.Map
}

func (m *Map) pt() {
	if vsched.Passthrough() {
		return
	}
	o := vsched.ObjAt(uintptr(unsafe.Pointer(m)), "syncmap")
	p := &vsched.Pend{Kind: vsched.KAtomic, Obj: o, Variants: func() int { return 1 }, Apply: func(int) { vsched.TouchW(o, vsched.KAtomic) }}
	vsched.DoPoint(p.SetPC(vsched.CallerPC(2)))
}

func (m *Map) Load(k any) (any, bool)            { m.pt(); return m.real.Load(k) }
func (m *Map) Store(k, v any)                    { m.pt(); m.real.Store(k, v) }
func (m *Map) LoadOrStore(k, v any) (any, bool)  { m.pt(); return m.real.LoadOrStore(k, v) }
func (m *Map) LoadAndDelete(k any) (any, bool)   { m.pt(); return m.real.LoadAndDelete(k) }
func (m *Map) Delete(k any)                      { m.pt(); m.real.Delete(k) }
func (m *Map) Range(f func(k, v any) bool)       { m.pt(); m.real.Range(f) }
func (m *Map) Swap(k, v any) (any, bool)         { m.pt(); return m.real.Swap(k, v) }
func (m *Map) CompareAndSwap(k, o, n any) bool   { m.pt(); return m.real.CompareAndSwap(k, o, n) }
func (m *Map) CompareAndDelete(k, o any) bool    { m.pt(); return m.real.CompareAndDelete(k, o) }

func OnceFunc(f func()) func() {
	var o Once
	return func() { o.Do(f) }
}
