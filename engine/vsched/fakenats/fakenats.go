// Package fakenats is an in-process model of the part of github.com/nats-io/nats.go (v1.33.1) that
// lib/go uses, written against the vsched scheduler so that broker-side nondeterminism (dispatcher
// progress, drain completion, queue-group member choice) is part of the explored space.
//
// Mirrored semantics (see nats.go waitForMsgs / checkDrained / Barrier):
//   - one dispatcher thread per asynchronous subscription delivers its pending list in FIFO order,
//     one callback at a time; the pending-message count drops only after the callback returned;
//   - Unsubscribe closes the subscription: pending messages are discarded, a running callback ends;
//   - Drain stops routing new messages to the subscription and a drainer removes it once the
//     pending count reaches zero;
//   - Barrier appends a sentinel to every asynchronous subscription; the last sentinel reached runs
//     f; with no subscription f runs synchronously;
//   - a request published to a subject without subscribers yields a 503 status message on the
//     reply subject.
package fakenats

import (
	"errors"
	"fmt"
	"strings"
	"time"

	"verif/engine/vsched"
)

type Status int

const (
	DISCONNECTED Status = iota
	CONNECTED
	CLOSED
	RECONNECTING
	CONNECTING
	DRAINING_SUBS
	DRAINING_PUBS
)

var (
	ErrConnectionClosed   = errors.New("nats: connection closed")
	ErrConnectionDraining = errors.New("nats: connection draining")
	ErrDrainTimeout       = errors.New("nats: draining connection timed out")
	ErrBadSubscription    = errors.New("nats: invalid subscription")
	ErrInvalidArg         = errors.New("nats: invalid argument")
	ErrBadSubject         = errors.New("nats: invalid subject")
	ErrMaxPayload         = errors.New("nats: maximum payload exceeded")
	ErrTimeout            = errors.New("nats: timeout")
	ErrNoResponders       = errors.New("nats: no responders available for request")
	ErrSlowConsumer       = errors.New("nats: slow consumer, messages dropped")
	ErrInvalidConnection  = errors.New("nats: invalid connection")
	ErrInvalidMsg         = errors.New("nats: invalid message or message nil")
	ErrBadTimeout         = errors.New("nats: timeout invalid")
)

// Defaults of nats.go that client code may refer to.
const (
	DefaultTimeout            = 2 * time.Second
	DefaultDrainTimeout       = 30 * time.Second
	DefaultPingInterval       = 2 * time.Minute
	DefaultReconnectWait      = 2 * time.Second
	DefaultMaxReconnect       = 60
	DefaultSubPendingMsgsLimit  = 512 * 1024
	DefaultSubPendingBytesLimit = 64 * 1024 * 1024
)

// Options mirrors the fields of nats.Options that are plain configuration values.
type Options struct {
	Url            string
	Name           string
	Timeout        time.Duration
	DrainTimeout   time.Duration
	FlusherTimeout time.Duration
	PingInterval   time.Duration
	ReconnectWait  time.Duration
	MaxReconnect   int
	AllowReconnect bool
}

type Header map[string][]string

func (h Header) Get(k string) string {
	if h == nil {
		return ""
	}
	if v := h[k]; len(v) > 0 {
		return v[0]
	}
	return ""
}
func (h Header) Set(k, v string) { h[k] = []string{v} }

type barrierInfo struct {
	refs int
	f    func()
}

type Msg struct {
	Subject string
	Reply   string
	Header  Header
	Data    []byte
	Sub     *Subscription
	barrier *barrierInfo
	Seq     int // publish sequence number (harness bookkeeping)
}

type MsgHandler func(msg *Msg)

type Conn struct {
	// Opts are the connection's options (nats.Conn.Opts); defaults as GetDefaultOptions gives them.
	Opts       Options
	obj        *vsched.Obj
	status     Status
	subs       []*Subscription
	Log        []*Msg // every message handed to the broker, in order
	seq        int
	subsEver   int
	MaxPayload int
	// StallPings: the broker has stopped answering PINGs (Flush runs into its timeout).
	StallPings bool
	// OnPublish lets a harness inject a failure.
	OnPublish func(subj, reply string, data []byte) error
	// Async: a published message travels to the server and back before it reaches a subscription's
	// pending list (what the real client and server do); the set of receiving subscriptions is fixed
	// in protocol order at publish time, the hand-over to the pending lists is a step of a separate
	// "network" thread, Flush and the drainer wait for everything published before them. With Async
	// off (the default) the round trip takes no time, which is one of the real behaviours.
	Async     bool
	inflight  []*flight
	nPub      int // messages handed to the network
	nArrived  int // messages that came back and were handed to their subscriptions
	netThread bool
}

type flight struct {
	m       *Msg
	targets []*Subscription
}

type Subscription struct {
	Subject   string
	Queue     string
	conn      *Conn
	cb        MsgHandler
	obj       *vsched.Obj
	pending   []*Msg
	pMsgs     int
	closed    bool
	draining  bool
	Delivered int
	// pending limits (nats.go: a message that arrives while more than msgLimit messages or bytesLimit
	// bytes wait for the callback is dropped — slow consumer —, not queued; <= 0 means no limit)
	msgLimit   int
	bytesLimit int
	Dropped    int
}

// SetPendingLimits mirrors nats.go: zero is not a valid limit, a negative one means unlimited.
func (s *Subscription) SetPendingLimits(msgLimit, bytesLimit int) error {
	s.obj.Write()
	if s.closed {
		return ErrBadSubscription
	}
	if msgLimit == 0 || bytesLimit == 0 {
		return ErrInvalidArg
	}
	s.msgLimit, s.bytesLimit = msgLimit, bytesLimit
	return nil
}

func (s *Subscription) PendingLimits() (int, int, error) {
	s.obj.Read()
	if s.closed {
		return 0, 0, ErrBadSubscription
	}
	return s.msgLimit, s.bytesLimit, nil
}


// NewConn returns a connected fake connection.
func NewConn() *Conn {
	return &Conn{obj: vsched.NewObj("natsconn"), status: CONNECTED, MaxPayload: 1024 * 1024,
		Opts: Options{Url: "nats://fake:4222", Timeout: DefaultTimeout, DrainTimeout: DefaultDrainTimeout, PingInterval: DefaultPingInterval,
			ReconnectWait: DefaultReconnectWait, MaxReconnect: DefaultMaxReconnect, AllowReconnect: true}}
}

func (c *Conn) IsConnected() bool { return c.Status() == CONNECTED }
func (c *Conn) IsClosed() bool    { return c.Status() == CLOSED }
func (c *Conn) IsDraining() bool  { s := c.Status(); return s == DRAINING_SUBS || s == DRAINING_PUBS }

// Respond publishes a reply to the message's reply subject.
func (m *Msg) Respond(data []byte) error {
	if m == nil || m.Sub == nil {
		return ErrInvalidMsg
	}
	if m.Reply == "" {
		return errors.New("nats: message does not have a reply")
	}
	return m.Sub.conn.Publish(m.Reply, data)
}

func (c *Conn) Status() Status { c.obj.Read(); return c.status }

// SetStatus is a harness hook.
func (c *Conn) SetStatus(s Status) { c.obj.Write(); c.status = s }

var inboxCtr int
var inboxEpoch uint32

func NewInbox() string {
	if ep := vsched.Epoch(); ep != inboxEpoch {
		inboxEpoch = ep
		inboxCtr = 0
	}
	inboxCtr++
	return fmt.Sprintf("_INBOX.%d", inboxCtr)
}

func (c *Conn) Subscribe(subj string, cb MsgHandler) (*Subscription, error) {
	return c.QueueSubscribe(subj, "", cb)
}

func (c *Conn) QueueSubscribe(subj, queue string, cb MsgHandler) (*Subscription, error) {
	if c.status != CONNECTED {
		return nil, ErrConnectionClosed
	}
	if subj == "" {
		return nil, ErrBadSubject
	}
	vsched.Yield()
	s := &Subscription{Subject: subj, Queue: queue, conn: c, cb: cb, obj: vsched.NewObj("natssub")}
	c.obj.Write()
	c.subs = append(c.subs, s)
	c.subsEver++
	vsched.GoNamed("nats-dispatch:"+subj, false, s.dispatch)
	return s, nil
}

func (s *Subscription) dispatch() {
	for {
		vsched.WaitUntil(s.obj, func() bool { return len(s.pending) > 0 || s.closed })
		if vsched.Killed() {
			return
		}
		var m *Msg
		if len(s.pending) > 0 {
			m = s.pending[0]
			s.pending = s.pending[1:]
			s.obj.Write()
			if m.barrier != nil {
				m.barrier.refs--
				if m.barrier.refs == 0 {
					m.barrier.f()
				}
				continue
			}
		}
		if s.closed {
			break
		}
		if m != nil {
			s.Delivered++
			s.cb(m)
			if vsched.Killed() {
				return
			}
			s.obj.Write()
			s.pMsgs--
		}
	}
	for len(s.pending) > 0 {
		m := s.pending[0]
		s.pending = s.pending[1:]
		if m.barrier != nil {
			m.barrier.refs--
			if m.barrier.refs == 0 {
				m.barrier.f()
			}
		}
	}
}

func (c *Conn) removeSub(s *Subscription) {
	c.obj.Write()
	for i, x := range c.subs {
		if x == s {
			c.subs = append(c.subs[:i:i], c.subs[i+1:]...)
			break
		}
	}
	s.obj.Write()
	s.closed = true
}

func (s *Subscription) IsValid() bool { s.obj.Read(); return !s.closed }

func (s *Subscription) Unsubscribe() error {
	vsched.Yield()
	s.obj.Read()
	if s.closed {
		return ErrBadSubscription
	}
	if s.conn.status == CLOSED {
		return ErrConnectionClosed
	}
	s.conn.removeSub(s)
	return nil
}

// Drain stops new deliveries and removes the subscription once its pending messages (including the
// one whose callback is running) are done.
func (s *Subscription) Drain() error {
	vsched.Yield()
	s.obj.Read()
	if s.conn.status == CLOSED {
		return ErrConnectionClosed
	}
	if s.closed {
		// nats.go: Conn.unsubscribe finds no such sid any more ("already unsubscribed") and returns nil
		return nil
	}
	s.obj.Write()
	s.draining = true
	mark := s.conn.nPub
	vsched.GoNamed("nats-drainer:"+s.Subject, false, func() {
		if s.conn.Async {
			// checkDrained flushes first: whatever was on its way has arrived
			vsched.WaitUntil(s.conn.obj, func() bool { return s.conn.nArrived >= mark })
			if vsched.Killed() {
				return
			}
		}
		vsched.WaitUntil(s.obj, func() bool { return s.pMsgs == 0 || s.closed })
		if vsched.Killed() {
			return
		}
		if !s.closed {
			s.conn.removeSub(s)
		}
	})
	return nil
}

func (s *Subscription) Pending() (int, int, error) { s.obj.Read(); return s.pMsgs, 0, nil }

func tokenMatch(pattern, subject string) bool {
	pt := strings.Split(pattern, ".")
	st := strings.Split(subject, ".")
	for i, p := range pt {
		if p == ">" {
			return len(st) > i
		}
		if i >= len(st) {
			return false
		}
		if p != "*" && p != st[i] {
			return false
		}
	}
	return len(pt) == len(st)
}

func (c *Conn) route(m *Msg) int {
	if c.Async && vsched.Active() {
		t := c.targets(m)
		c.obj.Write()
		c.inflight = append(c.inflight, &flight{m: m, targets: t})
		c.nPub++
		if !c.netThread {
			c.netThread = true
			vsched.GoNamed("nats-network", false, c.network)
		}
		return len(t)
	}
	n := 0
	groups := map[string][]*Subscription{}
	var order []string
	for _, s := range c.subs {
		if s.closed || s.draining || !tokenMatch(s.Subject, m.Subject) {
			continue
		}
		if s.Queue == "" {
			c.enqueue(s, m)
			n++
			continue
		}
		if _, ok := groups[s.Queue]; !ok {
			order = append(order, s.Queue)
		}
		groups[s.Queue] = append(groups[s.Queue], s)
	}
	for _, q := range order {
		g := groups[q]
		c.enqueue(g[vsched.Choose(len(g))], m)
		n++
	}
	return n
}

// routeStatus delivers a no-responders status the way the server does (client.subForReply): to ONE
// plain subscription of the requesting connection that matches the reply subject; which one is not
// specified (the order of a sublist match), so every candidate is an alternative.
func (c *Conn) routeStatus(st *Msg) {
	var cand []*Subscription
	for _, s := range c.subs {
		if !s.closed && !s.draining && s.Queue == "" && tokenMatch(s.Subject, st.Subject) {
			cand = append(cand, s)
		}
	}
	if len(cand) == 0 {
		return
	}
	t := cand[vsched.Choose(len(cand))]
	if c.Async && vsched.Active() {
		c.obj.Write()
		c.inflight = append(c.inflight, &flight{m: st, targets: []*Subscription{t}})
		c.nPub++
		if !c.netThread {
			c.netThread = true
			vsched.GoNamed("nats-network", false, c.network)
		}
		return
	}
	c.enqueue(t, st)
}

// targets is route's decision without the hand-over: the subscriptions the server sends m to.
func (c *Conn) targets(m *Msg) []*Subscription {
	var out []*Subscription
	groups := map[string][]*Subscription{}
	var order []string
	for _, s := range c.subs {
		if s.closed || s.draining || !tokenMatch(s.Subject, m.Subject) {
			continue
		}
		if s.Queue == "" {
			out = append(out, s)
			continue
		}
		if _, ok := groups[s.Queue]; !ok {
			order = append(order, s.Queue)
		}
		groups[s.Queue] = append(groups[s.Queue], s)
	}
	for _, q := range order {
		g := groups[q]
		out = append(out, g[vsched.Choose(len(g))])
	}
	return out
}

// network hands messages that have made the round trip to their subscriptions, in order; a
// subscription that was unsubscribed meanwhile drops them, a draining one still takes them.
func (c *Conn) network() {
	for {
		vsched.WaitUntil(c.obj, func() bool { return len(c.inflight) > 0 })
		if vsched.Killed() {
			return
		}
		f := c.inflight[0]
		c.inflight = c.inflight[1:]
		c.obj.Write()
		for _, s := range f.targets {
			if !s.closed {
				c.enqueue(s, f.m)
			}
		}
		c.nArrived++
	}
}

func (c *Conn) enqueue(s *Subscription, m *Msg) {
	cp := *m
	cp.Sub = s
	s.obj.Write()
	waiting, bytes := 1, len(cp.Data)
	for _, q := range s.pending {
		if q.barrier == nil {
			waiting++
			bytes += len(q.Data)
		}
	}
	ml, bl := s.msgLimit, s.bytesLimit
	if ml == 0 {
		ml = DefaultSubPendingMsgsLimit
	}
	if bl == 0 {
		bl = DefaultSubPendingBytesLimit
	}
	if (ml > 0 && waiting > ml) || (bl > 0 && bytes > bl) {
		s.Dropped++ // slow consumer: the message is gone
		return
	}
	s.pending = append(s.pending, &cp)
	s.pMsgs++
}

func (c *Conn) publish(subj, reply string, data []byte) error {
	vsched.Yield()
	c.obj.Read()
	if c.status == CLOSED {
		return ErrConnectionClosed
	}
	if subj == "" {
		return ErrBadSubject
	}
	if c.MaxPayload > 0 && len(data) > c.MaxPayload {
		return ErrMaxPayload
	}
	if c.OnPublish != nil {
		if err := c.OnPublish(subj, reply, data); err != nil {
			return err
		}
	}
	c.obj.Write()
	c.seq++
	m := &Msg{Subject: subj, Reply: reply, Data: append([]byte(nil), data...), Seq: c.seq}
	c.Log = append(c.Log, m)
	if n := c.route(m); n == 0 && reply != "" {
		c.seq++
		st := &Msg{Subject: reply, Header: Header{"Status": {"503"}}, Seq: c.seq}
		c.routeStatus(st)
	}
	return nil
}

func (c *Conn) Publish(subj string, data []byte) error { return c.publish(subj, "", data) }
func (c *Conn) PublishRequest(subj, reply string, data []byte) error {
	return c.publish(subj, reply, data)
}
func (c *Conn) PublishMsg(m *Msg) error { return c.publish(m.Subject, m.Reply, m.Data) }

func (c *Conn) Flush() error { return c.flush(10 * time.Second) }

// FlushTimeout is Flush with the caller's bound on the PING / PONG round trip.
func (c *Conn) FlushTimeout(d time.Duration) error {
	if d <= 0 {
		return ErrBadTimeout
	}
	return c.flush(d)
}

func (c *Conn) flush(d time.Duration) error {
	vsched.Yield()
	c.obj.Read()
	if c.status != CONNECTED {
		return ErrConnectionClosed
	}
	if c.StallPings {
		// the broker no longer answers PINGs although the connection still counts as connected: the
		// round trip ends with the flush timeout (10 s for a plain Flush)
		vsched.Sleep(int64(d))
		return ErrTimeout
	}
	if c.Async && vsched.Active() {
		// the PONG follows everything published before the PING
		mark := c.nPub
		vsched.WaitUntil(c.obj, func() bool { return c.nArrived >= mark })
	}
	return nil
}

func (c *Conn) Barrier(f func()) error {
	vsched.Yield()
	c.obj.Read()
	if c.status == CLOSED {
		return ErrConnectionClosed
	}
	n := 0
	for _, s := range c.subs {
		if !s.closed {
			n++
		}
	}
	if n == 0 {
		f()
		return nil
	}
	b := &barrierInfo{refs: n, f: f}
	for _, s := range c.subs {
		if !s.closed {
			s.obj.Write()
			s.pending = append(s.pending, &Msg{barrier: b})
		}
	}
	return nil
}

func (c *Conn) Close() { c.obj.Write(); c.status = CLOSED }

// NumSubs reports live subscriptions (harness oracle).
func (c *Conn) NumSubs() int { return len(c.subs) }

// Inject routes a raw message as if a remote publisher had sent it (no scheduling point).
func (c *Conn) Inject(subj, reply string, hdr Header, data []byte) int {
	c.obj.Write()
	c.seq++
	m := &Msg{Subject: subj, Reply: reply, Header: hdr, Data: data, Seq: c.seq}
	c.Log = append(c.Log, m)
	return c.route(m)
}

// WaitSubs parks the caller until the connection has at least n live subscriptions.
func (c *Conn) WaitSubs(n int) {
	vsched.WaitUntil(c.obj, func() bool { return len(c.subs) >= n })
}

// WaitSubsEver parks the caller until n subscriptions have been created in total.
func (c *Conn) WaitSubsEver(n int) {
	vsched.WaitUntil(c.obj, func() bool { return c.subsEver >= n })
}

// PendingTotal reports messages not yet fully handled by their subscriptions' callbacks.
func (c *Conn) PendingTotal() int {
	n := 0
	for _, s := range c.subs {
		n += s.pMsgs
	}
	for _, f := range c.inflight {
		for _, s := range f.targets {
			if !s.closed {
				n++
			}
		}
	}
	return n
}
