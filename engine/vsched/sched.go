// Package vsched is a controlled cooperative scheduler for model checking real Go code.
//
// Instrumented code calls into this package (directly, or through the vsync / vatomic / vtime /
// vctx shims) before every visible operation. Exactly one logical thread runs at a time; at every
// scheduling point the scheduler computes the set of enabled alternatives in a canonical order and
// takes the one dictated by the current choice sequence. The explorer (explore.go) enumerates choice
// sequences depth-first with a deviation bound and optional happens-before state-key pruning.
package vsched

import (
	"fmt"
	"runtime"
	"sort"
	"strings"
	"sync"
)

// Kind of a visible operation.
type Kind uint8

const (
	KNone Kind = iota
	KLock
	KRLock
	KUnlock
	KRUnlock
	KSend
	KRecv
	KSelect
	KClose
	KChoose
	KYield
	KWait
	KAtomic
	KWGAdd
	KWGWait
	KOnce
	KSleep
	KSpawn
	KTimer
	KExit
	KCond
)

var kindNames = [...]string{"none", "lock", "rlock", "unlock", "runlock", "send", "recv", "select", "close",
	"choose", "yield", "wait", "atomic", "wgadd", "wgwait", "once", "sleep", "spawn", "timer", "exit", "cond"}

func (k Kind) String() string { return kindNames[k] }

// Obj is the scheduler's view of one synchronisation object.
type Obj struct {
	Ord   int
	Name  string
	H     uint64 // happens-before hash of the last write-like access
	H2    uint64 // second chain (channel receive side)
	epoch uint32
}

// Pend is a pending visible operation of a parked thread.
type Pend struct {
	Kind Kind
	Obj  *Obj
	// Variants reports in how many distinct ways the operation can fire in the current state
	// (0 = not enabled).
	Variants func() int
	// Apply fires variant v; it runs on the goroutine of whichever thread took the decision.
	Apply func(v int)
	// Deviation, when set, reports that variant v is a counted deviation in its own right (besides
	// the preemption rule), e.g. a non-blocking channel operation overtaking a partner that has
	// not parked yet.
	Deviation func(v int) bool
	// Where is an optional source hint (function name); resolved lazily from pc.
	Where string
	pc    uintptr
	sel   *selOp
}

func (p *Pend) where() string {
	if p.Where == "" && p.pc != 0 {
		p.Where = pcFunc(p.pc)
	}
	return p.Where
}

func callerPC(skip int) uintptr {
	var pcs [1]uintptr
	if runtime.Callers(skip+1, pcs[:]) == 0 {
		return 0
	}
	return pcs[0]
}

func pcFunc(pc uintptr) string {
	fn := runtime.FuncForPC(pc - 1)
	if fn == nil {
		return "?"
	}
	n := fn.Name()
	if i := strings.LastIndex(n, "/"); i >= 0 {
		n = n[i+1:]
	}
	return n
}

// Thread is a logical thread of the program under test.
type Thread struct {
	ID      int
	Name    string
	FG      bool // foreground: must finish for the execution to count as complete
	H       uint64
	wake    chan struct{}
	exited  chan struct{}
	pend    *Pend
	done    bool
	started bool
	nops    int
}

// Status of a finished execution.
type Status int

const (
	Quiescent Status = iota // nothing enabled, no timer pending
	Horizon                 // step horizon exceeded
	Pruned                  // reached a state already explored with at least as much budget
	Panicked                // a thread panicked
	Aborted                 // harness asked to stop (violation found in-flight)
)

func (s Status) String() string {
	return [...]string{"quiescent", "horizon", "pruned", "panic", "aborted"}[s]
}

// Point is one recorded decision.
type Point struct {
	N      int    // number of alternatives
	Chosen int    // alternative taken
	Costs  uint64 // bit i set: alternative i is a deviation (preemption / early timer)
	Data   bool   // data choice (Choose / select variant of same thread), never a deviation
}

// Blocked describes a thread that is parked at the end of an execution.
type Blocked struct {
	Thread string
	ID     int
	FG     bool
	Kind   Kind
	Obj    string
	Where  string
}

// Options of one execution.
type Options struct {
	MaxSteps int  // step horizon (0 = 20000)
	Trace    bool // record a human readable trace
	// Visited, if non-nil, enables state-key pruning; maps key -> remaining deviation budget.
	Visited map[uint64]int8
	Bound   int // deviation bound for this run (only used with Visited / cost accounting); <0 = unbounded
	// Prune stops an execution when it reaches a state already in Visited with at least as much
	// remaining budget (sound: equal happens-before state => equal futures).
	Prune bool
}

// Exec is one execution.
type Exec struct {
	opts    *Options
	epoch   uint32
	threads []*Thread
	cur     *Thread
	prefix  []int
	Points  []Point
	nsteps  int
	clock   int64
	timers  []*Timer
	tseq    int
	chans   map[uintptr]*chanState
	addrObj map[uintptr]*Obj
	nextOrd int
	killed  bool
	ended   bool
	doneC   chan struct{}
	Status  Status
	PanicV  interface{}
	PanicS  string
	Trace   []string
	used    int // deviations used so far
	// Transitions counts applied operations; NewStates counts state keys first seen in this run.
	Transitions int
	NewStates   int
	// EarlyTimers counts timers that fired while a thread was still enabled (each one a deviation);
	// 0 means every timer of this execution fired at quiescence.
	EarlyTimers int
	Diverged    string
	userEnd     []func()
	Log         []string // harness observation log (free form, used for outcomes)
	timeEpoch   uint64
	idleHook    func(newClock int64)
	alltimers   []*Timer
}

// OnIdleAdvance registers f to be called whenever virtual time is about to advance because no
// thread is enabled (a timer fires at quiescence); newClock is the time it advances to.
func OnIdleAdvance(f func(newClock int64)) {
	if e := cur; e != nil {
		e.idleHook = f
	}
}

var (
	cur      *Exec
	epochCtr uint32
	runMu    sync.Mutex
)

// Current returns the running execution (nil outside Run).
func Current() *Exec { return cur }

// Active reports whether the calling code runs under the scheduler.
func Active() bool { e := cur; return e != nil && !e.killed && e.cur != nil }

func mix(h uint64, vs ...uint64) uint64 {
	for _, v := range vs {
		h ^= v + 0x9e3779b97f4a7c15 + (h << 6) + (h >> 2)
		h *= 0xbf58476d1ce4e5b9
		h ^= h >> 29
	}
	return h
}

// HashString hashes a string into the hb domain.
func HashString(s string) uint64 {
	var h uint64 = 1469598103934665603
	for i := 0; i < len(s); i++ {
		h ^= uint64(s[i])
		h *= 1099511628211
	}
	return h
}

// Run executes body as thread 0 under the scheduler, following prefix and taking alternative 0
// afterwards.
func Run(body func(), prefix []int, opts *Options) *Exec {
	runMu.Lock()
	defer runMu.Unlock()
	if opts == nil {
		opts = &Options{}
	}
	epochCtr++
	e := &Exec{opts: opts, epoch: epochCtr, prefix: prefix, doneC: make(chan struct{}, 1),
		chans: map[uintptr]*chanState{}, addrObj: map[uintptr]*Obj{}}
	if opts.MaxSteps == 0 {
		opts.MaxSteps = 20000
	}
	cur = e
	t := e.newThread("main", 0x1234)
	t.FG = true
	e.cur = t
	t.started = true
	go e.threadMain(t, body)
	<-e.doneC
	return e
}

// Finish releases all parked goroutines of the execution. Must be called after inspecting the end
// state.
func (e *Exec) Finish() {
	e.killed = true
	for _, t := range e.threads {
		if t.done {
			continue
		}
		if !t.started {
			t.done = true
			continue
		}
		t.wake <- struct{}{}
		<-t.exited
	}
	if cur == e {
		cur = nil
	}
}

func (e *Exec) newThread(name string, h uint64) *Thread {
	t := &Thread{ID: len(e.threads), Name: name, H: h, wake: make(chan struct{}, 1), exited: make(chan struct{})}
	e.threads = append(e.threads, t)
	return t
}

func (e *Exec) threadMain(t *Thread, body func()) {
	defer close(t.exited)
	defer func() {
		if r := recover(); r != nil {
			if e.killed {
				t.done = true
				return
			}
			buf := make([]byte, 8192)
			buf = buf[:runtime.Stack(buf, false)]
			e.PanicV = r
			e.PanicS = fmt.Sprintf("thread %d (%s): %v\n%s", t.ID, t.Name, r, buf)
			t.done = true
			e.end(Panicked)
			return
		}
	}()
	body()
	if e.killed {
		t.done = true
		return
	}
	// thread exit is a scheduling decision (someone else must be picked)
	t.done = true
	t.pend = nil
	if e.opts.Trace {
		e.Trace = append(e.Trace, fmt.Sprintf("T%d exit", t.ID))
	}
	e.schedule(t)
}

func (e *Exec) end(s Status) {
	if e.ended {
		return
	}
	e.ended = true
	e.Status = s
	e.doneC <- struct{}{}
}

// park blocks the calling goroutine until its thread is chosen again.
func (e *Exec) park(t *Thread) {
	<-t.wake
	if e.killed {
		runtime.Goexit()
	}
}

type alt struct {
	t  *Thread
	v  int
	tm *Timer
}

// Go starts a new logical thread.
func Go(f func()) {
	e := cur
	if e == nil || e.killed || e.cur == nil {
		if e != nil && e.killed {
			return
		}
		go f()
		return
	}
	p := e.cur
	name := callerFunc(2)
	p.H = mix(p.H, uint64(KSpawn), uint64(p.nops))
	p.nops++
	t := e.newThread(name, mix(p.H, 0x5157))
	// The child is runnable immediately; it starts when first chosen.
	t.pend = &Pend{Kind: KSpawn, Variants: one, Apply: func(int) {}, Where: name}
	go func() {
		<-t.wake
		t.started = true
		if e.killed {
			t.done = true
			close(t.exited)
			return
		}
		e.threadMain(t, f)
	}()
	t.started = true // goroutine exists and waits on wake
}

// GoNamed is Go with an explicit thread name and foreground flag.
func GoNamed(name string, fg bool, f func()) *Thread {
	e := cur
	Go(f)
	t := e.threads[len(e.threads)-1]
	t.Name = name
	t.FG = fg
	return t
}

func one() int { return 1 }

func callerFunc(skip int) string {
	pc, _, _, ok := runtime.Caller(skip)
	if !ok {
		return "?"
	}
	fn := runtime.FuncForPC(pc)
	if fn == nil {
		return "?"
	}
	n := fn.Name()
	if i := strings.LastIndex(n, "/"); i >= 0 {
		n = n[i+1:]
	}
	return n
}

// Do is the generic scheduling point: the calling thread declares a pending operation and is
// resumed after the operation has been applied.
func (e *Exec) Do(p *Pend) {
	t := e.cur
	t.pend = p
	e.schedule(t)
}

// schedule takes decisions until control returns to thread me (or parks/ends).
func (e *Exec) schedule(me *Thread) {
	var alts []alt
	for {
		if e.ended {
			if me.done {
				return
			}
			e.park(me)
			return
		}
		e.nsteps++
		if e.nsteps > e.opts.MaxSteps {
			e.end(Horizon)
			if me.done {
				return
			}
			e.park(me)
			return
		}
		alts = alts[:0]
		var costs uint64
		curEnabled := false
		if !me.done && me.pend != nil {
			n := me.pend.Variants()
			for v := 0; v < n; v++ {
				if me.pend.Deviation != nil && me.pend.Deviation(v) {
					costs |= 1 << uint(len(alts))
				}
				alts = append(alts, alt{t: me, v: v})
			}
			curEnabled = n > 0
		}
		for _, t := range e.threads {
			if t == me || t.done || t.pend == nil {
				continue
			}
			n := t.pend.Variants()
			for v := 0; v < n; v++ {
				if curEnabled || (t.pend.Deviation != nil && t.pend.Deviation(v)) {
					costs |= 1 << uint(len(alts))
				}
				alts = append(alts, alt{t: t, v: v})
			}
		}
		anyThread := len(alts) > 0
		// timers: all pending timers with the minimal deadline
		var minWhen int64 = -1
		for _, tm := range e.timers {
			if tm.pending && (minWhen < 0 || tm.when < minWhen) {
				minWhen = tm.when
			}
		}
		if minWhen >= 0 {
			for _, tm := range e.timers {
				if tm.pending && tm.when == minWhen {
					if anyThread {
						costs |= 1 << uint(len(alts))
					}
					alts = append(alts, alt{tm: tm})
				}
			}
		}
		if len(alts) == 0 {
			e.end(Quiescent)
			if me.done {
				return
			}
			e.park(me)
			return
		}
		if len(alts) > 63 {
			panic("vsched: more than 63 alternatives at one point")
		}
		idx := len(e.Points)
		remaining := 127
		if e.opts.Bound >= 0 {
			remaining = e.opts.Bound - e.used
		}
		if e.opts.Visited != nil {
			key := e.stateKey(me)
			if prev, ok := e.opts.Visited[key]; ok {
				if e.opts.Prune && idx >= len(e.prefix) && int(prev) >= remaining {
					e.end(Pruned)
					if me.done {
						return
					}
					e.park(me)
					return
				}
				if int(prev) < remaining {
					e.opts.Visited[key] = int8(remaining)
				}
			} else {
				e.opts.Visited[key] = int8(remaining)
				e.NewStates++
			}
		}
		choice := 0
		if len(alts) > 1 {
			if idx < len(e.prefix) {
				choice = e.prefix[idx]
				if choice >= len(alts) {
					e.Diverged = fmt.Sprintf("replay divergence at point %d: choice %d of %d alternatives", idx, choice, len(alts))
					e.end(Aborted)
					if me.done {
						return
					}
					e.park(me)
					return
				}
			}
			e.Points = append(e.Points, Point{N: len(alts), Chosen: choice, Costs: costs})
			if costs&(1<<uint(choice)) != 0 {
				e.used++
			}
		}
		a := alts[choice]
		e.Transitions++
		if a.tm != nil {
			if anyThread {
				e.EarlyTimers++
			}
			if !anyThread && e.idleHook != nil {
				e.idleHook(a.tm.when)
			}
			if e.opts.Trace {
				e.Trace = append(e.Trace, fmt.Sprintf("timer#%d fires at %dns (%s)", a.tm.seq, a.tm.when, a.tm.what))
			}
			e.fireTimer(a.tm)
			continue
		}
		t := a.t
		p := t.pend
		t.pend = nil
		if e.opts.Trace {
			on := ""
			if p.Obj != nil {
				on = fmt.Sprintf(" %s#%d", p.Obj.Name, p.Obj.Ord)
			}
			e.Trace = append(e.Trace, fmt.Sprintf("T%d(%s) %s%s v%d @%s", t.ID, t.Name, p.Kind, on, a.v, p.where()))
		}
		e.cur = t
		p.Apply(a.v)
		// every applied operation advances its thread's history hash, also the ones whose Apply has no
		// effect of its own (a bare Yield): two positions of one thread must never share a state key
		t.H = mix(t.H, 0x0f, uint64(p.Kind))
		t.nops++
		if t == me {
			return
		}
		t.wake <- struct{}{}
		if me.done {
			return
		}
		e.park(me)
		return
	}
}

// stateKey hashes the happens-before state: thread hashes (sorted), the running thread, the clock
// and pending timers.
func (e *Exec) stateKey(me *Thread) uint64 {
	hs := make([]uint64, 0, len(e.threads)+len(e.timers)+2)
	for _, t := range e.threads {
		h := t.H
		if t.done {
			h = mix(h, 0xdead)
		}
		hs = append(hs, h)
	}
	sort.Slice(hs, func(i, j int) bool { return hs[i] < hs[j] })
	k := mix(0x77, uint64(e.clock))
	if !me.done {
		k = mix(k, me.H)
	}
	for _, h := range hs {
		k = mix(k, h)
	}
	var th uint64
	for _, tm := range e.timers {
		if tm.pending {
			th += mix(tm.obj.H, uint64(tm.when))
		}
	}
	return mix(k, th)
}

// Choose is a pure data choice with n alternatives (0..n-1), all explored.
func Choose(n int) int {
	e := cur
	if e == nil || e.killed || e.cur == nil || n <= 1 {
		return 0
	}
	idx := len(e.Points)
	c := 0
	if idx < len(e.prefix) {
		c = e.prefix[idx]
		if c >= n {
			e.Diverged = fmt.Sprintf("replay divergence at data point %d: %d of %d", idx, c, n)
			c = 0
		}
	}
	e.Points = append(e.Points, Point{N: n, Chosen: c, Data: true})
	t := e.cur
	t.H = mix(t.H, uint64(KChoose), uint64(c), uint64(n))
	if e.opts.Trace {
		e.Trace = append(e.Trace, fmt.Sprintf("T%d(%s) choose %d/%d @%s", t.ID, t.Name, c, n, callerFunc(2)))
	}
	return c
}

// Yield is a scheduling point with no effect.
func Yield() {
	e := cur
	if e == nil || e.killed || e.cur == nil {
		return
	}
	t := e.cur
	t.H = mix(t.H, uint64(KYield))
	e.Do(&Pend{Kind: KYield, Variants: one, Apply: func(int) {}, pc: callerPC(2)})
}

// NewObj registers a harness-level shared object.
func NewObj(name string) *Obj {
	e := cur
	o := &Obj{Name: name}
	if e != nil {
		o.Ord = e.nextOrd
		e.nextOrd++
		o.epoch = e.epoch
		o.H = mix(uint64(o.Ord), HashString(name))
	}
	return o
}

// Write records a write access to o by the running thread (not a scheduling point).
func (o *Obj) Write() {
	e := cur
	if e == nil || e.killed || e.cur == nil {
		return
	}
	t := e.cur
	t.H = mix(t.H, o.H, 'w')
	o.H = t.H
}

// Read records a read access to o by the running thread (not a scheduling point).
func (o *Obj) Read() {
	e := cur
	if e == nil || e.killed || e.cur == nil {
		return
	}
	t := e.cur
	t.H = mix(t.H, o.H, 'r')
}

// WaitUntil parks the running thread until pred() holds; pred must only depend on state guarded by o.
func WaitUntil(o *Obj, pred func() bool) {
	e := cur
	if e == nil || e.killed || e.cur == nil {
		return
	}
	t := e.cur
	e.Do(&Pend{Kind: KWait, Obj: o, pc: callerPC(2),
		Variants: func() int {
			if pred() {
				return 1
			}
			return 0
		},
		Apply: func(int) { t.H = mix(t.H, o.H, 'r', uint64(KWait)) }})
}

// Note records an observation in the execution log and folds it into the running thread's hash.
func Note(s string) {
	e := cur
	if e == nil || e.killed {
		return
	}
	e.Log = append(e.Log, s)
	if e.cur != nil {
		e.cur.H = mix(e.cur.H, HashString(s))
	}
	if e.opts.Trace {
		e.Trace = append(e.Trace, "  note: "+s)
	}
}

// Now returns the virtual clock in nanoseconds.
func (e *Exec) Now() int64 { return e.clock }

// Steps returns the number of decisions taken so far.
func (e *Exec) Steps() int { return e.nsteps }

// Blocked lists the threads still parked (call after Run returned, before Finish).
func (e *Exec) Blocked() []Blocked {
	var out []Blocked
	for _, t := range e.threads {
		if t.done {
			continue
		}
		b := Blocked{Thread: t.Name, ID: t.ID, FG: t.FG}
		if t.pend != nil {
			b.Kind = t.pend.Kind
			b.Where = t.pend.where()
			if t.pend.Obj != nil {
				b.Obj = fmt.Sprintf("%s#%d", t.pend.Obj.Name, t.pend.Obj.Ord)
			}
		}
		out = append(out, b)
	}
	return out
}

// Threads returns the number of logical threads created.
func (e *Exec) Threads() int { return len(e.threads) }

// Choices returns the chosen alternative of every recorded point.
func (e *Exec) Choices() []int {
	out := make([]int, len(e.Points))
	for i, p := range e.Points {
		out[i] = p.Chosen
	}
	return out
}

// CurThread returns the running thread.
func (e *Exec) CurThread() *Thread { return e.cur }

// SetForeground marks the running thread.
func SetForeground(fg bool) {
	if e := cur; e != nil && e.cur != nil {
		e.cur.FG = fg
	}
}

// SetName names the running thread.
func SetName(n string) {
	if e := cur; e != nil && e.cur != nil {
		e.cur.Name = n
	}
}

func (e *Exec) objAt(addr uintptr, name string) *Obj {
	if o, ok := e.addrObj[addr]; ok {
		return o
	}
	o := &Obj{Ord: e.nextOrd, Name: name, epoch: e.epoch}
	e.nextOrd++
	o.H = mix(uint64(o.Ord), HashString(name))
	e.addrObj[addr] = o
	return o
}

// ObjAt returns the per-execution object for an address (used by shims).
func ObjAt(addr uintptr, name string) *Obj {
	e := cur
	if e == nil {
		return &Obj{Name: name}
	}
	return e.objAt(addr, name)
}

// Epoch returns the identifier of the running execution (0 if none).
func Epoch() uint32 {
	if e := cur; e != nil {
		return e.epoch
	}
	return 0
}

// Killed reports whether the execution is being torn down (shims must become no-ops).
func Killed() bool { e := cur; return e != nil && e.killed }

// Passthrough reports whether shims must act directly without scheduling: no execution, teardown,
// or code running outside any logical thread.
func Passthrough() bool { e := cur; return e == nil || e.killed || e.cur == nil }

// Point lets shims in other packages declare an operation.
func DoPoint(p *Pend) {
	e := cur
	e.Do(p)
}

// TouchW / TouchR update hb hashes for shim objects.
func TouchW(o *Obj, k Kind) {
	e := cur
	if e == nil || e.cur == nil {
		return
	}
	t := e.cur
	t.H = mix(t.H, o.H, uint64(k), uint64(o.Ord))
	o.H = t.H
}

func TouchR(o *Obj, k Kind) {
	e := cur
	if e == nil || e.cur == nil {
		return
	}
	t := e.cur
	t.H = mix(t.H, o.H, uint64(k), uint64(o.Ord))
}

// Publish sets o's hash to the running thread's hash (release semantics).
func Publish(o *Obj) {
	e := cur
	if e == nil || e.cur == nil {
		return
	}
	o.H = e.cur.H
}

// FoldValue folds a value observed by the running thread into its hash.
func FoldValue(v uint64) {
	e := cur
	if e == nil || e.cur == nil {
		return
	}
	e.cur.H = mix(e.cur.H, v)
}

// CallerPC returns the pc `skip` frames above the caller (for shims).
func CallerPC(skip int) uintptr { return callerPC(skip + 1) }

// SetPC attaches a source hint to a pending op.
func (p *Pend) SetPC(pc uintptr) *Pend { p.pc = pc; return p }
