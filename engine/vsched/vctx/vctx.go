// Package vctx mirrors package context with deadlines on the scheduler's virtual clock.
package vctx

import (
	"context"
	"time"

	"verif/engine/vsched"
)

type (
	Context         = context.Context
	CancelFunc      = context.CancelFunc
	CancelCauseFunc = context.CancelCauseFunc
)

var (
	Canceled         = context.Canceled
	DeadlineExceeded = context.DeadlineExceeded
)

func Background() Context { return context.Background() }
func TODO() Context       { return context.TODO() }

var base = time.Date(2020, 1, 1, 0, 0, 0, 0, time.UTC)

type vctx struct {
	parent   Context
	done     chan struct{}
	err      error
	cause    error
	deadline time.Time
	hasDL    bool
	tm       *vsched.Timer
	children []*vctx
	key, val interface{}
}

func (c *vctx) Deadline() (time.Time, bool) {
	if c.hasDL {
		return c.deadline, true
	}
	return c.parent.Deadline()
}
func (c *vctx) Done() <-chan struct{} { return c.done }
func (c *vctx) Err() error {
	vsched.FoldValue(errCode(c.err))
	return c.err
}
func (c *vctx) Value(k interface{}) interface{} {
	if c.key != nil && c.key == k {
		return c.val
	}
	return c.parent.Value(k)
}

func errCode(e error) uint64 {
	switch e {
	case nil:
		return 0
	case Canceled:
		return 1
	default:
		return 2
	}
}

func newChild(parent Context) *vctx {
	c := &vctx{parent: parent, done: make(chan struct{})}
	if p, ok := parent.(*vctx); ok {
		if p.err != nil {
			// parent already done: child is born cancelled
			c.err = p.err
			vsched.CloseNow(c.done, 0x9a)
		} else {
			p.children = append(p.children, c)
		}
	}
	return c
}

// cancelNow marks c and its children done from scheduler context.
func (c *vctx) cancelNow(err error, h uint64) {
	if c.err != nil {
		return
	}
	c.err = err
	if c.tm != nil {
		c.tm.Stop()
	}
	vsched.CloseNow(c.done, h)
	for _, ch := range c.children {
		ch.cancelNow(err, h)
	}
}

// cancel is the user-invoked CancelFunc: a scheduling point, then the cancellation.
func (c *vctx) cancel(err error) {
	if vsched.Passthrough() {
		return
	}
	if c.err != nil {
		return
	}
	p := &vsched.Pend{Kind: vsched.KClose, Variants: func() int { return 1 }, Apply: func(int) {
		vsched.FoldValue(0xca9ce1)
		c.cancelNow(err, 0xca9ce1)
	}}
	vsched.DoPoint(p.SetPC(vsched.CallerPC(3)))
}

func WithCancel(parent Context) (Context, CancelFunc) {
	if vsched.Passthrough() && !vsched.Killed() {
		return context.WithCancel(parent)
	}
	c := newChild(parent)
	return c, func() { c.cancel(Canceled) }
}

func WithCancelCause(parent Context) (Context, CancelCauseFunc) {
	if vsched.Passthrough() && !vsched.Killed() {
		return context.WithCancelCause(parent)
	}
	c := newChild(parent)
	return c, func(cause error) { c.cause = cause; c.cancel(Canceled) }
}

func Cause(c Context) error {
	if v, ok := c.(*vctx); ok {
		if v.cause != nil {
			return v.cause
		}
		return v.err
	}
	return context.Cause(c)
}

func WithDeadline(parent Context, d time.Time) (Context, CancelFunc) {
	if vsched.Passthrough() && !vsched.Killed() {
		return context.WithDeadline(parent, d)
	}
	now := base.Add(time.Duration(vsched.ClockNow()))
	return withTimeout(parent, d.Sub(now))
}

func WithTimeout(parent Context, d time.Duration) (Context, CancelFunc) {
	if vsched.Passthrough() && !vsched.Killed() {
		return context.WithTimeout(parent, d)
	}
	return withTimeout(parent, d)
}

func withTimeout(parent Context, d time.Duration) (Context, CancelFunc) {
	c := newChild(parent)
	if vsched.Killed() {
		return c, func() {}
	}
	now := vsched.Current().Now()
	c.hasDL = true
	c.deadline = base.Add(time.Duration(now) + d)
	if pd, ok := parent.Deadline(); ok && pd.Before(c.deadline) {
		c.deadline = pd
		d = pd.Sub(base.Add(time.Duration(now)))
	}
	if c.err == nil {
		if d <= 0 {
			c.cancelNow(DeadlineExceeded, 0xdead11)
		} else {
			c.tm = vsched.AddTimer(int64(d), "ctx-deadline", func(h uint64) { c.cancelNow(DeadlineExceeded, h) })
		}
	}
	return c, func() { c.cancel(Canceled) }
}

func WithValue(parent Context, key, val interface{}) Context {
	if vsched.Passthrough() && !vsched.Killed() {
		return context.WithValue(parent, key, val)
	}
	c := newChild(parent)
	c.key, c.val = key, val
	return c
}

func WithoutCancel(parent Context) Context { return context.WithoutCancel(parent) }

func AfterFunc(ctx Context, f func()) (stop func() bool) {
	panic("vctx.AfterFunc not supported under vsched")
}
