// Package vtime mirrors package time on the scheduler's virtual clock.
package vtime

import (
	"time"

	"verif/engine/vsched"
)

type (
	Duration   = time.Duration
	Time       = time.Time
	Month      = time.Month
	Weekday    = time.Weekday
	Location   = time.Location
	ParseError = time.ParseError
)

const (
	Nanosecond  = time.Nanosecond
	Microsecond = time.Microsecond
	Millisecond = time.Millisecond
	Second      = time.Second
	Minute      = time.Minute
	Hour        = time.Hour

	RFC3339     = time.RFC3339
	RFC3339Nano = time.RFC3339Nano
	RFC1123     = time.RFC1123
	RFC822      = time.RFC822
	Kitchen     = time.Kitchen
	ANSIC       = time.ANSIC
	UnixDate    = time.UnixDate
	Layout      = time.Layout
	StampMilli  = time.StampMilli
)

var (
	UTC   = time.UTC
	Local = time.Local
)

var base = time.Date(2020, 1, 1, 0, 0, 0, 0, time.UTC)

func Now() Time {
	if vsched.Passthrough() {
		if vsched.Killed() {
			return base
		}
		return time.Now()
	}
	return base.Add(Duration(vsched.ClockNow()))
}

func Since(t Time) Duration { return Now().Sub(t) }
func Until(t Time) Duration { return t.Sub(Now()) }

func Unix(s, ns int64) Time                  { return time.Unix(s, ns) }
func UnixMilli(ms int64) Time                { return time.UnixMilli(ms) }
func Date(y int, m Month, d, h, mi, s, ns int, l *Location) Time {
	return time.Date(y, m, d, h, mi, s, ns, l)
}
func ParseDuration(s string) (Duration, error) { return time.ParseDuration(s) }
func Parse(l, v string) (Time, error)          { return time.Parse(l, v) }

func Sleep(d Duration) {
	if vsched.Passthrough() {
		if !vsched.Killed() {
			time.Sleep(d)
		}
		return
	}
	vsched.Sleep(int64(d))
}

func After(d Duration) <-chan Time {
	if vsched.Passthrough() {
		if vsched.Killed() {
			return make(chan Time)
		}
		return time.After(d)
	}
	return NewTimer(d).C
}

// Timer mirrors time.Timer.
type Timer struct {
	C  <-chan Time
	c  chan Time
	tm *vsched.Timer
	f  func()
	rt *time.Timer
}

func NewTimer(d Duration) *Timer {
	if vsched.Passthrough() {
		rt := time.NewTimer(d)
		return &Timer{C: rt.C, rt: rt}
	}
	c := make(chan Time, 1)
	t := &Timer{C: c, c: c}
	t.arm(d)
	return t
}

func (t *Timer) arm(d Duration) {
	if t.f != nil {
		f := t.f
		t.tm = vsched.AddTimer(int64(d), "afterfunc", func(h uint64) { vsched.SpawnFromTimer("time.AfterFunc", h, f) })
		return
	}
	c := t.c
	t.tm = vsched.AddTimer(int64(d), "timer", func(h uint64) {
		vsched.TimerSendNow(c, base.Add(Duration(vsched.Current().Now())), h)
	})
}

func AfterFunc(d Duration, f func()) *Timer {
	if vsched.Passthrough() {
		if vsched.Killed() {
			return &Timer{}
		}
		return &Timer{rt: time.AfterFunc(d, f)}
	}
	t := &Timer{f: f}
	t.arm(d)
	return t
}

func (t *Timer) Stop() bool {
	if t.rt != nil {
		return t.rt.Stop()
	}
	if t.tm == nil || vsched.Passthrough() {
		return false
	}
	return t.tm.Stop()
}

func (t *Timer) Reset(d Duration) bool {
	if t.rt != nil {
		return t.rt.Reset(d)
	}
	if vsched.Passthrough() {
		return false
	}
	was := t.tm.Stop()
	t.arm(d)
	return was
}

// Ticker mirrors time.Ticker (re-arms itself on every tick).
type Ticker struct {
	C      <-chan Time
	c      chan Time
	d      Duration
	tm     *vsched.Timer
	stop   bool
	rt     *time.Ticker
}

func NewTicker(d Duration) *Ticker {
	if vsched.Passthrough() {
		rt := time.NewTicker(d)
		return &Ticker{C: rt.C, rt: rt}
	}
	c := make(chan Time, 1)
	t := &Ticker{C: c, c: c, d: d}
	t.arm()
	return t
}

func (t *Ticker) arm() {
	t.tm = vsched.AddTimer(int64(t.d), "ticker", func(h uint64) {
		vsched.TimerSendNow(t.c, base.Add(Duration(vsched.Current().Now())), h)
		if !t.stop {
			t.arm()
		}
	})
}

func (t *Ticker) Stop() {
	if t.rt != nil {
		t.rt.Stop()
		return
	}
	t.stop = true
	if !vsched.Passthrough() {
		t.tm.Stop()
	}
}

func (t *Ticker) Reset(d Duration) {
	if t.rt != nil {
		t.rt.Reset(d)
		return
	}
	t.d = d
	if !vsched.Passthrough() {
		t.tm.Stop()
		t.arm()
	}
}

func Tick(d Duration) <-chan Time { return NewTicker(d).C }
