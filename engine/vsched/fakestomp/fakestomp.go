// Package fakestomp is an in-process model of the part of github.com/go-stomp/stomp (v2.1.4) that
// lib/go uses: Conn.Subscribe / Send / Ack and Subscription.C / Unsubscribe. As in go-stomp, a
// subscription's channel is buffered (16); Unsubscribe returns after the broker's receipt, at which
// point the channel is closed but may still hold buffered messages.
package fakestomp

import (
	"errors"
	"fmt"
	"strings"

	"verif/engine/vsched"
)

type AckMode int

const (
	AckAuto AckMode = iota
	AckClient
	AckClientIndividual
)

var (
	ErrCompletedSubscription = errors.New("subscription is unsubscribed")
	ErrClosedUnexpectedly    = errors.New("connection closed unexpectedly")
)

type Frame struct{ Header map[string]string }

type sendOpt struct{}

// SendOpt mirrors stomp.SendOpt.
var SendOpt sendOpt

func (sendOpt) Header(k, v string) func(*Frame) error {
	return func(f *Frame) error {
		if f.Header == nil {
			f.Header = map[string]string{}
		}
		f.Header[k] = v
		return nil
	}
}

type subscribeOpt struct{}

// SubscribeOpt mirrors stomp.SubscribeOpt (Id, Header).
var SubscribeOpt subscribeOpt

func (subscribeOpt) Id(id string) func(*Frame) error { return SendOpt.Header("id", id) }
func (subscribeOpt) Header(k, v string) func(*Frame) error { return SendOpt.Header(k, v) }

type Message struct {
	Destination  string
	ContentType  string
	Conn         *Conn
	Subscription *Subscription
	Header       map[string]string
	Body         []byte
	Err          error
	Seq          int
}

type Sent struct {
	Destination string
	ContentType string
	Body        []byte
	Header      map[string]string
}

type Conn struct {
	obj    *vsched.Obj
	subs   []*Subscription
	Sent   []Sent
	Acked  []int
	seq    int
	closed bool
	rr     int
	nsub   int
	OnSend func(dest string, body []byte) error
	// FailAcks makes every Ack fail (a broker that rejects acknowledgements, e.g. for a
	// subscription in auto-ack mode).
	FailAcks bool
}

type Subscription struct {
	C           chan *Message
	destination string
	conn        *Conn
	active      bool
	ack         AckMode
	id          string
}

func NewConn() *Conn { return &Conn{obj: vsched.NewObj("stompconn")} }

func (c *Conn) Subscribe(dest string, ack AckMode, opts ...func(*Frame) error) (*Subscription, error) {
	vsched.Yield()
	c.obj.Write()
	if c.closed {
		return nil, ErrClosedUnexpectedly
	}
	f := &Frame{}
	for _, o := range opts {
		if o != nil {
			if err := o(f); err != nil {
				return nil, err
			}
		}
	}
	c.nsub++
	s := &Subscription{C: make(chan *Message, 16), destination: dest, conn: c, active: true, ack: ack, id: fmt.Sprintf("sub-%d", c.nsub)}
	if id, ok := f.Header["id"]; ok {
		s.id = id
	}
	for _, o := range c.subs {
		if o.active && o.id == s.id {
			// a second SUBSCRIBE with an id in use: the broker answers with an ERROR frame and closes
			// the connection; every subscription's channel gets the error and is closed. Subscribe
			// itself has already returned by then (it does not wait for a receipt).
			c.subs = append(c.subs, s)
			c.closed = true
			for _, x := range c.subs {
				if x.active {
					x.active = false
					vsched.SendNow(x.C, &Message{Err: errors.New("subscription already exists"), Conn: c, Subscription: x})
					vsched.CloseNow(x.C, 0x0c105e)
				}
			}
			return s, nil
		}
	}
	c.subs = append(c.subs, s)
	return s, nil
}

func (s *Subscription) Active() bool { s.conn.obj.Read(); return s.active }

func (s *Subscription) Unsubscribe(opts ...func(*Frame) error) error {
	s.conn.obj.Write()
	if !s.active {
		return ErrCompletedSubscription
	}
	// UNSUBSCRIBE travels to the broker (a visible step); its RECEIPT closes the channel
	vsched.Yield()
	s.conn.obj.Write()
	s.active = false
	vsched.CloseNow(s.C, 0x0c105e)
	return nil
}

func (c *Conn) Send(dest, contentType string, body []byte, opts ...func(*Frame) error) error {
	vsched.Yield()
	c.obj.Write()
	if c.closed {
		return ErrClosedUnexpectedly
	}
	if c.OnSend != nil {
		if err := c.OnSend(dest, body); err != nil {
			return err
		}
	}
	f := &Frame{}
	for _, o := range opts {
		if o != nil {
			if err := o(f); err != nil {
				return err
			}
		}
	}
	c.seq++
	c.Sent = append(c.Sent, Sent{Destination: dest, ContentType: contentType, Body: append([]byte(nil), body...), Header: f.Header})
	c.Deliver(dest, contentType, body)
	return nil
}

// Deliver routes a message to the matching active subscriptions (topic: all; queue: one).
func (c *Conn) Deliver(dest, contentType string, body []byte) {
	var targets []*Subscription
	for _, s := range c.subs {
		if s.active && s.destination == dest {
			targets = append(targets, s)
		}
	}
	if strings.HasPrefix(dest, "/queue/") && len(targets) > 1 {
		targets = []*Subscription{targets[vsched.Choose(len(targets))]}
	}
	for _, s := range targets {
		m := &Message{Destination: dest, ContentType: contentType, Conn: c, Subscription: s, Body: append([]byte(nil), body...), Seq: c.seq}
		// the subscription's read loop forwards frames into C; with fewer than 16 undelivered
		// messages this never blocks, so it is modelled as atomic with the broker step
		if !vsched.SendNow(s.C, m) {
			panic("fakestomp: subscription buffer full or closed (outside the modelled range)")
		}
	}
}

func (c *Conn) Ack(m *Message) error {
	vsched.Yield()
	if c.FailAcks {
		// rejected acknowledgements leave no trace on the connection, so they commute
		return errors.New("stomp: ack rejected")
	}
	c.obj.Write()
	if c.closed {
		return ErrClosedUnexpectedly
	}
	c.Acked = append(c.Acked, m.Seq)
	return nil
}

func (c *Conn) Disconnect() error { c.obj.Write(); c.closed = true; return nil }
