// Package fakestomp is an in-process model of the part of github.com/go-stomp/stomp (v2.1.4) that
// lib/go uses: Conn.Subscribe / Send / Ack and Subscription.C / Unsubscribe. As in go-stomp, a
// subscription's channel is buffered (16); Unsubscribe returns after the broker's receipt, at which
// point the channel is closed but may still hold buffered messages.
package fakestomp

import (
	"errors"
	"fmt"
	"strings"

	"verif/engine/vsched"
)

type AckMode int

const (
	AckAuto AckMode = iota
	AckClient
	AckClientIndividual
)

var (
	ErrCompletedSubscription = errors.New("subscription is unsubscribed")
	ErrClosedUnexpectedly    = errors.New("connection closed unexpectedly")
)

type Frame struct{ Header map[string]string }

type sendOpt struct{}

// SendOpt mirrors stomp.SendOpt.
var SendOpt sendOpt

func (sendOpt) Header(k, v string) func(*Frame) error {
	return func(f *Frame) error {
		if f.Header == nil {
			f.Header = map[string]string{}
		}
		f.Header[k] = v
		return nil
	}
}

type subscribeOpt struct{}

// SubscribeOpt mirrors stomp.SubscribeOpt (Id, Header).
var SubscribeOpt subscribeOpt

func (subscribeOpt) Id(id string) func(*Frame) error { return SendOpt.Header("id", id) }
func (subscribeOpt) Header(k, v string) func(*Frame) error { return SendOpt.Header(k, v) }

type Message struct {
	Destination  string
	ContentType  string
	Conn         *Conn
	Subscription *Subscription
	Header       map[string]string
	Body         []byte
	Err          error
	Seq          int
}

type Sent struct {
	Destination string
	ContentType string
	Body        []byte
	Header      map[string]string
}

type Conn struct {
	obj    *vsched.Obj
	subs   []*Subscription
	Sent   []Sent
	Acked  []int
	seq    int
	closed bool
	rr     int
	nsub   int
	held   map[string][]held
	OnSend func(dest string, body []byte) error
	// FailAcks makes every Ack fail (a broker that rejects acknowledgements, e.g. for a
	// subscription in auto-ack mode).
	FailAcks bool
}

type Subscription struct {
	C           chan *Message
	destination string
	conn        *Conn
	active      bool
	ack         AckMode
	id          string
	outstanding *held // queue subscriptions with client acks: the message not yet acknowledged
}

func NewConn() *Conn { return &Conn{obj: vsched.NewObj("stompconn")} }

func (c *Conn) Subscribe(dest string, ack AckMode, opts ...func(*Frame) error) (*Subscription, error) {
	vsched.Yield()
	c.obj.Write()
	if c.closed {
		return nil, ErrClosedUnexpectedly
	}
	f := &Frame{}
	for _, o := range opts {
		if o != nil {
			if err := o(f); err != nil {
				return nil, err
			}
		}
	}
	c.nsub++
	s := &Subscription{C: make(chan *Message, 16), destination: dest, conn: c, active: true, ack: ack, id: fmt.Sprintf("sub-%d", c.nsub)}
	if id, ok := f.Header["id"]; ok {
		s.id = id
	}
	for _, o := range c.subs {
		if o.active && o.id == s.id {
			// a second SUBSCRIBE with an id in use: the client's routing table is keyed by the id, so
			// the new subscription takes the entry over and the earlier one is orphaned — it gets
			// nothing any more, not even the error, and its channel is never closed. The broker answers
			// with an ERROR frame and closes the connection; every subscription still in the routing
			// table gets the error and is closed. Subscribe itself has already returned by then (it
			// does not wait for a receipt). (Observed on go-stomp v2.1.4 by the conformance step.)
			c.subs = append(c.subs, s)
			c.closed = true
			for _, x := range c.subs {
				if !x.active {
					continue
				}
				x.active = false
				if x != s && x.id == s.id {
					continue
				}
				vsched.SendNow(x.C, &Message{Err: errors.New("subscription already exists"), Conn: c, Subscription: x})
				vsched.CloseNow(x.C, 0x0c105e)
			}
			return s, nil
		}
	}
	c.subs = append(c.subs, s)
	if strings.HasPrefix(dest, "/queue/") {
		c.pump(dest)
	}
	return s, nil
}

func (s *Subscription) Active() bool { s.conn.obj.Read(); return s.active }

func (s *Subscription) Unsubscribe(opts ...func(*Frame) error) error {
	s.conn.obj.Write()
	if !s.active {
		return ErrCompletedSubscription
	}
	// UNSUBSCRIBE travels to the broker (a visible step); its RECEIPT closes the channel
	vsched.Yield()
	s.conn.obj.Write()
	s.active = false
	vsched.CloseNow(s.C, 0x0c105e)
	if s.outstanding != nil {
		// a queue message that was never acknowledged goes back to the head of the queue
		h := *s.outstanding
		s.outstanding = nil
		s.conn.held[s.destination] = append([]held{h}, s.conn.held[s.destination]...)
		s.conn.pump(s.destination)
	}
	return nil
}

func (c *Conn) Send(dest, contentType string, body []byte, opts ...func(*Frame) error) error {
	vsched.Yield()
	c.obj.Write()
	if c.closed {
		return ErrClosedUnexpectedly
	}
	if c.OnSend != nil {
		if err := c.OnSend(dest, body); err != nil {
			return err
		}
	}
	f := &Frame{}
	for _, o := range opts {
		if o != nil {
			if err := o(f); err != nil {
				return err
			}
		}
	}
	c.seq++
	c.Sent = append(c.Sent, Sent{Destination: dest, ContentType: contentType, Body: append([]byte(nil), body...), Header: f.Header})
	c.Deliver(dest, contentType, body)
	return nil
}

type held struct {
	contentType string
	body        []byte
	seq         int
}

// pump hands queued messages of a /queue/ destination to subscriptions that can take one: a queue
// keeps a message until a subscriber is there, gives each message to one subscriber, and gives a
// subscriber whose ack mode is not auto one message at a time (the next one after the ack).
// (go-stomp's server package; observed by the conformance step.)
func (c *Conn) pump(dest string) {
	for len(c.held[dest]) > 0 {
		var free []*Subscription
		for _, s := range c.subs {
			if s.active && s.destination == dest && s.outstanding == nil {
				free = append(free, s)
			}
		}
		if len(free) == 0 {
			return
		}
		s := free[0]
		if len(free) > 1 {
			s = free[vsched.Choose(len(free))]
		}
		h := c.held[dest][0]
		c.held[dest] = c.held[dest][1:]
		if s.ack != AckAuto {
			hh := h
			s.outstanding = &hh
		}
		m := &Message{Destination: dest, ContentType: h.contentType, Conn: c, Subscription: s, Body: h.body, Seq: h.seq}
		if !vsched.SendNow(s.C, m) {
			panic("fakestomp: subscription buffer full or closed (outside the modelled range)")
		}
	}
}

// Deliver routes a message to the matching active subscriptions (topic: all of them, dropped when
// there is none; queue: see pump).
func (c *Conn) Deliver(dest, contentType string, body []byte) {
	if strings.HasPrefix(dest, "/queue/") {
		if c.held == nil {
			c.held = map[string][]held{}
		}
		c.held[dest] = append(c.held[dest], held{contentType, append([]byte(nil), body...), c.seq})
		c.pump(dest)
		return
	}
	var targets []*Subscription
	for _, s := range c.subs {
		if s.active && s.destination == dest {
			targets = append(targets, s)
		}
	}
	for _, s := range targets {
		m := &Message{Destination: dest, ContentType: contentType, Conn: c, Subscription: s, Body: append([]byte(nil), body...), Seq: c.seq}
		// the subscription's read loop forwards frames into C; with fewer than 16 undelivered
		// messages this never blocks, so it is modelled as atomic with the broker step
		if !vsched.SendNow(s.C, m) {
			panic("fakestomp: subscription buffer full or closed (outside the modelled range)")
		}
	}
}

func (c *Conn) Ack(m *Message) error {
	vsched.Yield()
	if c.FailAcks {
		// rejected acknowledgements leave no trace on the connection, so they commute
		return errors.New("stomp: ack rejected")
	}
	c.obj.Write()
	if c.closed {
		return ErrClosedUnexpectedly
	}
	c.Acked = append(c.Acked, m.Seq)
	if s := m.Subscription; s != nil && s.outstanding != nil && s.outstanding.seq == m.Seq {
		s.outstanding = nil
		c.pump(s.destination)
	}
	return nil
}

func (c *Conn) Disconnect() error { c.obj.Write(); c.closed = true; return nil }
