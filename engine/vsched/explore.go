package vsched

import (
	"encoding/json"
	"fmt"
	"os"
	"sort"
	"strings"
	"time"
)

// Violation is a property violation found in one execution.
type Violation struct {
	Key     string   `json:"key"`     // stable identity (for known-findings matching)
	Msg     string   `json:"msg"`     // human readable
	Choices []int    `json:"choices"` // replayable schedule
	Trace   []string `json:"trace,omitempty"`
	Log     []string `json:"log,omitempty"`
	Dev     int      `json:"deviations"`
}

// Explorer enumerates all executions of Body up to a deviation bound.
type Explorer struct {
	Body func()
	// Check inspects a finished execution (before teardown). It returns an outcome label (for the
	// distinct-outcome count) and a violation or nil.
	Check    func(e *Exec) (string, *Violation)
	Bound    int // maximum deviations per execution; <0 = unbounded
	Prune    bool
	MaxSteps int
	MaxExecs int64
	Deadline time.Time
	MaxViol  int

	Stats      Stats
	Violations []*Violation
	visited    map[uint64]int8
	seenViol   map[string]bool
}

// Stats of an exploration.
type Stats struct {
	Execs       int64          `json:"executions"`
	Complete    int64          `json:"complete"`
	Pruned      int64          `json:"pruned"`
	HorizonHits int64          `json:"horizon_hits"`
	States      int64          `json:"states"`
	Transitions int64          `json:"transitions"`
	MaxPoints   int            `json:"max_points"`
	MaxThreads  int            `json:"max_threads"`
	Outcomes    map[string]int `json:"outcomes"`
	Capped      string         `json:"capped,omitempty"`
	Bound       int            `json:"bound"`
	Sample      []string       `json:"-"`
}

type capHit struct{ why string }

// Explore runs the search.
func (x *Explorer) Explore() {
	x.visited = map[uint64]int8{}
	x.seenViol = map[string]bool{}
	x.Stats.Outcomes = map[string]int{}
	x.Stats.Bound = x.Bound
	if x.MaxViol == 0 {
		x.MaxViol = 5
	}
	defer func() {
		if r := recover(); r != nil {
			if c, ok := r.(capHit); ok {
				x.Stats.Capped = c.why
				return
			}
			panic(r)
		}
	}()
	x.explore(nil)
}

func (x *Explorer) opts(trace bool) *Options {
	return &Options{MaxSteps: x.MaxSteps, Trace: trace, Visited: x.visited, Bound: x.Bound, Prune: x.Prune}
}

func (x *Explorer) explore(prefix []int) {
	if x.MaxExecs > 0 && x.Stats.Execs >= x.MaxExecs {
		panic(capHit{fmt.Sprintf("execution cap %d", x.MaxExecs)})
	}
	if !x.Deadline.IsZero() && x.Stats.Execs%64 == 0 && time.Now().After(x.Deadline) {
		panic(capHit{"time budget"})
	}
	e := Run(x.Body, prefix, x.opts(false))
	x.Stats.Execs++
	x.Stats.Transitions += int64(e.Transitions)
	x.Stats.States += int64(e.NewStates)
	if len(e.Points) > x.Stats.MaxPoints {
		x.Stats.MaxPoints = len(e.Points)
	}
	if len(e.threads) > x.Stats.MaxThreads {
		x.Stats.MaxThreads = len(e.threads)
	}
	if e.Diverged != "" {
		e.Finish()
		panic("ENGINE-ERROR: " + e.Diverged + fmt.Sprintf(" prefix=%v", prefix))
	}
	switch e.Status {
	case Pruned:
		x.Stats.Pruned++
	default:
		if e.Status == Horizon {
			x.Stats.HorizonHits++
		}
		x.Stats.Complete++
		out, v := x.Check(e)
		x.Stats.Outcomes[out]++
		if len(x.Stats.Sample) < 3 {
			x.Stats.Sample = append(x.Stats.Sample, fmt.Sprintf("choices=%v outcome=%s", e.Choices(), out))
		}
		if v != nil && !x.seenViol[v.Key] {
			x.seenViol[v.Key] = true
			v.Choices = e.Choices()
			v.Dev = e.used
			v.Log = e.Log
			x.Violations = append(x.Violations, v)
			if len(x.Violations) >= x.MaxViol {
				e.Finish()
				panic(capHit{"violation cap"})
			}
		}
	}
	pts := e.Points
	e.Finish()
	used := 0
	for i := 0; i < len(pts); i++ {
		p := pts[i]
		if i >= len(prefix) {
			for a := 0; a < p.N; a++ {
				if a == p.Chosen {
					continue
				}
				c := used
				if p.Costs&(1<<uint(a)) != 0 {
					c++
				}
				if x.Bound >= 0 && c > x.Bound {
					continue
				}
				np := make([]int, i+1)
				for j := 0; j < i; j++ {
					np[j] = pts[j].Chosen
				}
				np[i] = a
				x.explore(np)
			}
		}
		if p.Costs&(1<<uint(p.Chosen)) != 0 {
			used++
		}
	}
}

// Replay re-executes one choice sequence with tracing; it verifies determinism by running twice.
func (x *Explorer) Replay(choices []int) (e1 *Exec, out string, v *Violation, err error) {
	var traces [2]string
	for i := 0; i < 2; i++ {
		o := &Options{MaxSteps: x.MaxSteps, Trace: true, Bound: -1}
		e := Run(x.Body, choices, o)
		if e.Diverged != "" {
			e.Finish()
			return nil, "", nil, fmt.Errorf("%s", e.Diverged)
		}
		out, v = x.Check(e)
		traces[i] = strings.Join(e.Trace, "\n")
		if v != nil {
			v.Choices = e.Choices()
			v.Trace = e.Trace
			v.Log = e.Log
		}
		e1 = e
		e.Finish()
	}
	if traces[0] != traces[1] {
		return e1, out, v, fmt.Errorf("nondeterministic replay: traces differ")
	}
	return e1, out, v, nil
}

// OutcomeList returns the distinct outcomes sorted.
func (s *Stats) OutcomeList() []string {
	var o []string
	for k := range s.Outcomes {
		o = append(o, k)
	}
	sort.Strings(o)
	return o
}

// WriteReplay stores a violation as a replay file.
func WriteReplay(path string, harness string, scenario string, v *Violation) error {
	b, _ := json.MarshalIndent(map[string]interface{}{
		"harness": harness, "scenario": scenario, "violation": v,
	}, "", " ")
	return os.WriteFile(path, b, 0o644)
}
