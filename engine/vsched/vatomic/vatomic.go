// Package vatomic mirrors sync/atomic; every operation is a scheduling point followed by the real
// atomic operation.
package vatomic

import (
	"runtime"
	"sync/atomic"
	"unsafe"

	"verif/engine/vsched"
)

func pt(addr unsafe.Pointer, write bool) {
	if vsched.Killed() {
		// the execution is being torn down: a thread that reaches an atomic operation now (typically
		// a spin loop inside a deferred call, which would wait for ever for a value nobody will write
		// any more) ends here; its remaining deferred calls still run
		runtime.Goexit()
	}
	if vsched.Passthrough() {
		return
	}
	o := vsched.ObjAt(uintptr(addr), "atomic")
	p := &vsched.Pend{Kind: vsched.KAtomic, Obj: o, Variants: func() int { return 1 }, Apply: func(int) {
		if write {
			vsched.TouchW(o, vsched.KAtomic)
		} else {
			vsched.TouchR(o, vsched.KAtomic)
		}
	}}
	vsched.DoPoint(p.SetPC(vsched.CallerPC(3)))
}

func AddInt32(a *int32, d int32) int32       { pt(unsafe.Pointer(a), true); return atomic.AddInt32(a, d) }
func AddInt64(a *int64, d int64) int64       { pt(unsafe.Pointer(a), true); return atomic.AddInt64(a, d) }
func AddUint32(a *uint32, d uint32) uint32   { pt(unsafe.Pointer(a), true); return atomic.AddUint32(a, d) }
func AddUint64(a *uint64, d uint64) uint64   { pt(unsafe.Pointer(a), true); return atomic.AddUint64(a, d) }
func AddUintptr(a *uintptr, d uintptr) uintptr { pt(unsafe.Pointer(a), true); return atomic.AddUintptr(a, d) }
func LoadInt32(a *int32) int32               { pt(unsafe.Pointer(a), false); return atomic.LoadInt32(a) }
func LoadInt64(a *int64) int64               { pt(unsafe.Pointer(a), false); return atomic.LoadInt64(a) }
func LoadUint32(a *uint32) uint32            { pt(unsafe.Pointer(a), false); return atomic.LoadUint32(a) }
func LoadUint64(a *uint64) uint64            { pt(unsafe.Pointer(a), false); return atomic.LoadUint64(a) }
func LoadUintptr(a *uintptr) uintptr         { pt(unsafe.Pointer(a), false); return atomic.LoadUintptr(a) }
func LoadPointer(a *unsafe.Pointer) unsafe.Pointer { pt(unsafe.Pointer(a), false); return atomic.LoadPointer(a) }
func StoreInt32(a *int32, v int32)           { pt(unsafe.Pointer(a), true); atomic.StoreInt32(a, v) }
func StoreInt64(a *int64, v int64)           { pt(unsafe.Pointer(a), true); atomic.StoreInt64(a, v) }
func StoreUint32(a *uint32, v uint32)        { pt(unsafe.Pointer(a), true); atomic.StoreUint32(a, v) }
func StoreUint64(a *uint64, v uint64)        { pt(unsafe.Pointer(a), true); atomic.StoreUint64(a, v) }
func StoreUintptr(a *uintptr, v uintptr)     { pt(unsafe.Pointer(a), true); atomic.StoreUintptr(a, v) }
func StorePointer(a *unsafe.Pointer, v unsafe.Pointer) { pt(unsafe.Pointer(a), true); atomic.StorePointer(a, v) }
func SwapInt32(a *int32, v int32) int32      { pt(unsafe.Pointer(a), true); return atomic.SwapInt32(a, v) }
func SwapInt64(a *int64, v int64) int64      { pt(unsafe.Pointer(a), true); return atomic.SwapInt64(a, v) }
func SwapUint32(a *uint32, v uint32) uint32  { pt(unsafe.Pointer(a), true); return atomic.SwapUint32(a, v) }
func SwapUint64(a *uint64, v uint64) uint64  { pt(unsafe.Pointer(a), true); return atomic.SwapUint64(a, v) }
func SwapUintptr(a *uintptr, v uintptr) uintptr { pt(unsafe.Pointer(a), true); return atomic.SwapUintptr(a, v) }
func SwapPointer(a *unsafe.Pointer, v unsafe.Pointer) unsafe.Pointer { pt(unsafe.Pointer(a), true); return atomic.SwapPointer(a, v) }
func CompareAndSwapInt32(a *int32, o, n int32) bool    { pt(unsafe.Pointer(a), true); return atomic.CompareAndSwapInt32(a, o, n) }
func CompareAndSwapInt64(a *int64, o, n int64) bool    { pt(unsafe.Pointer(a), true); return atomic.CompareAndSwapInt64(a, o, n) }
func CompareAndSwapUint32(a *uint32, o, n uint32) bool { pt(unsafe.Pointer(a), true); return atomic.CompareAndSwapUint32(a, o, n) }
func CompareAndSwapUint64(a *uint64, o, n uint64) bool { pt(unsafe.Pointer(a), true); return atomic.CompareAndSwapUint64(a, o, n) }
func CompareAndSwapUintptr(a *uintptr, o, n uintptr) bool { pt(unsafe.Pointer(a), true); return atomic.CompareAndSwapUintptr(a, o, n) }
func CompareAndSwapPointer(a *unsafe.Pointer, o, n unsafe.Pointer) bool { pt(unsafe.Pointer(a), true); return atomic.CompareAndSwapPointer(a, o, n) }

type Int32 struct{ v int32 }

func (x *Int32) Load() int32                  { return LoadInt32(&x.v) }
func (x *Int32) Store(v int32)                { StoreInt32(&x.v, v) }
func (x *Int32) Add(d int32) int32            { return AddInt32(&x.v, d) }
func (x *Int32) Swap(v int32) int32           { return SwapInt32(&x.v, v) }
func (x *Int32) CompareAndSwap(o, n int32) bool { return CompareAndSwapInt32(&x.v, o, n) }

type Int64 struct{ v int64 }

func (x *Int64) Load() int64                  { return LoadInt64(&x.v) }
func (x *Int64) Store(v int64)                { StoreInt64(&x.v, v) }
func (x *Int64) Add(d int64) int64            { return AddInt64(&x.v, d) }
func (x *Int64) Swap(v int64) int64           { return SwapInt64(&x.v, v) }
func (x *Int64) CompareAndSwap(o, n int64) bool { return CompareAndSwapInt64(&x.v, o, n) }

type Uint32 struct{ v uint32 }

func (x *Uint32) Load() uint32                  { return LoadUint32(&x.v) }
func (x *Uint32) Store(v uint32)                { StoreUint32(&x.v, v) }
func (x *Uint32) Add(d uint32) uint32           { return AddUint32(&x.v, d) }
func (x *Uint32) Swap(v uint32) uint32          { return SwapUint32(&x.v, v) }
func (x *Uint32) CompareAndSwap(o, n uint32) bool { return CompareAndSwapUint32(&x.v, o, n) }

type Uint64 struct{ v uint64 }

func (x *Uint64) Load() uint64                  { return LoadUint64(&x.v) }
func (x *Uint64) Store(v uint64)                { StoreUint64(&x.v, v) }
func (x *Uint64) Add(d uint64) uint64           { return AddUint64(&x.v, d) }
func (x *Uint64) Swap(v uint64) uint64          { return SwapUint64(&x.v, v) }
func (x *Uint64) CompareAndSwap(o, n uint64) bool { return CompareAndSwapUint64(&x.v, o, n) }

type Uintptr struct{ v uintptr }

func (x *Uintptr) Load() uintptr         { return LoadUintptr(&x.v) }
func (x *Uintptr) Store(v uintptr)       { StoreUintptr(&x.v, v) }
func (x *Uintptr) Add(d uintptr) uintptr { return AddUintptr(&x.v, d) }

type Bool struct{ v uint32 }

func (x *Bool) Load() bool { return LoadUint32(&x.v) != 0 }
func (x *Bool) Store(v bool) {
	if v {
		StoreUint32(&x.v, 1)
	} else {
		StoreUint32(&x.v, 0)
	}
}
func (x *Bool) Swap(v bool) bool {
	n := uint32(0)
	if v {
		n = 1
	}
	return SwapUint32(&x.v, n) != 0
}
func (x *Bool) CompareAndSwap(o, n bool) bool {
	var a, b uint32
	if o {
		a = 1
	}
	if n {
		b = 1
	}
	return CompareAndSwapUint32(&x.v, a, b)
}

type Value struct{ v atomic.Value }

func (x *Value) Load() any                     { pt(unsafe.Pointer(x), false); return x.v.Load() }
func (x *Value) Store(v any)                   { pt(unsafe.Pointer(x), true); x.v.Store(v) }
func (x *Value) Swap(v any) any                { pt(unsafe.Pointer(x), true); return x.v.Swap(v) }
func (x *Value) CompareAndSwap(o, n any) bool  { pt(unsafe.Pointer(x), true); return x.v.CompareAndSwap(o, n) }

type Pointer[T any] struct{ p atomic.Pointer[T] }

func (x *Pointer[T]) Load() *T                  { pt(unsafe.Pointer(x), false); return x.p.Load() }
func (x *Pointer[T]) Store(v *T)                { pt(unsafe.Pointer(x), true); x.p.Store(v) }
func (x *Pointer[T]) Swap(v *T) *T              { pt(unsafe.Pointer(x), true); return x.p.Swap(v) }
func (x *Pointer[T]) CompareAndSwap(o, n *T) bool { pt(unsafe.Pointer(x), true); return x.p.CompareAndSwap(o, n) }
