package vsched

// Timer is a virtual-time event. Timers fire in deadline order; by default only when no thread is
// enabled (time advances at quiescence); firing one while a thread is enabled is a deviation that
// the explorer enumerates too.
type Timer struct {
	when    int64
	seq     int
	pending bool
	fire    func(h uint64)
	obj     *Obj
	what    string
	owner   int // id of the creating thread (-1: scheduler context)
}

// Owner returns the id of the thread that created the timer.
func (tm *Timer) Owner() int { return tm.owner }

// TimersOwnedBy lists all timers (pending or not) created by thread id since the last compaction.
func (e *Exec) TimersOwnedBy(id int) []*Timer {
	var out []*Timer
	for _, tm := range e.alltimers {
		if tm.owner == id {
			out = append(out, tm)
		}
	}
	return out
}

// AddTimer registers a timer d nanoseconds from now on behalf of the running thread.
func AddTimer(d int64, what string, fire func(h uint64)) *Timer {
	e := cur
	if d < 0 {
		d = 0
	}
	tm := &Timer{when: e.clock + d, seq: e.tseq, pending: true, fire: fire, what: what, owner: -1}
	if e.cur != nil {
		tm.owner = e.cur.ID
	}
	e.alltimers = append(e.alltimers, tm)
	e.tseq++
	tm.obj = &Obj{Ord: e.nextOrd, Name: "timer", epoch: e.epoch}
	e.nextOrd++
	if t := e.cur; t != nil {
		t.H = mix(t.H, uint64(KTimer), uint64(d))
		tm.obj.H = mix(t.H, 0x71)
	}
	e.timers = append(e.timers, tm)
	return tm
}

// Stop cancels the timer; reports whether it was still pending.
func (tm *Timer) Stop() bool {
	e := cur
	was := tm.pending
	tm.pending = false
	if e != nil && e.cur != nil {
		w := uint64(0)
		if was {
			w = 1
		}
		e.cur.H = mix(e.cur.H, tm.obj.H, 0x5709, w)
	}
	return was
}

// Pending reports whether the timer has neither fired nor been stopped.
func (tm *Timer) Pending() bool { return tm.pending }

// When returns the deadline in virtual nanoseconds.
func (tm *Timer) When() int64 { return tm.when }

func (e *Exec) fireTimer(tm *Timer) {
	tm.pending = false
	if tm.when > e.clock {
		e.clock = tm.when
	}
	// compact the list now and then
	if len(e.timers) > 32 {
		j := 0
		for _, x := range e.timers {
			if x.pending {
				e.timers[j] = x
				j++
			}
		}
		e.timers = e.timers[:j]
	}
	tm.fire(mix(tm.obj.H, 0xf19e, uint64(tm.when)))
}

// Sleep parks the running thread for d virtual nanoseconds.
func Sleep(d int64) {
	e := cur
	if e == nil || e.killed || e.cur == nil {
		return
	}
	if d <= 0 {
		Yield()
		return
	}
	t := e.cur
	fired := false
	var fh uint64
	tm := AddTimer(d, "sleep", func(h uint64) { fired = true; fh = h })
	p := &Pend{Kind: KSleep, Obj: tm.obj, Variants: func() int {
		if fired {
			return 1
		}
		return 0
	}, Apply: func(int) { t.H = mix(t.H, fh) }}
	p.pc = callerPC(2)
	e.Do(p)
}

// ClockNow returns the virtual clock and folds it into the running thread's hash.
func ClockNow() int64 {
	e := cur
	if e == nil {
		return 0
	}
	if e.cur != nil && !e.killed {
		e.cur.H = mix(e.cur.H, uint64(e.clock), 0xc10c)
	}
	return e.clock
}

// TimerSendNow is used by time shims: deliver v on a cap-1 channel from a timer callback.
func TimerSendNow[T any](ch chan T, v T, h uint64) bool {
	e := cur
	if e == nil {
		return false
	}
	return e.sendNow(chanPtr(ch), cap(ch), ch, v, h)
}

// SendNow appends v to a buffered channel without a scheduling point (broker-side delivery that is
// atomic with the step that caused it); reports false if the channel is closed or full.
func SendNow[T any](ch chan T, v T) bool {
	e := cur
	if e == nil || e.killed {
		return false
	}
	var h uint64 = 0x5e4d
	if e.cur != nil {
		h = e.cur.H
	}
	return e.sendNow(chanPtr(ch), cap(ch), ch, v, h)
}

// CloseNow closes ch from a timer callback (not a scheduling point).
func CloseNow[T any](ch chan T, h uint64) {
	e := cur
	if e == nil {
		return
	}
	e.closeNow(chanPtr(ch), cap(ch), ch, h)
}

// SpawnFromTimer starts a logical thread from a timer callback.
func SpawnFromTimer(name string, h uint64, f func()) {
	e := cur
	if e == nil || e.killed {
		return
	}
	t := e.newThread(name, mix(h, 0x5157))
	t.pend = &Pend{Kind: KSpawn, Variants: one, Apply: func(int) {}, Where: name}
	t.started = true
	go func() {
		<-t.wake
		if e.killed {
			t.done = true
			close(t.exited)
			return
		}
		e.threadMain(t, f)
	}()
}
