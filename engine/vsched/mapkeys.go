package vsched

import (
	"fmt"
	"os"
	"sort"
	"sync"
)

// MapKeys returns the keys of m in a canonical order so that the checker owns every map iteration of
// an instrumented program: ascending by default, descending for the site named in VERIF_FLIP (or for
// every site when VERIF_FLIP=ALL). Every site reached is appended once to the file VERIF_SITES_OUT.
func MapKeys[M ~map[K]V, K comparable, V any](m M, site string) []K {
	keys := make([]K, 0, len(m))
	for k := range m {
		keys = append(keys, k)
	}
	strs := make([]string, len(keys))
	for i, k := range keys {
		strs[i] = fmt.Sprint(k)
	}
	idx := make([]int, len(keys))
	for i := range idx {
		idx[i] = i
	}
	flip := os.Getenv("VERIF_FLIP")
	desc := flip == site || flip == "ALL"
	sort.SliceStable(idx, func(a, b int) bool {
		if desc {
			return strs[idx[a]] > strs[idx[b]]
		}
		return strs[idx[a]] < strs[idx[b]]
	})
	out := make([]K, len(keys))
	for i, j := range idx {
		out[i] = keys[j]
	}
	noteSite(site, len(keys))
	return out
}

var (
	siteMu   sync.Mutex
	siteSeen = map[string]bool{}
)

func noteSite(site string, n int) {
	path := os.Getenv("VERIF_SITES_OUT")
	if path == "" || n < 2 {
		return // an iteration over fewer than two entries cannot depend on the order
	}
	siteMu.Lock()
	defer siteMu.Unlock()
	if siteSeen[site] {
		return
	}
	siteSeen[site] = true
	f, err := os.OpenFile(path, os.O_APPEND|os.O_CREATE|os.O_WRONLY, 0o644)
	if err != nil {
		return
	}
	fmt.Fprintln(f, site)
	f.Close()
}
