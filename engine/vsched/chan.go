package vsched

import (
	"unsafe"
)

// Channels of the program under test stay real Go channels for typing and identity only: their
// contents live in a shadow state owned by the execution, so enabledness is computed exactly and
// every send / receive / close / select is one atomic, replayable transition.

type msg struct {
	v interface{}
	h uint64
}

type chanState struct {
	obj    *Obj
	cap    int
	buf    []msg
	closed bool
	closeH uint64
	keep   interface{}
}

func chanPtr[C any](ch C) uintptr { return *(*uintptr)(unsafe.Pointer(&ch)) }

func (e *Exec) chanOf(p uintptr, c int, keep interface{}) *chanState {
	if p == 0 {
		return nil
	}
	if cs, ok := e.chans[p]; ok {
		return cs
	}
	cs := &chanState{cap: c, keep: keep}
	cs.obj = &Obj{Ord: e.nextOrd, Name: "chan", epoch: e.epoch}
	e.nextOrd++
	cs.obj.H = mix(uint64(cs.obj.Ord), 0xc4a2)
	cs.obj.H2 = mix(uint64(cs.obj.Ord), 0xc4a3)
	e.chans[p] = cs
	return cs
}

// selCase is one communication clause of a (possibly single-clause) select.
type selCase interface {
	state(e *Exec) *chanState
	send() bool
	value() interface{}            // send: value to transmit
	deliver(v interface{}, ok bool) // recv: store the received value
}

type selOp struct {
	e          *Exec
	t          *Thread
	cases      []selCase
	cs         []*chanState
	hasDefault bool
	fired      int
	completed  bool // completed by a partner (rendezvous)
	// variant table built by variants(), consumed by apply()
	vt []variant
	sendPanic bool
}

type variant struct {
	caseIdx int
	partner *selOp // unbuffered rendezvous partner (nil otherwise)
	pcase   int
	racy    bool // default taken although a rendezvous partner is pending (it had not parked yet)
}

// parkedOps lists the pending channel operations of all other parked threads.
func (e *Exec) partners(self *Thread, cs *chanState, wantSend bool, out []variant, caseIdx int) []variant {
	for _, t := range e.threads {
		if t == self || t.done || t.pend == nil || t.pend.sel == nil {
			continue
		}
		so := t.pend.sel
		if so.completed {
			continue
		}
		for j, c := range so.cs {
			if c == cs && so.cases[j].send() == wantSend {
				out = append(out, variant{caseIdx: caseIdx, partner: so, pcase: j})
			}
		}
	}
	return out
}

func (so *selOp) variants() int {
	if so.completed {
		return 1
	}
	so.vt = so.vt[:0]
	e := so.e
	for i, c := range so.cases {
		cs := so.cs[i]
		if cs == nil {
			continue // nil channel: never ready
		}
		if c.send() {
			if cs.closed {
				so.vt = append(so.vt, variant{caseIdx: i})
			} else if cs.cap > 0 {
				if len(cs.buf) < cs.cap {
					so.vt = append(so.vt, variant{caseIdx: i})
				}
			} else {
				so.vt = e.partners(so.t, cs, false, so.vt, i)
			}
		} else {
			if len(cs.buf) > 0 || cs.closed {
				so.vt = append(so.vt, variant{caseIdx: i})
			} else if cs.cap == 0 && so.hasDefault {
				// a receive only initiates a rendezvous when it could otherwise fall to default;
				// blocking receives are completed by the sender (one transition per rendezvous)
				so.vt = e.partners(so.t, cs, true, so.vt, i)
			}
		}
	}
	if len(so.vt) == 0 && so.hasDefault {
		so.vt = append(so.vt, variant{caseIdx: -1})
	} else if so.hasDefault {
		// Every ready case is a rendezvous with a thread whose blocking operation is pending. The code
		// between two synchronisation operations is atomic here, so such a thread counts as parked the
		// moment its previous operation is done; a real goroutine may not have reached the channel
		// yet, and a non-blocking operation then falls to default. That outcome is offered as one more
		// alternative, at the price of a deviation.
		onlyPartners := true
		for _, v := range so.vt {
			if v.partner == nil {
				onlyPartners = false
			}
		}
		if onlyPartners {
			so.vt = append(so.vt, variant{caseIdx: -1, racy: true})
		}
	}
	return len(so.vt)
}

// deviation reports whether variant v of the last variants() call is the racy default.
func (so *selOp) deviation(v int) bool {
	return !so.completed && v < len(so.vt) && so.vt[v].racy
}

func (so *selOp) apply(v int) {
	if so.completed {
		return
	}
	t := so.t
	vr := so.vt[v]
	so.fired = vr.caseIdx
	if vr.caseIdx < 0 {
		t.H = mix(t.H, uint64(KSelect), 0xdef)
		return
	}
	c := so.cases[vr.caseIdx]
	cs := so.cs[vr.caseIdx]
	o := cs.obj
	if c.send() {
		if cs.closed {
			so.sendPanic = true
			return
		}
		t.H = mix(t.H, uint64(KSend), uint64(o.Ord), o.H)
		o.H = t.H
		m := msg{v: c.value(), h: t.H}
		if vr.partner != nil {
			p := vr.partner
			p.cases[vr.pcase].deliver(m.v, true)
			p.fired = vr.pcase
			p.completed = true
			p.t.H = mix(p.t.H, uint64(KRecv), uint64(o.Ord), o.H2, m.h)
			o.H2 = p.t.H
			return
		}
		cs.buf = append(cs.buf, m)
		return
	}
	// receive
	if vr.partner != nil {
		p := vr.partner
		pt := p.t
		pt.H = mix(pt.H, uint64(KSend), uint64(o.Ord), o.H)
		o.H = pt.H
		val := p.cases[vr.pcase].value()
		p.fired = vr.pcase
		p.completed = true
		c.deliver(val, true)
		t.H = mix(t.H, uint64(KRecv), uint64(o.Ord), o.H2, pt.H)
		o.H2 = t.H
		return
	}
	if len(cs.buf) > 0 {
		m := cs.buf[0]
		cs.buf = cs.buf[1:]
		c.deliver(m.v, true)
		t.H = mix(t.H, uint64(KRecv), uint64(o.Ord), o.H2, m.h)
		o.H2 = t.H
		return
	}
	// closed and drained
	c.deliver(nil, false)
	t.H = mix(t.H, uint64(KRecv), uint64(o.Ord), cs.closeH, 0xc105ed)
}

func (e *Exec) runSel(so *selOp, kind Kind, obj *Obj) { e.runSelAt(so, kind, obj, 4) }

// runSelAt is runSel with the number of frames between it and the user's statement.
func (e *Exec) runSelAt(so *selOp, kind Kind, obj *Obj, skip int) {
	so.e = e
	so.t = e.cur
	so.cs = make([]*chanState, len(so.cases))
	for i, c := range so.cases {
		so.cs[i] = c.state(e)
	}
	if obj == nil && len(so.cs) > 0 && so.cs[0] != nil {
		obj = so.cs[0].obj
	}
	p := &Pend{Kind: kind, Obj: obj, Variants: so.variants, Apply: so.apply, Deviation: so.deviation, sel: so}
	p.pc = callerPC(skip)
	e.Do(p)
	if so.sendPanic {
		panic("send on closed channel")
	}
}

// ---- typed cases -------------------------------------------------------------------------------

// RecvCase is a receive clause.
type RecvCase[T any] struct {
	p    uintptr
	c    int
	keep interface{}
	Val  T
	Ok   bool
}

func (r *RecvCase[T]) state(e *Exec) *chanState { return e.chanOf(r.p, r.c, r.keep) }
func (r *RecvCase[T]) send() bool               { return false }
func (r *RecvCase[T]) value() interface{}       { return nil }
func (r *RecvCase[T]) deliver(v interface{}, ok bool) {
	r.Ok = ok
	if v != nil {
		r.Val = v.(T)
	}
}

// SendCase is a send clause.
type SendCase[T any] struct {
	p    uintptr
	c    int
	keep interface{}
	v    T
}

func (s *SendCase[T]) state(e *Exec) *chanState       { return e.chanOf(s.p, s.c, s.keep) }
func (s *SendCase[T]) send() bool                     { return true }
func (s *SendCase[T]) value() interface{}             { return s.v }
func (s *SendCase[T]) deliver(v interface{}, ok bool) {}

// Case is implemented by *RecvCase and *SendCase.
type Case interface{ selCase }

// NewRecv builds a receive clause for Select.
func NewRecv[C ~chan T | ~<-chan T, T any](ch C) *RecvCase[T] {
	return &RecvCase[T]{p: chanPtr(ch), c: cap(ch), keep: ch}
}

// NewSend builds a send clause for Select.
func NewSend[C ~chan T | ~chan<- T, T any](ch C, v T) *SendCase[T] {
	return &SendCase[T]{p: chanPtr(ch), c: cap(ch), keep: ch, v: v}
}

// NewSendTo(ch)(v) is NewSend with the element type taken from the channel alone (used by the
// instrumenter: v then converts by plain assignability, as in `case ch <- v:`).
func NewSendTo[C ~chan T | ~chan<- T, T any](ch C) func(T) *SendCase[T] {
	return func(v T) *SendCase[T] { return NewSend[C, T](ch, v) }
}

// SendTo(ch)(v) is Send with the element type taken from the channel alone.
func SendTo[C ~chan T | ~chan<- T, T any](ch C) func(T) {
	return func(v T) {
		e := cur
		if e == nil || e.cur == nil || e.killed {
			Send[C, T](ch, v)
			return
		}
		sc := &SendCase[T]{p: chanPtr(ch), c: cap(ch), keep: ch, v: v}
		e.runSelAt(&selOp{cases: []selCase{sc}}, KSend, nil, 3) // the closure is called from the user's statement
	}
}

// Select fires one ready clause (or default) and returns its index (-1 = default).
func Select(hasDefault bool, cases ...Case) int {
	e := cur
	if e == nil || e.killed || e.cur == nil {
		if e != nil && e.killed {
			if hasDefault || len(cases) == 0 {
				return -1
			}
			return 0
		}
		panic("vsched.Select outside an execution")
	}
	so := &selOp{hasDefault: hasDefault, cases: make([]selCase, len(cases))}
	for i, c := range cases {
		so.cases[i] = c
	}
	e.runSel(so, KSelect, nil)
	return so.fired
}

// Send is `ch <- v`.
func Send[C ~chan T | ~chan<- T, T any](ch C, v T) {
	e := cur
	if e == nil || e.cur == nil {
		if e != nil && e.killed {
			return
		}
		realSend(ch, v)
		return
	}
	if e.killed {
		return
	}
	sc := &SendCase[T]{p: chanPtr(ch), c: cap(ch), keep: ch, v: v}
	so := &selOp{cases: []selCase{sc}}
	e.runSel(so, KSend, nil)
}

// Recv is `<-ch`.
func Recv[C ~chan T | ~<-chan T, T any](ch C) T {
	v, _ := Recv2[C, T](ch)
	return v
}

// Recv2 is `v, ok := <-ch`.
func Recv2[C ~chan T | ~<-chan T, T any](ch C) (T, bool) {
	e := cur
	if e == nil || e.cur == nil {
		var z T
		if e != nil && e.killed {
			return z, false
		}
		return realRecv[C, T](ch)
	}
	if e.killed {
		var z T
		return z, false
	}
	rc := &RecvCase[T]{p: chanPtr(ch), c: cap(ch), keep: ch}
	so := &selOp{cases: []selCase{rc}}
	e.runSel(so, KRecv, nil)
	return rc.Val, rc.Ok
}

// Close is `close(ch)`.
func Close[C ~chan T | ~chan<- T, T any](ch C) {
	e := cur
	if e == nil || e.cur == nil {
		if e != nil && e.killed {
			return
		}
		realClose(ch)
		return
	}
	if e.killed {
		return
	}
	p := chanPtr(ch)
	if p == 0 {
		panic("close of nil channel")
	}
	cs := e.chanOf(p, cap(ch), ch)
	t := e.cur
	bad := false
	pd := &Pend{Kind: KClose, Obj: cs.obj, Variants: one, Apply: func(int) {
		if cs.closed {
			bad = true
			return
		}
		t.H = mix(t.H, uint64(KClose), uint64(cs.obj.Ord), cs.obj.H)
		cs.obj.H = t.H
		cs.closed = true
		cs.closeH = t.H
	}}
	pd.pc = callerPC(2)
	e.Do(pd)
	if bad {
		panic("close of closed channel")
	}
}

// CloseNow closes a channel from scheduler context (timer callbacks); not a scheduling point.
func (e *Exec) closeNow(p uintptr, c int, keep interface{}, h uint64) {
	cs := e.chanOf(p, c, keep)
	if cs.closed {
		return
	}
	cs.closed = true
	cs.closeH = h
	cs.obj.H = mix(cs.obj.H, h)
}

// sendNow appends to a buffered channel from scheduler context if there is room.
func (e *Exec) sendNow(p uintptr, c int, keep interface{}, v interface{}, h uint64) bool {
	cs := e.chanOf(p, c, keep)
	if cs.closed || len(cs.buf) >= cs.cap {
		return false
	}
	cs.obj.H = mix(cs.obj.H, h)
	cs.buf = append(cs.buf, msg{v: v, h: mix(h, cs.obj.H)})
	return true
}

// ChanLen is len(ch) for a shadowed channel.
func ChanLen[C ~chan T | ~<-chan T, T any](ch C) int {
	e := cur
	if e == nil || e.cur == nil {
		return 0
	}
	p := chanPtr(ch)
	if p == 0 {
		return 0
	}
	cs := e.chanOf(p, cap(ch), ch)
	e.cur.H = mix(e.cur.H, cs.obj.H, cs.obj.H2, 0x1e4)
	return len(cs.buf)
}

// ChanInfo reports shadow length / closed flag for oracles (no hb effect).
func ChanInfo[C ~chan T | ~<-chan T, T any](ch C) (n int, closed bool) {
	e := cur
	if e == nil {
		return 0, false
	}
	cs, ok := e.chans[chanPtr(ch)]
	if !ok {
		return 0, false
	}
	return len(cs.buf), cs.closed
}

func realSend[C ~chan T | ~chan<- T, T any](ch C, v T) { ch <- v }
func realRecv[C ~chan T | ~<-chan T, T any](ch C) (T, bool) {
	v, ok := <-ch
	return v, ok
}
func realClose[C ~chan T | ~chan<- T, T any](ch C) { close(ch) }
