package main

import (
	"encoding/json"
	"fmt"
	"path/filepath"
	"strings"

	"github.com/Workiva/frugal/compiler/parser"

	"verif/idlx/idl"
)

func jsonOf(v interface{}) string {
	b, _ := json.Marshal(v)
	return string(b)
}

// diffSection names the first top-level section in which two canonical files differ.
func diffSection(a, b *idl.CFile) string {
	pairs := []struct {
		n    string
		x, y interface{}
	}{{"includes", a.Includes, b.Includes}, {"namespaces", a.Namespaces, b.Namespaces}, {"typedefs", a.Typedefs, b.Typedefs},
		{"enums", a.Enums, b.Enums}, {"consts", a.Consts, b.Consts}, {"structs", a.Structs, b.Structs},
		{"exceptions", a.Exceptions, b.Exceptions}, {"unions", a.Unions, b.Unions}, {"services", a.Services, b.Services}, {"scopes", a.Scopes, b.Scopes}}
	for _, p := range pairs {
		if jsonOf(p.x) != jsonOf(p.y) {
			return fmt.Sprintf("%s: expected %s, parser gave %s", p.n, jsonOf(p.x), jsonOf(p.y))
		}
	}
	return ""
}

// runC10: parse(render(M, style)) must equal M for every atom and every lexical style, and the
// result must not depend on the style.
func runC10(res *result) {
	atoms := idl.AllAtoms(*tier == "thorough")
	styles := idl.Styles(*tier == "thorough")
	res.Extra["atoms"] = len(atoms)
	res.Extra["styles"] = len(styles)
	classes := map[string]int{}
	for ai, a := range atoms {
		if ai%*nshards != *shard {
			continue
		}
		classes[a.Class]++
		res.Nontrivial++
		want := idl.Expect(a.Prog.Files[0])
		first := ""
		for si, st := range styles {
			dir := filepath.Join(*work, fmt.Sprintf("a%d_s%d", ai, si))
			mainPath, texts := writeProgram(dir, a.Prog, st)
			res.Evaluations++
			var got *idl.CFile
			var perr error
			func() {
				defer func() {
					if r := recover(); r != nil {
						perr = fmt.Errorf("parser panic: %v", r)
					}
				}()
				f, err := parser.ParseFrugal(mainPath)
				if err != nil {
					perr = err
					return
				}
				got = dumpFrugal(f)
			}()
			if perr != nil {
				msg := perr.Error()
				if len(msg) > 300 {
					msg = msg[:300]
				}
				res.fail(finding{Key: "C10/rejected/" + a.Name, Atom: a.Name, Style: st.String(), IDL: texts,
					Msg: fmt.Sprintf("valid IDL is rejected (%s): %s", a.Name, strings.ReplaceAll(msg, "\n", " "))})
				break
			}
			if d := diffSection(want, got); d != "" {
				res.fail(finding{Key: "C10/model-mismatch/" + a.Name, Atom: a.Name, Style: st.String(), IDL: texts,
					Msg: fmt.Sprintf("parsed model differs from the declared one (%s): %s", a.Name, d)})
				break
			}
			j := jsonOf(got)
			if first == "" {
				first = j
			} else if j != first {
				res.fail(finding{Key: "C10/style-dependent/" + a.Name, Atom: a.Name, Style: st.String(), IDL: texts,
					Msg: "the parsed model depends on comment / separator / quote style"})
				break
			}
			if len(res.Samples) < 3 && si == 3 {
				res.Samples = append(res.Samples, map[string]interface{}{"atom": a.Name, "style": st.String(), "idl": texts["main.frugal"]})
			}
		}
	}
	res.Extra["classes"] = classes
}
