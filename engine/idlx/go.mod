module verif/idlx

go 1.21
