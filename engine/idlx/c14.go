package main

import (
	"encoding/json"
	"fmt"
	"strings"

	"verif/idlx/idl"
)

// C14 (generated-code part): every sequence of request kinds on one connection of the simple
// server and as separate HTTP requests gets exactly one well-formed reply per two-way request with
// decodable headers, carrying the request's op id and the appropriate message type.

type frameSpec struct {
	Method   string `json:"method"`
	MType    int    `json:"mtype"`
	Args     *idl.W `json:"args"`
	OpID     string `json:"opid"`
	Cid      string `json:"cid"`
	Truncate int    `json:"truncate,omitempty"`
	PayloadLimit int `json:"payload_limit,omitempty"`
	Headers      map[string]string `json:"headers,omitempty"`
}

type replyDesc struct {
	Headers  map[string]string `json:"headers"`
	Name     string            `json:"name"`
	MType    int               `json:"mtype"`
	AppType  int32             `json:"app_type"`
	Tree     *idl.W            `json:"tree"`
	ParseErr string            `json:"parse_err"`
	Leftover int               `json:"leftover"`
}

type reqKind struct {
	name      string
	frame     func(opid string) frameSpec
	outcome   *outcomeSpec // nil: the handler is not reached
	expect    string       // reply | exception:<n> | none | reply-or-7
	excField  bool         // REPLY whose result struct carries the declared exception (field 1)
	poisons   bool         // may leave the connection stream unusable (nothing promised for later requests)
}

func i32W(n int64) *idl.W { return &idl.W{T: idl.TI32, I: fmt.Sprint(n)} }

func c14Kinds() []reqKind {
	args := func(f map[string]*idl.W) *idl.W { return &idl.W{T: idl.TStruct, F: f} }
	echo := func(op string) frameSpec { return frameSpec{Method: "echo", MType: 1, Args: args(map[string]*idl.W{"1": i32W(5)}), OpID: op, Cid: "c" + op} }
	strictOK := args(map[string]*idl.W{"1": {T: idl.TStruct, F: map[string]*idl.W{"1": i32W(1)}}})
	strictMissing := args(map[string]*idl.W{"1": {T: idl.TStruct, F: map[string]*idl.W{"2": {T: idl.TString, S: "eA=="}}}})
	return []reqKind{
		{name: "ok", frame: echo, outcome: &outcomeSpec{Kind: "return", Value: iv(9)}, expect: "reply"},
		{name: "void-ok", frame: func(op string) frameSpec { return frameSpec{Method: "ping", MType: 1, OpID: op, Cid: "c" + op} }, outcome: &outcomeSpec{Kind: "return"}, expect: "reply"},
		{name: "declared-exception", frame: echo, outcome: &outcomeSpec{Kind: "exception", ExcType: "Oops", ExcValue: &idl.V{K: "struct", F: map[string]*idl.V{"1": {K: "s", S: "why"}}}}, expect: "reply", excField: true},
		{name: "undeclared-error", frame: echo, outcome: &outcomeSpec{Kind: "error"}, expect: "exception:6"},
		{name: "application-exception", frame: echo, outcome: &outcomeSpec{Kind: "appexc", AppType: 4}, expect: "exception:4"},
		{name: "unknown-method", frame: func(op string) frameSpec { return frameSpec{Method: "nope", MType: 1, Args: args(map[string]*idl.W{"1": i32W(1)}), OpID: op, Cid: "c" + op} }, expect: "exception:1"},
		{name: "strict-ok", frame: func(op string) frameSpec { return frameSpec{Method: "check", MType: 1, Args: strictOK, OpID: op, Cid: "c" + op} }, outcome: &outcomeSpec{Kind: "return"}, expect: "reply"},
		{name: "missing-required-field", frame: func(op string) frameSpec { return frameSpec{Method: "check", MType: 1, Args: strictMissing, OpID: op, Cid: "c" + op} }, expect: "exception:7", poisons: true},
		{name: "wrong-wire-type", frame: func(op string) frameSpec {
			return frameSpec{Method: "echo", MType: 1, Args: args(map[string]*idl.W{"1": {T: idl.TString, S: "c3Ry"}}), OpID: op, Cid: "c" + op}
		}, outcome: &outcomeSpec{Kind: "return", Value: iv(9)}, expect: "reply-or-7", poisons: true},
		{name: "truncated-args", frame: func(op string) frameSpec { f := echo(op); f.Truncate = 3; return f }, expect: "exception:7", poisons: true},
		// the caller allows a reply of at most 5 bytes: the HTTP handler refuses with 413 and no frame,
		// the connection-oriented server knows no such limit and replies
		{name: "reply-refused-for-size", frame: func(op string) frameSpec { f := echo(op); f.PayloadLimit = 5; return f }, outcome: &outcomeSpec{Kind: "return", Value: iv(9)}, expect: "refused-on-http"},
		// the reply (3 000 bytes) does not fit the per-message server's 1 KiB output buffer: that server
		// answers with a RESPONSE_TOO_LARGE application exception (type 100) carrying the request's op id;
		// the other two servers know no such limit and reply
		{name: "reply-too-large-for-the-output-buffer", frame: func(op string) frameSpec { return frameSpec{Method: "blob", MType: 1, OpID: op, Cid: "c" + op} }, outcome: &outcomeSpec{Kind: "return", Value: &idl.V{K: "bin", S: strings.Repeat("QUJD", 1000)}}, expect: "exception:100-on-bounded"},
		{name: "oneway-ok", frame: func(op string) frameSpec { return frameSpec{Method: "fire", MType: 4, Args: args(map[string]*idl.W{"1": i32W(1)}), OpID: op, Cid: "c" + op} }, outcome: &outcomeSpec{Kind: "return"}, expect: "none"},
	}
}

func runC14(res *result) {
	thorough := *tier == "thorough"
	atom := ctxProgram()
	units := prepareGenModule(res, []idl.Atom{atom}, "")
	if *shard != 0 || len(units) == 0 {
		return
	}
	u := units[0]
	r := &idl.Resolver{P: atom.Prog}
	main := atom.Prog.Files[0]
	plan := drvPlan{Structs: r.AllStructRTs()}
	kinds := c14Kinds()
	maxLen := 2
	protos := []string{"binary", "json"}
	if thorough {
		maxLen = 3
		protos = []string{"binary", "compact", "json"}
	}
	type exp struct {
		seq    []reqKind
		cs     *callSpec
		desc   string
		server string
	}
	var exps []exp
	_ = main
	var seqs [][]reqKind
	var rec func(cur []reqKind)
	rec = func(cur []reqKind) {
		if len(cur) > 0 {
			seqs = append(seqs, append([]reqKind{}, cur...))
		}
		if len(cur) == maxLen {
			return
		}
		for _, k := range kinds {
			rec(append(cur, k))
		}
	}
	rec(nil)
	for _, seq := range seqs {
		for si, server := range []string{"simple", "http", "bounded"} {
			for pi, proto := range protos {
				if !thorough && len(seq) == maxLen && (si+pi)%2 == 1 {
					continue // quick: full-length sequences alternate server x protocol
				}
				cs := &callSpec{Kind: "serve", Service: "Svc", Proto: proto, Server: server}
				var names []string
				byOp := map[string]*outcomeSpec{}
				var fss []frameSpec
				for i, k := range seq {
					fss = append(fss, k.frame(fmt.Sprint(100+i)))
					if k.outcome != nil {
						byOp[fmt.Sprint(100+i)] = k.outcome
					}
					names = append(names, k.name)
				}
				raw, _ := json.Marshal(fss)
				var anyFS []map[string]interface{}
				json.Unmarshal(raw, &anyFS)
				csj, _ := json.Marshal(cs)
				var csm map[string]interface{}
				json.Unmarshal(csj, &csm)
				csm["frame_specs"] = anyFS
				csm["outcome_by_opid"] = byOp
				plan.Ops = append(plan.Ops, drvOp{Op: "call", Call: csm})
				exps = append(exps, exp{seq: seq, cs: cs, desc: fmt.Sprintf("%s server, %s: %s", server, proto, strings.Join(names, " -> ")), server: server})
			}
		}
	}
	// an earlier connection whose peer is gone when the reply is written must not affect the next one
	for _, k := range kinds {
		for _, proto := range protos {
			cs := &callSpec{Kind: "serve", Service: "Svc", Proto: proto, Server: "simple"}
			seq := []reqKind{kinds[0], kinds[1]}
			byOp := map[string]*outcomeSpec{}
			var fss []frameSpec
			for i, q := range seq {
				fss = append(fss, q.frame(fmt.Sprint(100+i)))
				if q.outcome != nil {
					byOp[fmt.Sprint(100+i)] = q.outcome
				}
			}
			if k.outcome != nil {
				byOp["900"] = k.outcome
			}
			raw, _ := json.Marshal(fss)
			var anyFS []map[string]interface{}
			json.Unmarshal(raw, &anyFS)
			rawB, _ := json.Marshal([]frameSpec{k.frame("900")})
			var anyB []map[string]interface{}
			json.Unmarshal(rawB, &anyB)
			csj, _ := json.Marshal(cs)
			var csm map[string]interface{}
			json.Unmarshal(csj, &csm)
			csm["frame_specs"] = anyFS
			csm["broken_first"] = anyB
			csm["outcome_by_opid"] = byOp
			plan.Ops = append(plan.Ops, drvOp{Op: "call", Call: csm})
			exps = append(exps, exp{seq: seq, cs: cs, desc: fmt.Sprintf("simple server, %s: after a connection that sent %s and went away before the reply: ok -> void-ok", proto, k.name), server: "simple"})
		}
	}
	res.Nontrivial = int64(len(plan.Ops))
	pj, _ := json.Marshal(plan)
	out, err := runDriver(u, pj)
	if err != nil {
		res.fail(finding{Key: "C14/driver-crashed", Msg: err.Error(), IDL: u.texts})
		return
	}
	var results []drvResult
	if err := json.Unmarshal(out, &results); err != nil || len(results) != len(plan.Ops) {
		res.fail(finding{Key: "C14/harness/driver-output", Msg: fmt.Sprint(err)})
		return
	}
	for i, e := range exps {
		res.Evaluations++
		var cr struct {
			callResult
			Replies []*replyDesc `json:"replies"`
		}
		json.Unmarshal(results[i].Call, &cr)
		// cur is the request whose reply is being judged (the last one until replies are walked)
		cur := e.seq[len(e.seq)-1].name
		fail := func(kind, msg string) {
			res.fail(finding{Key: fmt.Sprintf("C14/%s/%s/%s/%s", kind, e.server, e.cs.Proto, cur), IDL: u.texts, Atom: e.desc, Msg: e.desc + ": " + msg})
		}
		if results[i].Panic != "" || cr.Err != "" {
			fail("serve-failed", results[i].Panic+cr.Err)
			continue
		}
		// walk the sequence; on the simple server a poisoning request ends what is promised
		var replies []*replyDesc
		for _, rp := range cr.Replies {
			if e.server != "simple" || rp.ParseErr == "" || !strings.HasPrefix(rp.ParseErr, "no frame") {
				replies = append(replies, rp)
			}
		}
		ri := 0
		for qi, k := range e.seq {
			cur = k.name
			opid := fmt.Sprint(100 + qi)
			var rp *replyDesc
			if e.server != "simple" {
				if qi >= len(cr.Replies) {
					fail("missing-reply", fmt.Sprintf("request %d (%s) got no reply slot; %d for the sequence", qi, k.name, len(cr.Replies)))
					break
				}
				rp = cr.Replies[qi]
				if k.expect == "refused-on-http" && e.server == "http" {
					if rp.ParseErr != "no frame: HTTP413" {
						fail("oversize-reply-not-refused", fmt.Sprintf("request %d allows 5 bytes of reply and got %q %v", qi, rp.ParseErr, rp.Name))
					}
					continue
				}
				if k.expect == "none" {
					if rp.ParseErr == "" {
						fail("oneway-reply", fmt.Sprintf("request %d (%s) is oneway but got a reply frame", qi, k.name))
					}
					continue
				}
			} else {
				if k.expect == "none" {
					continue
				}
				if ri >= len(replies) {
					fail("missing-reply", fmt.Sprintf("request %d (%s, op id %s) got no reply; %d reply frames for the sequence", qi, k.name, opid, len(replies)))
					break
				}
				rp = replies[ri]
				ri++
			}
			if rp.ParseErr != "" {
				fail("malformed-reply", fmt.Sprintf("reply to request %d (%s): %s", qi, k.name, rp.ParseErr))
				break
			}
			if rp.Leftover != 0 {
				fail("malformed-reply", fmt.Sprintf("reply to request %d (%s): %d stray bytes after the message", qi, k.name, rp.Leftover))
			}
			if rp.Headers["_opid"] != opid {
				fail("reply-opid", fmt.Sprintf("reply to request %d (%s) carries _opid %q, request had %s", qi, k.name, rp.Headers["_opid"], opid))
			}
			okType := false
			switch {
			case k.expect == "exception:100-on-bounded" && e.server == "bounded":
				okType = rp.MType == 3 && rp.AppType == 100
			case k.expect == "reply" || k.expect == "refused-on-http" || k.expect == "exception:100-on-bounded":
				okType = rp.MType == 2
				if okType && k.excField {
					if _, has := rp.Tree.F["1"]; !has {
						okType = false
					}
				}
			case strings.HasPrefix(k.expect, "exception:"):
				okType = rp.MType == 3 && fmt.Sprint(rp.AppType) == strings.TrimPrefix(k.expect, "exception:")
			case k.expect == "reply-or-7":
				okType = rp.MType == 2 || (rp.MType == 3 && rp.AppType == 7)
			}
			if !okType {
				fail("wrong-reply-kind", fmt.Sprintf("reply to request %d (%s): message type %d application exception type %d, expected %s", qi, k.name, rp.MType, rp.AppType, k.expect))
			}
			if e.server == "simple" && k.poisons {
				break // nothing is promised for later requests on this connection
			}
		}
		if e.server == "simple" {
			// no surplus replies unless the sequence was cut at a poisoning request
			poisoned := false
			want := 0
			for _, k := range e.seq {
				if k.expect != "none" {
					want++
				}
				if k.poisons {
					poisoned = true
					break
				}
			}
			if !poisoned && len(replies) != want {
				fail("reply-count", fmt.Sprintf("%d reply frames for %d two-way requests", len(replies), want))
			}
		}
		if len(res.Samples) < 3 && len(e.seq) == maxLen {
			res.Samples = append(res.Samples, map[string]interface{}{"sequence": e.desc, "replies": len(cr.Replies)})
		}
	}
}
