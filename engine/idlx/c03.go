package main

import (
	"encoding/json"
	"fmt"
	"strconv"
	"strings"

	"verif/idlx/idl"
)

// Shared between C03 / C09 / C14 / C16: call specs for the reflection driver.

type mwSpec struct {
	ID       string `json:"id"`
	Behave   string `json:"behave"`
	ArgValue *idl.V `json:"arg_value,omitempty"`
	ResValue *idl.V `json:"res_value,omitempty"`
}

type outcomeSpec struct {
	Kind     string            `json:"kind"`
	Value    *idl.V            `json:"value,omitempty"`
	ExcType  string            `json:"exc_type,omitempty"`
	ExcValue *idl.V            `json:"exc_value,omitempty"`
	AppType  int32             `json:"app_type,omitempty"`
	RespHdr  map[string]string `json:"resp_headers,omitempty"`
	Onward   bool              `json:"onward,omitempty"`
	// ExcID is the field id the IDL gives the raised exception in the method's throws list: the id
	// it must travel under in the result struct.
	ExcID int `json:"-"`
	// Expect is what the caller must observe when it is not Value itself (a handler that returns the
	// nil slice / map / byte slice: the caller observes the empty collection and no error).
	Expect *idl.V `json:"-"`
}

type callSpec struct {
	Kind        string            `json:"kind"`
	Service     string            `json:"service"`
	Method      string            `json:"method"`
	WireMethod  string            `json:"wire_method"`
	Args        []*idl.V          `json:"args"`
	ArgTypes    []*idl.RT         `json:"arg_types"`
	RetType     *idl.RT           `json:"ret_type,omitempty"`
	Oneway      bool              `json:"oneway,omitempty"`
	Transport   string            `json:"transport"`
	Proto       string            `json:"proto"`
	Outcome     *outcomeSpec      `json:"outcome,omitempty"`
	Headers     map[string]string `json:"headers,omitempty"`
	Cid         string            `json:"cid,omitempty"`
	TimeoutMs   int64             `json:"timeout_ms,omitempty"`
	ProviderMW  []mwSpec          `json:"provider_mw,omitempty"`
	ClientMW    []mwSpec          `json:"client_mw,omitempty"`
	ProcessorMW []mwSpec          `json:"processor_mw,omitempty"`
	AddedMW     []mwSpec          `json:"added_mw,omitempty"`
	Scope       string            `json:"scope,omitempty"`
	Op          string            `json:"op,omitempty"`
	PrefixArgs  []string          `json:"prefix_args,omitempty"`
	PayloadRT   *idl.RT           `json:"payload_type,omitempty"`
	Payload     *idl.V            `json:"payload,omitempty"`
	SubMW       []mwSpec          `json:"sub_mw,omitempty"`
	PubMW       []mwSpec          `json:"pub_mw,omitempty"`
	Twin            string        `json:"twin,omitempty"`
	PresetRespHeaders map[string]string `json:"preset_resp_headers,omitempty"`
	Repeat          bool          `json:"repeat,omitempty"`
	FirstFails bool `json:"first_fails,omitempty"`
	TimeoutZero     bool          `json:"timeout_zero,omitempty"`
	SubErrorable    bool          `json:"sub_errorable,omitempty"`
	SubHandlerFails bool          `json:"sub_handler_fails,omitempty"`
	Frames      []string          `json:"frames,omitempty"`
	Server      string            `json:"server,omitempty"`
	Outcomes    []*outcomeSpec    `json:"outcomes,omitempty"`
}

type ctxSeen struct {
	Headers   map[string]string `json:"headers"`
	Cid       string            `json:"cid"`
	TimeoutMs int64             `json:"timeout_ms"`
	OpID      string            `json:"opid"`
}

type callResult struct {
	HandlerCalls  int               `json:"handler_calls"`
	HandlerArgs   [][]*idl.V        `json:"handler_args"`
	HandlerCtx    []*ctxSeen        `json:"handler_ctx"`
	Ret           *idl.V            `json:"ret"`
	ErrKind       string            `json:"err_kind"`
	ErrValue      *idl.V            `json:"err_value"`
	ErrMsg        string            `json:"err_msg"`
	RespHeaders   map[string]string `json:"resp_headers"`
	CallerOpID    string            `json:"caller_opid"`
	CallerCid     string            `json:"caller_cid"`
	ReplyFrames   []string          `json:"reply_frames"`
	Replies       []*replyDesc      `json:"replies"`
	RequestFrames int               `json:"request_frames"`
	Trace         []string          `json:"trace"`
	CallbackErrs  []string          `json:"callback_errs"`
	Topics        []string          `json:"topics"`
	Err           string            `json:"err"`
}

func goTitle(s string) string { return strings.ToUpper(s[:1]) + s[1:] }

func canonOf(v *idl.V) string {
	if v == nil {
		return "nil"
	}
	c := cloneV(v)
	idl.SortV(c)
	return idl.CanonV(c)
}

// methodsOf returns the methods a service offers including inherited ones, with the file that
// declares each (for type resolution).
func methodsOf(r *idl.Resolver, svc *idl.Service, f *idl.File) []struct {
	M *idl.Method
	F *idl.File
} {
	var out []struct {
		M *idl.Method
		F *idl.File
	}
	if svc.Extends != "" {
		name := svc.Extends
		pf := f
		if i := strings.Index(name, "."); i > 0 {
			for _, x := range r.P.Files {
				if strings.TrimSuffix(x.Name, ".frugal") == name[:i] {
					pf = x
				}
			}
			name = name[i+1:]
		}
		for _, d := range pf.Decls {
			if d.Service != nil && d.Service.Name == name {
				out = append(out, methodsOf(r, d.Service, pf)...)
			}
		}
	}
	for _, m := range svc.Methods {
		out = append(out, struct {
			M *idl.Method
			F *idl.File
		}{m, f})
	}
	return out
}

// 100 (RESPONSE_TOO_LARGE) is left out: it is the code the protocol reserves for an oversize reply, and the
// generated client reports it as the transport error of that name by design
var appTypes = []int32{0, 10, 11, 42, 101, 102, 429, -1, 2147483647}
var appRot int

func runC03(res *result) {
	thorough := *tier == "thorough"
	var atoms []idl.Atom
	for _, a := range idl.DeclAtoms() {
		if a.Class == "service" && a.Name != "service/empty" {
			atoms = append(atoms, a)
		}
	}
	transports := []string{"direct", "http"}
	protos := []string{"binary", "json"}
	if thorough {
		transports = []string{"direct", "http", "tcp"}
		protos = []string{"binary", "compact", "json"}
	}
	units := prepareGenModule(res, atoms, "")
	for _, u := range units {
		r := &idl.Resolver{P: u.atom.Prog}
		main := u.atom.Prog.Files[0]
		plan := drvPlan{Structs: r.AllStructRTs()}
		type exp struct {
			spec *callSpec
			desc string
		}
		var exps []exp
		for _, d := range main.Decls {
			if d.Service == nil {
				continue
			}
			svc := d.Service
			if u.atom.Name == "service/extends-local" && svc.Name == "Parent" {
				continue
			}
			for _, mf := range methodsOf(r, svc, main) {
				m, mfile := mf.M, mf.F
				var argTypes []*idl.RT
				argSets := [][]*idl.V{{}, {}}
				for _, a := range m.Args {
					rt := r.Resolve(mfile, a.Type)
					argTypes = append(argTypes, rt)
					vs := r.Values(rt, 1)
					argSets[0] = append(argSets[0], vs[0])
					argSets[1] = append(argSets[1], vs[len(vs)-1])
				}
				if len(m.Args) == 0 {
					argSets = argSets[:1]
				}
				var outcomes []*outcomeSpec
				var retRT *idl.RT
				if m.Ret != nil {
					retRT = r.Resolve(mfile, m.Ret)
					vs := r.Values(retRT, 1)
					outcomes = append(outcomes, &outcomeSpec{Kind: "return", Value: vs[0]})
					if len(vs) > 1 {
						outcomes = append(outcomes, &outcomeSpec{Kind: "return", Value: vs[1]})
					}
					switch retRT.K {
					case "list", "set", "map":
						outcomes = append(outcomes, &outcomeSpec{Kind: "return", Expect: &idl.V{K: retRT.K, E: []*idl.V{}}})
					case "binary":
						outcomes = append(outcomes, &outcomeSpec{Kind: "return", Expect: &idl.V{K: "bin", S: ""}})
					}
				} else {
					outcomes = append(outcomes, &outcomeSpec{Kind: "return"})
				}
				if !m.Oneway {
					for _, t := range m.Throws {
						rt := r.Resolve(mfile, t.Type)
						st, sf := r.FindStruct(rt.Struct)
						outcomes = append(outcomes, &outcomeSpec{Kind: "exception", ExcType: rt.Struct, ExcValue: r.StructValues(st, sf, 1)[0], ExcID: t.ID})
					}
					outcomes = append(outcomes, &outcomeSpec{Kind: "error"}, &outcomeSpec{Kind: "appexc", AppType: 4})
					// application exception types beyond the ones Thrift and Frugal define (a service's own
					// codes, newer Frugal codes, a negative one): two per method, rotating
					for j := 0; j < 2; j++ {
						outcomes = append(outcomes, &outcomeSpec{Kind: "appexc", AppType: appTypes[appRot%len(appTypes)]})
						appRot++
					}
				}
				for _, tr := range transports {
					for _, pr := range protos {
						for ai, args := range argSets {
							for oi, oc := range outcomes {
								if ai > 0 && oi > 0 {
									continue
								}
								cs := &callSpec{Kind: "rpc", Service: svc.Name, Method: goTitle(m.Name), WireMethod: m.Name, Args: args, ArgTypes: argTypes,
									RetType: retRT, Oneway: m.Oneway, Transport: tr, Proto: pr, Outcome: oc, Cid: "cid", TimeoutMs: 2000}
								plan.Ops = append(plan.Ops, drvOp{Op: "call", Call: cs})
								exps = append(exps, exp{cs, fmt.Sprintf("%s.%s over %s/%s args#%d outcome=%s#%d", svc.Name, m.Name, tr, pr, ai, oc.Kind, oi)})
							}
						}
					}
				}
			}
		}
		if len(plan.Ops) == 0 {
			continue
		}
		res.Nontrivial++
		pj, _ := json.Marshal(plan)
		out, err := runDriver(u, pj)
		if err != nil {
			res.fail(finding{Key: "C03/driver-crashed/" + u.atom.Name, Atom: u.atom.Name, IDL: u.texts, Msg: err.Error()})
			continue
		}
		var results []drvResult
		if err := json.Unmarshal(out, &results); err != nil || len(results) != len(plan.Ops) {
			res.fail(finding{Key: "C03/harness/driver-output/" + u.atom.Name, Msg: fmt.Sprint(err)})
			continue
		}
		for i, rr := range results {
			res.Evaluations++
			cs, desc := exps[i].spec, exps[i].desc
			var cr callResult
			json.Unmarshal(rr.Call, &cr)
			bad, kind := "", ""
			oc := cs.Outcome
			switch {
			case rr.Panic != "" || cr.Err != "":
				bad, kind = "driver error: "+rr.Panic+cr.Err, "call-failed"
			case cr.HandlerCalls != 1:
				bad, kind = fmt.Sprintf("handler invoked %d times", cr.HandlerCalls), "handler-invocations"
			default:
				for ai := range cs.Args {
					if len(cr.HandlerArgs) == 0 || ai >= len(cr.HandlerArgs[0]) {
						bad, kind = fmt.Sprintf("argument %d: the handler that ran did not record it (another method's handler?), caller passed %s", ai+1, canonOf(cs.Args[ai])), "arguments-differ"
					} else if canonOf(cr.HandlerArgs[0][ai]) != canonOf(cs.Args[ai]) {
						bad, kind = fmt.Sprintf("argument %d: handler saw %s, caller passed %s", ai+1, canonOf(cr.HandlerArgs[0][ai]), canonOf(cs.Args[ai])), "arguments-differ"
					}
				}
			}
			if bad == "" {
				switch oc.Kind {
				case "return":
					if cr.ErrKind != "" {
						bad, kind = "caller got error "+cr.ErrKind+" "+cr.ErrMsg, "unexpected-error"
					} else if want := oc.Value; cs.RetType != nil {
						if oc.Expect != nil {
							want = oc.Expect
						}
						if canonOf(cr.Ret) != canonOf(want) {
							bad, kind = fmt.Sprintf("caller got %s, handler returned %s", canonOf(cr.Ret), canonOf(want)), "return-value-differs"
						}
					}
					if cs.Oneway && cs.Transport != "tcp" && len(cr.ReplyFrames) != 0 {
						bad, kind = fmt.Sprintf("a successful oneway call produced %d reply frame(s)", len(cr.ReplyFrames)), "oneway-reply"
					}
				case "exception":
					if cr.ErrKind != "exception:"+oc.ExcType {
						bad, kind = fmt.Sprintf("handler raised %s, caller observed %q (%s)", oc.ExcType, cr.ErrKind, cr.ErrMsg), "declared-exception-lost"
					} else if canonOf(cr.ErrValue) != canonOf(oc.ExcValue) {
						bad, kind = fmt.Sprintf("exception fields differ: %s vs %s", canonOf(cr.ErrValue), canonOf(oc.ExcValue)), "exception-fields-differ"
					} else if oc.ExcID != 0 && len(cr.Replies) == 1 && cr.Replies[0].ParseErr == "" && cr.Replies[0].Tree != nil {
						// on the wire the exception is the one field of the result struct, under the id
						// the throws list gives it (what a peer generated by another compiler expects)
						var ids []string
						for id := range cr.Replies[0].Tree.F {
							ids = append(ids, id)
						}
						if len(ids) != 1 || ids[0] != fmt.Sprint(oc.ExcID) {
							bad, kind = fmt.Sprintf("the reply's result struct carries field ids %v, the throws list declares %s under id %d", ids, oc.ExcType, oc.ExcID), "exception-field-id"
						}
					}
				case "error":
					if cr.ErrKind != "app:6" {
						bad, kind = fmt.Sprintf("undeclared handler failure observed as %q (%s), want application exception INTERNAL_ERROR", cr.ErrKind, cr.ErrMsg), "undeclared-error-mapping"
					}
				case "appexc":
					if cr.ErrKind != "app:"+strconv.Itoa(int(oc.AppType)) {
						bad, kind = fmt.Sprintf("handler's application exception type %d observed as %q", oc.AppType, cr.ErrKind), "application-exception-mapping"
					}
				}
			}
			if bad != "" {
				if len(bad) > 500 {
					bad = bad[:500]
				}
				res.fail(finding{Key: fmt.Sprintf("C03/%s/%s/%s", kind, cs.Transport, u.atom.Name), Atom: u.atom.Name, IDL: u.texts, Msg: desc + ": " + bad})
			}
		}
		if len(res.Samples) < 3 {
			res.Samples = append(res.Samples, map[string]interface{}{"atom": u.atom.Name, "calls": len(plan.Ops), "first": exps[0].desc})
		}
	}
}
