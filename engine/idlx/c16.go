package main

import (
	"encoding/json"
	"fmt"
	"strings"

	"verif/idlx/idl"
)

// C16: every middleware list (length 0..3, five behaviours) at every attachment point wraps every
// call exactly once in the documented order: later-listed wraps earlier, provider middleware wraps
// constructor middleware.

var mwBehaviours = []string{"observe", "rewrite-arg", "rewrite-result", "replace-error", "short-circuit"}

// refCompose computes the expected enter/exit trace and the outcome seen by the caller / handler
// for a chain given innermost-first.
type refOut struct {
	trace        []string
	handlerCalls int
	handlerArg   int64
	callerRet    int64
	callerErr    string // "" | handler | replaced:<id> | short:<id>
}

func refChain(chain []mwSpec, arg int64, handlerRet int64, handlerFails bool) refOut {
	// chain[0] is innermost (closest to the real method)
	var run func(i int, a int64) (ret int64, err string, tr []string, calls int, seenArg int64)
	run = func(i int, a int64) (int64, string, []string, int, int64) {
		if i < 0 {
			if handlerFails {
				return 0, "handler", nil, 1, a
			}
			return handlerRet, "", nil, 1, a
		}
		m := chain[i]
		tr := []string{fmt.Sprintf("enter:%s:%d", m.ID, a)}
		var ret int64
		var err string
		calls := 0
		seen := int64(-1)
		switch m.Behave {
		case "short-circuit":
			err = "short:" + m.ID
		default:
			if m.Behave == "rewrite-arg" {
				a = argRewrite
			}
			var inner []string
			ret, err, inner, calls, seen = run(i-1, a)
			tr = append(tr, inner...)
			if m.Behave == "rewrite-result" && err == "" {
				ret = resRewrite
			}
			if m.Behave == "replace-error" && err != "" {
				err = "replaced:" + m.ID
			}
		}
		if err != "" {
			tr = append(tr, fmt.Sprintf("exit:%s:err=%s", m.ID, errText(err)))
		} else {
			tr = append(tr, fmt.Sprintf("exit:%s:%d", m.ID, ret))
		}
		return ret, err, tr, calls, seen
	}
	ret, err, tr, calls, seen := run(len(chain)-1, arg)
	return refOut{trace: tr, handlerCalls: calls, handlerArg: seen, callerRet: ret, callerErr: err}
}

const argRewrite, resRewrite = 4242, 7777

func errText(e string) string {
	switch {
	case e == "handler":
		return "undeclared handler failure"
	case strings.HasPrefix(e, "replaced:"):
		return "replaced by " + e[len("replaced:"):]
	case strings.HasPrefix(e, "short:"):
		return "short-circuited by " + e[len("short:"):]
	}
	return e
}

func mwLists(maxLen int, behaviours []string) [][]mwSpec {
	out := [][]mwSpec{{}}
	var rec func(cur []mwSpec)
	rec = func(cur []mwSpec) {
		if len(cur) > 0 {
			out = append(out, append([]mwSpec{}, cur...))
		}
		if len(cur) == maxLen {
			return
		}
		for _, b := range behaviours {
			m := mwSpec{ID: fmt.Sprintf("m%d%s", len(cur), b[:2]), Behave: b}
			if b == "rewrite-arg" {
				m.ArgValue = iv(argRewrite)
			}
			if b == "rewrite-result" {
				m.ResValue = iv(resRewrite)
			}
			rec(append(cur, m))
		}
	}
	rec(nil)
	return out
}

func runC16(res *result) {
	thorough := *tier == "thorough"
	atom := ctxProgram()
	units := prepareGenModule(res, []idl.Atom{atom}, "")
	if *shard != 0 || len(units) == 0 {
		return
	}
	u := units[0]
	r := &idl.Resolver{P: atom.Prog}
	main := atom.Prog.Files[0]
	plan := drvPlan{Structs: r.AllStructRTs()}
	i32 := r.Resolve(main, idl.T("i32"))
	type exp struct {
		cs          *callSpec
		desc        string
		clientChain []mwSpec // innermost first
		serverChain []mwSpec
		fails       bool
	}
	var exps []exp
	maxLen := 2
	if thorough {
		maxLen = 3
	}
	lists := mwLists(maxLen, mwBehaviours)
	prefix := func(l []mwSpec, p string) []mwSpec {
		out := make([]mwSpec, len(l))
		for i, m := range l {
			m.ID = p + m.ID
			out[i] = m
		}
		return out
	}
	twin := false
	add := func(point string, l []mwSpec, method, wire string, fails bool, svc string) {
		cs := &callSpec{Kind: "rpc", Service: svc, Method: method, WireMethod: wire, Args: []*idl.V{iv(5)}, ArgTypes: []*idl.RT{i32}, RetType: i32,
			Transport: "direct", Proto: "binary", Cid: "c", TimeoutMs: 1000, Outcome: &outcomeSpec{Kind: "return", Value: iv(50)}}
		if twin {
			cs.Twin = map[string]string{"provider": "client", "client": "client", "processor": "processor"}[point]
		}
		if fails {
			cs.Outcome = &outcomeSpec{Kind: "error"}
		}
		e := exp{cs: cs, fails: fails}
		// a fixed observer at the other attachment points checks the cross-point nesting order
		switch point {
		case "provider":
			cs.ProviderMW = prefix(l, "pv-")
			cs.ClientMW = []mwSpec{{ID: "cl-obs", Behave: "observe"}}
			e.clientChain = append(append([]mwSpec{}, cs.ClientMW...), cs.ProviderMW...)
		case "client":
			cs.ClientMW = prefix(l, "cl-")
			cs.ProviderMW = []mwSpec{{ID: "pv-obs", Behave: "observe"}}
			e.clientChain = append(append([]mwSpec{}, cs.ClientMW...), cs.ProviderMW...)
		case "processor":
			cs.ProcessorMW = prefix(l, "pr-")
			e.serverChain = cs.ProcessorMW
		case "added":
			cs.AddedMW = prefix(l, "ad-")
			cs.ProcessorMW = []mwSpec{{ID: "pr-obs", Behave: "observe"}}
			e.serverChain = append(append([]mwSpec{}, cs.ProcessorMW...), cs.AddedMW...)
		case "added-only":
			// NewF<Service>Processor(handler) with no constructor middleware, AddMiddleware afterwards
			cs.AddedMW = prefix(l, "ad-")
			e.serverChain = cs.AddedMW
		}
		e.desc = fmt.Sprintf("%s.%s middleware at %s: %s (handler fails: %v)", svc, wire, point, describeList(l), fails)
		if twin {
			e.desc = fmt.Sprintf("%s.%s middleware at %s+twin: %s (the same middleware slice, with spare capacity, is used to build a second object with another provider before the first call)", svc, wire, point, describeList(l))
		}
		plan.Ops = append(plan.Ops, drvOp{Op: "call", Call: cs})
		exps = append(exps, e)
		// the same call made twice through the same objects (the second one is judged): a middleware
		// that rewrote the first call's results still holds them when the second call runs
		if !twin && !fails && len(l) > 0 {
			for _, m := range l {
				if m.Behave == "rewrite-result" || m.Behave == "observe" {
					cs2 := *cs
					cs2.Repeat = true
					cs2.FirstFails = true // the first call ends with an error, the second with 50
					e2 := e
					e2.cs = &cs2
					e2.desc += " - second of two identical calls"
					plan.Ops = append(plan.Ops, drvOp{Op: "call", Call: &cs2})
					exps = append(exps, e2)
					break
				}
			}
		}
	}
	for _, l := range lists {
		for _, point := range []string{"provider", "client", "processor", "added", "added-only"} {
			add(point, l, "Echo", "echo", false, "Svc")
			hasRE := false
			for _, m := range l {
				if m.Behave == "replace-error" {
					hasRE = true
				}
			}
			if hasRE || len(l) <= 1 {
				add(point, l, "Echo", "echo", true, "Svc")
			}
		}
	}
	// the caller's middleware slice has spare capacity and is used for a second object with another
	// provider before the first call: the second object's provider middleware must not show
	twin = true
	for _, l := range mwLists(2, []string{"observe", "rewrite-arg"}) {
		for _, point := range []string{"provider", "client", "processor"} {
			add(point, l, "Echo", "echo", false, "Svc")
		}
	}
	twin = false
	// inherited and own method of a child service, every attachment point, short lists
	for _, l := range mwLists(1, mwBehaviours) {
		for _, point := range []string{"provider", "client", "processor", "added"} {
			add(point, l, "ParentEcho", "parentEcho", false, "Child")
			add(point, l, "ChildEcho", "childEcho", false, "Child")
		}
	}
	// scope publisher / subscriber middleware
	type pexp struct {
		cs   *callSpec
		desc string
		pub  []mwSpec
		sub  []mwSpec
		// subscriber-side outcome: what the transport must get back from the callback
		checkCallback bool
		handlerFails  bool
	}
	var pexps []pexp
	pointRT := r.Resolve(main, idl.T("Point"))
	obsLists := mwLists(maxLen, []string{"observe"})
	for _, l := range obsLists {
		for _, point := range []string{"scope-provider", "publisher", "subscriber"} {
			cs := &callSpec{Kind: "pubsub", Scope: "Plain", Op: "Noted", PayloadRT: pointRT, Payload: pointV(9, "p"), Proto: "binary", Cid: "c"}
			e := pexp{cs: cs}
			switch point {
			case "scope-provider":
				cs.ProviderMW = prefix(l, "pv-")
				cs.PubMW = []mwSpec{{ID: "pb-obs", Behave: "observe"}}
				cs.SubMW = []mwSpec{{ID: "sb-obs", Behave: "observe"}}
				e.pub = append(append([]mwSpec{}, cs.PubMW...), cs.ProviderMW...)
				e.sub = append(append([]mwSpec{}, cs.SubMW...), cs.ProviderMW...)
			case "publisher":
				cs.PubMW = prefix(l, "pb-")
				e.pub = cs.PubMW
			case "subscriber":
				cs.SubMW = prefix(l, "sb-")
				e.sub = cs.SubMW
			}
			e.desc = fmt.Sprintf("Plain.Noted middleware at %s: %s", point, describeList(l))
			plan.Ops = append(plan.Ops, drvOp{Op: "call", Call: cs})
			pexps = append(pexps, e)
		}
	}
	// the subscriber side's "other side" is the transport: the error the handler returned, or the one a
	// middleware substituted, is what the callback hands back (plain and errorable subscriptions)
	for _, l := range mwLists(maxLen, []string{"observe", "replace-error", "short-circuit"}) {
		for _, errorable := range []bool{false, true} {
			for _, fails := range []bool{false, true} {
				if fails && !errorable {
					continue
				}
				cs := &callSpec{Kind: "pubsub", Scope: "Plain", Op: "Noted", PayloadRT: pointRT, Payload: pointV(9, "p"), Proto: "binary", Cid: "c",
					SubMW: prefix(l, "sb-"), SubErrorable: errorable, SubHandlerFails: fails}
				e := pexp{cs: cs, sub: cs.SubMW, checkCallback: true, handlerFails: fails}
				kind := "subscriber"
				if errorable {
					kind = "errorable-subscriber"
				}
				e.desc = fmt.Sprintf("Plain.Noted delivery (handler fails: %v) middleware at %s: %s", fails, kind, describeList(l))
				plan.Ops = append(plan.Ops, drvOp{Op: "call", Call: cs})
				pexps = append(pexps, e)
			}
		}
	}
	for _, l := range mwLists(2, []string{"observe"}) {
		for _, point := range []string{"publisher", "subscriber"} {
			cs := &callSpec{Kind: "pubsub", Scope: "Plain", Op: "Noted", PayloadRT: pointRT, Payload: pointV(9, "p"), Proto: "binary", Cid: "c", Twin: point,
				ProviderMW: []mwSpec{{ID: "pv-obs", Behave: "observe"}}}
			e := pexp{cs: cs}
			if point == "publisher" {
				cs.PubMW = prefix(l, "pb-")
			} else {
				cs.SubMW = prefix(l, "sb-")
			}
			e.pub = append(append([]mwSpec{}, cs.PubMW...), cs.ProviderMW...)
			e.sub = append(append([]mwSpec{}, cs.SubMW...), cs.ProviderMW...)
			e.desc = fmt.Sprintf("Plain.Noted middleware at %s+twin: %s (the same middleware slice, with spare capacity, is used to build a second object with another provider before the first publish)", point, describeList(l))
			plan.Ops = append(plan.Ops, drvOp{Op: "call", Call: cs})
			pexps = append(pexps, e)
		}
	}
	// a handler that returns a nil value of a nillable result type (struct pointer, list, binary): every
	// middleware still sees a typed nil, the processor answers, the caller gets one reply
	type nexp struct {
		cs    *callSpec
		desc  string
		chain []mwSpec
		point string
	}
	var nexps []nexp
	for _, l := range mwLists(1, []string{"observe"}) {
		for _, point := range []string{"client", "processor"} {
			for _, m := range []struct {
				goName, wire string
				args         []*idl.V
				argT         []*idl.RT
				ret          *idl.RT
			}{
				{"Move", "move", []*idl.V{pointV(1, "a"), iv(2)}, []*idl.RT{pointRTc16(r, main), i32}, pointRTc16(r, main)},
				{"Names", "names", []*idl.V{iv(3)}, []*idl.RT{i32}, r.Resolve(main, idl.List(idl.T("string")))},
				{"Blob", "blob", nil, nil, r.Resolve(main, idl.T("binary"))},
			} {
				cs := &callSpec{Kind: "rpc", Service: "Svc", Method: m.goName, WireMethod: m.wire, Args: m.args, ArgTypes: m.argT, RetType: m.ret,
					Transport: "direct", Proto: "binary", Cid: "c", TimeoutMs: 1000, Outcome: &outcomeSpec{Kind: "return"}}
				chain := prefix(l, "mw-")
				if point == "client" {
					cs.ClientMW = chain
				} else {
					cs.ProcessorMW = chain
				}
				plan.Ops = append(plan.Ops, drvOp{Op: "call", Call: cs})
				nexps = append(nexps, nexp{cs, fmt.Sprintf("Svc.%s whose handler returns a nil %s, middleware at %s: %s", m.wire, m.ret.K, point, describeList(l)), chain, point})
			}
		}
	}
	res.Nontrivial = int64(len(plan.Ops))
	pj, _ := json.Marshal(plan)
	out, err := runDriver(u, pj)
	if err != nil {
		res.fail(finding{Key: "C16/driver-crashed", Msg: err.Error(), IDL: u.texts})
		return
	}
	var results []drvResult
	if err := json.Unmarshal(out, &results); err != nil || len(results) != len(plan.Ops) {
		res.fail(finding{Key: "C16/harness/driver-output", Msg: fmt.Sprint(err)})
		return
	}
	for i, e := range exps {
		res.Evaluations++
		var cr callResult
		json.Unmarshal(results[i].Call, &cr)
		point := strings.SplitN(strings.SplitN(e.desc, " at ", 2)[1], ":", 2)[0]
		fail := func(kind, msg string) {
			res.fail(finding{Key: "C16/" + kind + "/" + point, IDL: u.texts, Atom: e.desc, Msg: e.desc + ": " + msg})
		}
		if results[i].Panic != "" || cr.Err != "" {
			fail("call-failed", results[i].Panic+cr.Err)
			continue
		}
		// reference: client chain around (transport + server chain around handler)
		srv := refChain(e.serverChain, 5, 50, e.fails)
		var want []string
		var wantRet int64
		var wantErr string
		handlerCalls := srv.handlerCalls
		handlerArg := srv.handlerArg
		if len(e.clientChain) > 0 {
			// evaluate the client chain with the server side as the "method": replay by nesting
			cl := clientThenServer(e.clientChain, e.serverChain, 5, 50, e.fails)
			want, wantRet, wantErr, handlerCalls, handlerArg = cl.trace, cl.callerRet, cl.callerErr, cl.handlerCalls, cl.handlerArg
		} else {
			want, wantRet, wantErr = srv.trace, srv.callerRet, srv.callerErr
		}
		got := strings.Join(normTrace(cr.Trace), " ")
		want = normTrace(want)
		if got != strings.Join(want, " ") {
			fail("trace", fmt.Sprintf("middleware trace %q, list composition gives %q", got, strings.Join(want, " ")))
			continue
		}
		if cr.HandlerCalls != handlerCalls {
			fail("handler-invocations", fmt.Sprintf("handler invoked %d times, expected %d", cr.HandlerCalls, handlerCalls))
			continue
		}
		if handlerCalls == 1 && canonOf(cr.HandlerArgs[0][0]) != canonOf(iv(handlerArg)) {
			fail("handler-argument", fmt.Sprintf("handler saw %s, expected %d", canonOf(cr.HandlerArgs[0][0]), handlerArg))
		}
		switch {
		case wantErr == "":
			if cr.ErrKind != "" || canonOf(cr.Ret) != canonOf(iv(wantRet)) {
				fail("caller-result", fmt.Sprintf("caller got ret=%s err=%q %s, expected %d", canonOf(cr.Ret), cr.ErrKind, cr.ErrMsg, wantRet))
			}
		default:
			if cr.ErrKind == "" {
				fail("caller-result", fmt.Sprintf("caller got ret=%s, expected an error (%s)", canonOf(cr.Ret), wantErr))
			}
		}
		if len(res.Samples) < 3 && len(cr.Trace) >= 4 {
			res.Samples = append(res.Samples, map[string]interface{}{"case": e.desc, "trace": cr.Trace})
		}
	}
	for j, e := range pexps {
		i := len(exps) + j
		res.Evaluations++
		var cr callResult
		json.Unmarshal(results[i].Call, &cr)
		point := strings.SplitN(strings.SplitN(e.desc, " at ", 2)[1], ":", 2)[0]
		if results[i].Panic != "" || cr.Err != "" || cr.ErrKind != "" {
			res.fail(finding{Key: "C16/call-failed/" + point, Atom: e.desc, IDL: u.texts, Msg: e.desc + ": " + results[i].Panic + cr.Err + cr.ErrKind + cr.ErrMsg})
			continue
		}
		if e.checkCallback {
			ref := refChain(e.sub, 0, 0, e.handlerFails)
			var want, got []string
			for _, t := range ref.trace {
				p := strings.SplitN(t, ":", 3)
				want = append(want, p[0]+":"+p[1])
			}
			for _, t := range cr.Trace {
				p := strings.SplitN(t, ":", 3)
				got = append(got, p[0]+":"+p[1])
			}
			if strings.Join(got, " ") != strings.Join(want, " ") || cr.HandlerCalls != ref.handlerCalls {
				res.fail(finding{Key: "C16/trace/" + point, Atom: e.desc, IDL: u.texts, Msg: fmt.Sprintf("%s: trace %v (handler calls %d), list composition gives %v (handler calls %d)", e.desc, got, cr.HandlerCalls, want, ref.handlerCalls)})
				continue
			}
			wantErr := errText(ref.callerErr)
			if len(cr.CallbackErrs) != 1 {
				res.fail(finding{Key: "C16/delivery-count/" + point, Atom: e.desc, IDL: u.texts, Msg: fmt.Sprintf("%s: %d deliveries reached the subscriber callback", e.desc, len(cr.CallbackErrs))})
			} else if cr.CallbackErrs[0] != wantErr {
				res.fail(finding{Key: "C16/delivery-error/" + point, Atom: e.desc, IDL: u.texts, Msg: fmt.Sprintf("%s: the transport got %q back from the callback, the chain's outcome is %q", e.desc, cr.CallbackErrs[0], wantErr)})
			}
			continue
		}
		// expected: publisher chain enter (outermost first) ... then inside it the subscriber chain
		var want []string
		for k := len(e.pub) - 1; k >= 0; k-- {
			want = append(want, "enter:"+e.pub[k].ID)
		}
		for k := len(e.sub) - 1; k >= 0; k-- {
			want = append(want, "enter:"+e.sub[k].ID)
		}
		for k := 0; k < len(e.sub); k++ {
			want = append(want, "exit:"+e.sub[k].ID)
		}
		for k := 0; k < len(e.pub); k++ {
			want = append(want, "exit:"+e.pub[k].ID)
		}
		var got []string
		for _, t := range cr.Trace {
			p := strings.SplitN(t, ":", 3)
			got = append(got, p[0]+":"+p[1])
		}
		if strings.Join(got, " ") != strings.Join(want, " ") || cr.HandlerCalls != 1 {
			res.fail(finding{Key: "C16/trace/" + point, Atom: e.desc, IDL: u.texts, Msg: fmt.Sprintf("%s: trace %v (handler calls %d), list composition gives %v", e.desc, got, cr.HandlerCalls, want)})
		}
	}
	for k, e := range nexps {
		i := len(exps) + len(pexps) + k
		res.Evaluations++
		var cr callResult
		json.Unmarshal(results[i].Call, &cr)
		key := "C16/nil-result/" + e.point + "/" + e.cs.WireMethod
		if results[i].Panic != "" || cr.Err != "" {
			res.fail(finding{Key: key, Atom: e.desc, IDL: u.texts, Msg: e.desc + ": the call failed: " + results[i].Panic + cr.Err})
			continue
		}
		var want, got []string
		for q := len(e.chain) - 1; q >= 0; q-- {
			want = append(want, "enter:"+e.chain[q].ID)
		}
		for q := 0; q < len(e.chain); q++ {
			want = append(want, "exit:"+e.chain[q].ID)
		}
		untyped := ""
		for _, t := range cr.Trace {
			if strings.HasPrefix(t, "UNTYPED-NIL-RESULT:") {
				untyped = t
				continue
			}
			p := strings.SplitN(t, ":", 3)
			got = append(got, p[0]+":"+p[1])
		}
		switch {
		case untyped != "":
			res.fail(finding{Key: key, Atom: e.desc, IDL: u.texts, Msg: e.desc + ": a middleware saw a bare nil interface instead of the typed nil the handler returned (" + untyped + ")"})
		case strings.Join(got, " ") != strings.Join(want, " ") || cr.HandlerCalls != 1:
			res.fail(finding{Key: key, Atom: e.desc, IDL: u.texts, Msg: fmt.Sprintf("%s: trace %v (handler calls %d), expected %v", e.desc, got, cr.HandlerCalls, want)})
		case len(cr.ReplyFrames) != 1:
			res.fail(finding{Key: key, Atom: e.desc, IDL: u.texts, Msg: fmt.Sprintf("%s: %d reply frames", e.desc, len(cr.ReplyFrames))})
		}
	}
}

// clientThenServer evaluates client-side middleware around the remote call whose server side has its
// own chain.
func clientThenServer(client, server []mwSpec, arg, handlerRet int64, fails bool) refOut {
	var run func(i int, a int64) (int64, string, []string, int, int64)
	run = func(i int, a int64) (int64, string, []string, int, int64) {
		if i < 0 {
			s := refChain(server, a, handlerRet, fails)
			err := s.callerErr
			if err != "" {
				err = "remote" // crosses the wire as an application exception
			}
			return s.callerRet, err, s.trace, s.handlerCalls, s.handlerArg
		}
		m := client[i]
		tr := []string{fmt.Sprintf("enter:%s:%d", m.ID, a)}
		var ret int64
		var err string
		calls := 0
		seen := int64(-1)
		switch m.Behave {
		case "short-circuit":
			err = "short:" + m.ID
		default:
			if m.Behave == "rewrite-arg" {
				a = argRewrite
			}
			var inner []string
			ret, err, inner, calls, seen = run(i-1, a)
			tr = append(tr, inner...)
			if m.Behave == "rewrite-result" && err == "" {
				ret = resRewrite
			}
			if m.Behave == "replace-error" && err != "" {
				err = "replaced:" + m.ID
			}
		}
		if err != "" {
			tr = append(tr, "exit:"+m.ID+":err")
		} else {
			tr = append(tr, fmt.Sprintf("exit:%s:%d", m.ID, ret))
		}
		return ret, err, tr, calls, seen
	}
	ret, err, tr, calls, seen := run(len(client)-1, arg)
	return refOut{trace: tr, handlerCalls: calls, handlerArg: seen, callerRet: ret, callerErr: err}
}

func describeList(l []mwSpec) string {
	if len(l) == 0 {
		return "[]"
	}
	var p []string
	for _, m := range l {
		p = append(p, m.Behave)
	}
	return "[" + strings.Join(p, ",") + "]"
}

// normTrace drops error texts (they change when an error crosses the wire).
func normTrace(t []string) []string {
	out := make([]string, len(t))
	for i, x := range t {
		if j := strings.Index(x, ":err"); j > 0 {
			x = x[:j] + ":err"
		}
		out[i] = x
	}
	return out
}

func pointRTc16(r *idl.Resolver, main *idl.File) *idl.RT { return r.Resolve(main, idl.T("Point")) }
