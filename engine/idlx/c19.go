package main

import (
	"crypto/sha256"
	"encoding/hex"
	"fmt"
	"os"
	"os/exec"
	"path/filepath"
	"sort"
	"strings"

	"github.com/Workiva/frugal/compiler"

	"verif/idlx/idl"
)

// C19: byte-identical output for the same IDL and options, whatever the map iteration order inside
// the compiler, the number of repetitions, the working directory, the location of the sources and
// the output directory.

func richProgram() *idl.Program {
	T, List, Map := idl.T, idl.List, idl.Map
	fld := func(id int, n, req string, t *idl.Type) *idl.Field { return &idl.Field{ID: id, Name: n, Req: req, Type: t} }
	ann := []idl.Annot{{"a1", "v1"}, {"a2", "v2"}, {"deprecated", "soon"}}
	ann4 := []idl.Annot{{"zeta", "z"}, {"alpha", "a"}, {"mid", "m"}, {"beta", "b"}}
	inc := func(name string) *idl.File {
		one := 1
		return &idl.File{Name: name + ".frugal", Decls: []*idl.Decl{
			{NS: &idl.NS{Scope: "go", Value: name}}, {NS: &idl.NS{Scope: "java", Value: "com." + name}}, {NS: &idl.NS{Scope: "py", Value: name + "_py"}}, {NS: &idl.NS{Scope: "dart", Value: name + "_dart"}},
			{Typedef: &idl.Typedef{Name: "Id" + name, Type: T("i64"), Annots: ann}},
			{Enum: &idl.Enum{Name: "Kind" + name, Annots: ann, Values: []*idl.EnumValue{{Name: "A", Explicit: &one, Annots: ann}, {Name: "B"}, {Name: "C"}}}},
			{Struct: &idl.Struct{Kind: "struct", Name: "Thing" + name, Annots: ann, Fields: []*idl.Field{fld(1, "n", "default", T("i32")), fld(2, "s", "optional", T("string"))}}},
			{Struct: &idl.Struct{Kind: "exception", Name: "Err" + name, Fields: []*idl.Field{fld(1, "m", "default", T("string"))}}},
			{Service: &idl.Service{Name: "Base" + name, Annots: ann, Methods: []*idl.Method{{Name: "ping" + name, Annots: ann}, {Name: "get" + name, Ret: T("Thing" + name)}}}},
		}}
	}
	main := &idl.File{Name: "main.frugal", Decls: []*idl.Decl{
		{NS: &idl.NS{Scope: "go", Value: "mainpkg"}}, {NS: &idl.NS{Scope: "java", Value: "com.mainpkg"}}, {NS: &idl.NS{Scope: "py", Value: "main_py"}}, {NS: &idl.NS{Scope: "dart", Value: "main_dart"}}, {NS: &idl.NS{Scope: "*", Value: "anyns"}},
		{Include: "zeta.frugal"}, {Include: "alpha.frugal"}, {Include: "mid.frugal"},
		{Const: &idl.Const{Name: "K1", Type: T("i32"), Value: idl.Int(1), Annots: ann}}, {Const: &idl.Const{Name: "K2", Type: Map(T("string"), T("i32")), Value: idl.LMap([]*idl.Lit{idl.Str("z"), idl.Str("a"), idl.Str("m")}, []*idl.Lit{idl.Int(1), idl.Int(2), idl.Int(3)})}},
		{Const: &idl.Const{Name: "K3", Type: List(T("string")), Value: idl.LList(idl.Str("x"), idl.Str("y"))}},
		{Typedef: &idl.Typedef{Name: "TA", Type: T("i32"), Annots: ann}}, {Typedef: &idl.Typedef{Name: "TB", Type: List(T("TA"))}}, {Typedef: &idl.Typedef{Name: "TC", Type: Map(T("string"), T("alpha.Thingalpha"))}},
		{Enum: &idl.Enum{Name: "Color", Annots: ann, Values: []*idl.EnumValue{{Name: "RED", Annots: ann}, {Name: "GREEN"}, {Name: "BLUE", Annots: ann}}}},
		{Struct: &idl.Struct{Kind: "struct", Name: "Big", Annots: ann, Fields: []*idl.Field{
			fld(1, "a", "required", T("i32")), fld(2, "b", "default", T("zeta.Thingzeta")), fld(3, "c", "optional", T("TC")), fld(4, "d", "default", Map(T("Color"), List(T("mid.Idmid")))),
			{ID: 5, Name: "e", Req: "default", Type: Map(T("string"), T("i32")), Default: idl.LMap([]*idl.Lit{idl.Str("q"), idl.Str("b"), idl.Str("k")}, []*idl.Lit{idl.Int(1), idl.Int(2), idl.Int(3)}), Annots: ann}}}},
		{Struct: &idl.Struct{Kind: "union", Name: "Pick", Fields: []*idl.Field{fld(1, "x", "default", T("i64")), fld(2, "y", "optional", T("string")), fld(3, "z", "default", T("Big"))}}},
		{Struct: &idl.Struct{Kind: "exception", Name: "Oops", Fields: []*idl.Field{fld(1, "why", "default", T("string"))}}},
		{Service: &idl.Service{Name: "Zsvc", Extends: "alpha.Basealpha", Annots: ann, Methods: []*idl.Method{{Name: "one", Ret: T("Big"), Args: []*idl.Field{fld(1, "p", "default", T("Pick"))}, Throws: []*idl.Field{fld(1, "o", "default", T("Oops")), fld(2, "e", "default", T("mid.Errmid"))}, Annots: ann}, {Name: "two", Oneway: true, Annots: ann4}}}},
		{Service: &idl.Service{Name: "Asvc", Methods: []*idl.Method{{Name: "three", Args: []*idl.Field{fld(1, "k", "default", T("zeta.Kindzeta"))}, Annots: ann4}}}},
		{Service: &idl.Service{Name: "Msvc", Extends: "Asvc", Methods: []*idl.Method{{Name: "four", Ret: T("TB")}}}},
		{Scope: &idl.Scope{Name: "Zevents", Prefix: "z.{user}.{org}", Annots: ann, Ops: []*idl.Op{{Name: "Made", Type: T("Big"), Annots: ann4}, {Name: "Gone", Type: T("alpha.Thingalpha")}, {Name: "Left", Type: T("zeta.Thingzeta")}, {Name: "Back", Type: T("mid.Thingmid")}}}},
		{Scope: &idl.Scope{Name: "Aevents", Ops: []*idl.Op{{Name: "Seen", Type: T("Pick")}}}},
		{Scope: &idl.Scope{Name: "Mevents", Prefix: "m", Ops: []*idl.Op{{Name: "Heard", Type: T("zeta.Thingzeta")}}}},
	}}
	return &idl.Program{Files: []*idl.File{main, inc("zeta"), inc("alpha"), inc("mid")}}
}

// namesakeProgram: main includes a/common.frugal and mid.frugal, mid includes b/common.frugal.
func namesakeProgram() *idl.Program {
	T := idl.T
	fld := func(id int, n string, t *idl.Type) *idl.Field { return &idl.Field{ID: id, Name: n, Req: "default", Type: t} }
	a := &idl.File{Name: "a/common.frugal", Decls: []*idl.Decl{{Struct: &idl.Struct{Kind: "struct", Name: "A", Fields: []*idl.Field{fld(1, "x", T("i32"))}}}}}
	b := &idl.File{Name: "b/common.frugal", Decls: []*idl.Decl{{Struct: &idl.Struct{Kind: "struct", Name: "B", Fields: []*idl.Field{fld(1, "y", T("i32"))}}}}}
	mid := &idl.File{Name: "mid.frugal", Decls: []*idl.Decl{{Include: "b/common.frugal"}, {Struct: &idl.Struct{Kind: "struct", Name: "M", Fields: []*idl.Field{fld(1, "b", T("common.B"))}}}}}
	main := &idl.File{Name: "main.frugal", Decls: []*idl.Decl{{Include: "a/common.frugal"}, {Include: "mid.frugal"},
		{Struct: &idl.Struct{Kind: "struct", Name: "Top", Fields: []*idl.Field{fld(1, "a", T("common.A")), fld(2, "m", T("mid.M"))}}}}}
	return &idl.Program{Files: []*idl.File{main, a, b, mid}}
}

func hashTree(root string) (map[string]string, error) {
	out := map[string]string{}
	err := filepath.Walk(root, func(p string, info os.FileInfo, err error) error {
		if err != nil {
			return err
		}
		if info.IsDir() {
			return nil
		}
		b, err := os.ReadFile(p)
		if err != nil {
			return err
		}
		rel, _ := filepath.Rel(root, p)
		h := sha256.Sum256(b)
		out[rel] = hex.EncodeToString(h[:])
		return nil
	})
	return out, err
}

func diffTrees(a, b map[string]string) string {
	var d []string
	for k, v := range a {
		if w, ok := b[k]; !ok {
			d = append(d, "missing:"+k)
		} else if w != v {
			d = append(d, "differs:"+k)
		}
	}
	for k := range b {
		if _, ok := a[k]; !ok {
			d = append(d, "extra:"+k)
		}
	}
	sort.Strings(d)
	if len(d) > 6 {
		d = append(d[:6], fmt.Sprintf("... %d in total", len(d)))
	}
	return strings.Join(d, ", ")
}

func runCmd(dir string, env []string, bin string, args ...string) (int, string) {
	cmd := exec.Command(bin, args...)
	cmd.Dir = dir
	cmd.Env = append(os.Environ(), env...)
	out, err := cmd.CombinedOutput()
	if err != nil {
		if ee, ok := err.(*exec.ExitError); ok {
			return ee.ExitCode(), string(out)
		}
		return -1, string(out) + err.Error()
	}
	return 0, string(out)
}

func runC19(res *result) {
	thorough := *tier == "thorough"
	rich := richProgram()
	st := idl.Style{Sep: ",", Quote: '"'}
	type cfg struct {
		lang, opts string
		prog       *idl.Program // nil: the rich program
	}
	var cfgs []cfg
	// two files of the same base name in different directories, reached over different include
	// paths (only for the documentation target: the code generators put both into one package)
	cfgs = append(cfgs, cfg{"html", "", namesakeProgram()})
	for _, t := range c11Targets {
		for _, o := range optionSets(t, thorough) {
			if t.lang == "java" {
				if strings.Contains(o, "generated_annotations") {
					continue
				}
				if o == "" {
					o = "generated_annotations=undated"
				} else {
					o += ",generated_annotations=undated"
				}
			}
			cfgs = append(cfgs, cfg{t.lang, o, nil})
		}
	}
	if *shard == 0 {
		res.Extra["configurations"] = len(cfgs)
	}
	sitesSeen := map[string]bool{}
	for ci, c := range cfgs {
		if ci%*nshards != *shard {
			continue
		}
		res.Nontrivial++
		gen := c.lang
		if c.opts != "" {
			gen += ":" + c.opts
		}
		prog := rich
		if c.prog != nil {
			prog = c.prog
		}
		key := func(kind string) string {
			if c.prog != nil {
				return fmt.Sprintf("C19/%s/%s/same-named-includes", kind, c.lang)
			}
			return fmt.Sprintf("C19/%s/%s", kind, c.lang)
		}
		base := filepath.Join(*work, fmt.Sprintf("cfg%d", ci))
		srcA := filepath.Join(base, "srcA")
		srcB := filepath.Join(base, "deeper", "nested", "dir", "srcB")
		writeProgram(srcA, prog, st)
		_, texts := writeProgram(srcB, prog, st)
		fail := func(kind, msg string) {
			res.fail(finding{Key: key(kind), Atom: gen, IDL: map[string]string{"main.frugal": texts["main.frugal"]}, Msg: fmt.Sprintf("-gen %s: %s", gen, msg)})
		}
		// (1) map-iteration order: baseline (all ascending) vs every site reached, flipped
		if *frugalMR != "" {
			sitesFile := filepath.Join(base, "sites.txt")
			out0 := filepath.Join(base, "mr0")
			res.Evaluations++
			if code, o := runCmd(srcA, []string{"VERIF_SITES_OUT=" + sitesFile}, *frugalMR, "-r", "-gen", gen, "-out", out0, "main.frugal"); code != 0 {
				fail("compile-failed", "instrumented compiler exits "+fmt.Sprint(code)+": "+o)
				continue
			}
			h0, _ := hashTree(out0)
			sb, _ := os.ReadFile(sitesFile)
			sites := strings.Fields(string(sb))
			sites = append(sites, "ALL")
			for si, site := range sites {
				sitesSeen[site] = true
				outS := filepath.Join(base, fmt.Sprintf("mr_s%d", si))
				res.Evaluations++
				if code, o := runCmd(srcA, []string{"VERIF_FLIP=" + site}, *frugalMR, "-r", "-gen", gen, "-out", outS, "main.frugal"); code != 0 {
					fail("compile-failed", "with map order flipped at "+site+": exit "+fmt.Sprint(code)+": "+o)
					continue
				}
				hs, _ := hashTree(outS)
				if d := diffTrees(h0, hs); d != "" {
					res.fail(finding{Key: key("map-order-dependent") + "/" + site, Atom: gen, Msg: fmt.Sprintf("-gen %s: reversing the map iteration at %s changes the output: %s", gen, site, d)})
				}
				os.RemoveAll(outS)
			}
		}
		// (2) locations and repetitions with the plain binary
		type loc struct {
			name, cwd, file, out string // out relative to cwd or absolute; "" = default directory
		}
		absOut := filepath.Join(base, "absout")
		locs := []loc{
			{"cwd=src,relative-file,absolute-out", srcA, "main.frugal", absOut + "1"},
			{"cwd=src,relative-file,absolute-out,second-process", srcA, "main.frugal", absOut + "2"},
			{"cwd=elsewhere,absolute-file,absolute-out", base, filepath.Join(srcA, "main.frugal"), absOut + "3"},
			{"cwd=elsewhere,relative-path-file,relative-out", base, "srcA/main.frugal", "relout4"},
			{"deep-source-root,absolute-file,absolute-out", os.TempDir(), filepath.Join(srcB, "main.frugal"), absOut + "5"},
			{"deep-source-root,cwd=src,default-out", srcB, "main.frugal", ""},
			{"cwd=src,default-out", srcA, "main.frugal", ""},
		}
		// a directory that holds different files under the names of the program's includes: used as
		// the working directory it must not influence how the includes of the real program resolve
		decoy := filepath.Join(base, "decoy")
		os.MkdirAll(decoy, 0o755)
		for _, f := range prog.Files[1:] {
			os.MkdirAll(filepath.Dir(filepath.Join(decoy, f.Name)), 0o755)
			os.WriteFile(filepath.Join(decoy, f.Name), []byte("namespace go decoy\nstruct DecoyOnly {\n  1: i32 x\n}\n"), 0o644)
		}
		os.WriteFile(filepath.Join(decoy, "main.frugal"), []byte("struct DecoyMain {\n  1: i32 x\n}\n"), 0o644)
		locs = append(locs, loc{"cwd=directory-with-same-named-other-files,absolute-file,absolute-out", decoy, filepath.Join(srcA, "main.frugal"), absOut + "8"})
		// the same output directory spelled in ways that are not in cleaned form
		dotOut := filepath.Join(base, "dotout")
		os.MkdirAll(dotOut, 0o755)
		os.MkdirAll(filepath.Join(base, "x"), 0o755)
		locs = append(locs,
			loc{"relative-out-with-leading-dot-slash", base, filepath.Join(srcA, "main.frugal"), "./relout9"},
			loc{"relative-out-with-trailing-slash", base, filepath.Join(srcA, "main.frugal"), "relout10/"},
			loc{"relative-out-through-dot-dot", base, filepath.Join(srcA, "main.frugal"), "x/../relout11"},
			loc{"absolute-out-with-doubled-slash", srcA, "main.frugal", base + "//absout12"},
			loc{"absolute-out-with-trailing-slash", srcA, "main.frugal", absOut + "13/"},
			loc{"out-is-dot,cwd=output-directory", dotOut, filepath.Join(srcA, "main.frugal"), "."})
		var ref map[string]string
		refName := ""
		for _, l := range locs {
			args := []string{"-r", "-gen", gen}
			outDir := l.out
			if l.out != "" {
				args = append(args, "-out", l.out)
				if !filepath.IsAbs(outDir) {
					outDir = filepath.Join(l.cwd, l.out)
				}
			}
			args = append(args, l.file)
			res.Evaluations++
			if code, o := runCmd(l.cwd, nil, *frugalBin, args...); code != 0 {
				fail("compile-failed", l.name+": exit "+fmt.Sprint(code)+": "+o)
				continue
			}
			if l.out == "" {
				// default output directory: gen-<lang> under the working directory
				m, _ := filepath.Glob(filepath.Join(l.cwd, "gen-*"))
				if len(m) != 1 {
					fail("default-out", fmt.Sprintf("%s: expected one gen-* directory, found %v", l.name, m))
					continue
				}
				outDir = m[0]
			}
			h, err := hashTree(outDir)
			if err != nil || len(h) == 0 {
				fail("no-output", l.name)
				continue
			}
			if ref == nil {
				ref, refName = h, l.name
			} else if d := diffTrees(ref, h); d != "" {
				fail("location-dependent", fmt.Sprintf("output differs between [%s] and [%s]: %s", refName, l.name, d))
			}
			os.RemoveAll(outDir)
		}
		// (3) two compilations in one process (global state reset)
		if ref != nil {
			for rep := 0; rep < 2; rep++ {
				out := filepath.Join(base, fmt.Sprintf("inproc%d", rep))
				res.Evaluations++
				var err error
				func() {
					defer func() {
						if r := recover(); r != nil {
							err = fmt.Errorf("panic: %v", r)
						}
					}()
					err = compiler.Compile(compiler.Options{File: filepath.Join(srcA, "main.frugal"), Gen: gen, Out: out, Delim: ".", Recurse: true})
				}()
				if err != nil {
					fail("compile-failed", "in-process compilation: "+err.Error())
					continue
				}
				h, _ := hashTree(out)
				if d := diffTrees(ref, h); d != "" {
					fail("repetition-dependent", fmt.Sprintf("in-process compilation #%d differs from the first separate process: %s", rep+1, d))
				}
			}
		}
		// (4) one process that has compiled the same program for another target just before
		if ref != nil {
			for pi, prev := range []string{"go", "java", "dart", "py", "html", "json"} {
				if prev == strings.SplitN(gen, ":", 2)[0] {
					continue
				}
				out := filepath.Join(base, fmt.Sprintf("after%d", pi))
				res.Evaluations++
				var err error
				func() {
					defer func() {
						if r := recover(); r != nil {
							err = fmt.Errorf("panic: %v", r)
						}
					}()
					if err = compiler.Compile(compiler.Options{File: filepath.Join(srcA, "main.frugal"), Gen: prev, Out: out + "prev", Delim: ".", Recurse: true}); err == nil {
						err = compiler.Compile(compiler.Options{File: filepath.Join(srcA, "main.frugal"), Gen: gen, Out: out, Delim: ".", Recurse: true})
					}
				}()
				if err != nil {
					fail("compile-failed", "in-process compilation after -gen "+prev+": "+err.Error())
					continue
				}
				h, _ := hashTree(out)
				if d := diffTrees(ref, h); d != "" {
					fail("history-dependent", fmt.Sprintf("compiled in a process that had compiled the same program with -gen %s just before, the output differs from a fresh process: %s", prev, d))
				}
				os.RemoveAll(out)
				os.RemoveAll(out + "prev")
			}
		}
		if len(res.Samples) < 3 {
			res.Samples = append(res.Samples, map[string]interface{}{"gen": gen, "files": len(ref)})
		}
		os.RemoveAll(base)
	}
	var ss []string
	for s := range sitesSeen {
		ss = append(ss, s)
	}
	sort.Strings(ss)
	res.Extra["map_range_sites_reached_max_per_shard"] = len(ss)
}
