package main

import (
	"fmt"
	"os"
	"os/exec"
	"path/filepath"
	"regexp"
	"strings"

	"verif/idlx/idl"
)

// genUnit is one atom compiled to Go together with its reflection driver.
type genUnit struct {
	tag   string
	atom  idl.Atom
	dir   string
	bin   string
	texts map[string]string
}

var tagRe = regexp.MustCompile(`u\d+`)

// prepareGenModule compiles every atom of this shard with the frugal binary (Go target), adds the
// glue file to each generated package, writes one driver main per atom and builds everything in a
// single module. Atoms whose IDL is rejected or whose Go does not compile are skipped (those are
// C10 / C11 failures) and counted.
func prepareGenModule(res *result, atoms []idl.Atom, goOpts string) []*genUnit {
	st := idl.Style{Sep: ",", Quote: '"'}
	mod := filepath.Join(*work, "gomod")
	os.MkdirAll(filepath.Join(mod, "drv"), 0o755)
	for _, f := range []string{"drv.go", "calls.go"} {
		b, err := os.ReadFile(filepath.Join(*work, "..", "idlx", "drvsrc", f+".txt"))
		if err != nil {
			b, err = os.ReadFile(filepath.Join(*verifDir, "engine", "idlx", "drvsrc", f+".txt"))
		}
		if err != nil {
			panic(err)
		}
		os.WriteFile(filepath.Join(mod, "drv", f), b, 0o644)
	}
	gomodTxt := "module gen\n\ngo 1.20\n\nrequire (\n\tgithub.com/Workiva/frugal/lib/go v0.0.0\n\tgithub.com/apache/thrift v0.19.0\n\tgithub.com/sirupsen/logrus v1.9.3\n)\n\nreplace github.com/Workiva/frugal/lib/go => " + *repoDir + "/lib/go\n"
	os.WriteFile(filepath.Join(mod, "go.mod"), []byte(gomodTxt), 0o644)
	if b, err := os.ReadFile(filepath.Join(*repoDir, "lib/go/go.sum")); err == nil {
		os.WriteFile(filepath.Join(mod, "go.sum"), b, 0o644)
	}
	var units []*genUnit
	skippedParse, skippedGen := 0, 0
	for ai, a := range atoms {
		if ai%*nshards != *shard {
			continue
		}
		tag := fmt.Sprintf("u%d", ai)
		src := filepath.Join(*work, "src_"+tag)
		mainPath, texts := writeProgram(src, a.Prog, st)
		if !parses(mainPath) {
			skippedParse++
			continue
		}
		out := filepath.Join(mod, tag)
		opts := "package_prefix=gen/" + tag + "/"
		if goOpts != "" {
			opts += "," + goOpts
		}
		r := runFrugal(src, "-r", "-gen", "go:"+opts, "-out", out, mainPath)
		if r.exit != 0 {
			skippedGen++
			os.RemoveAll(out)
			continue
		}
		pkgs, _ := os.ReadDir(out)
		for _, p := range pkgs {
			if p.IsDir() {
				if err := writeGlue(filepath.Join(out, p.Name())); err != nil {
					res.fail(finding{Key: "harness/glue/" + a.Name, Msg: err.Error()})
				}
			}
		}
		ddir := filepath.Join(out, "d_"+tag)
		os.MkdirAll(ddir, 0o755)
		// the registries of the included packages are merged in under "<package>." names
		var imps, merges strings.Builder
		for _, p := range pkgs {
			if p.IsDir() && p.Name() != "mainpkg" {
				fmt.Fprintf(&imps, "\tq_%s \"gen/%s/%s\"\n", p.Name(), tag, p.Name())
				fmt.Fprintf(&merges, "\tfor k, v := range q_%s.VerifTypes {\n\t\ttypes[%q+k] = v\n\t}\n\tfor k, v := range q_%s.VerifFuncs {\n\t\tfuncs[%q+k] = v\n\t}\n", p.Name(), p.Name()+".", p.Name(), p.Name()+".")
			}
		}
		mainSrc := fmt.Sprintf("package main\n\nimport (\n\t\"reflect\"\n\n\tdrv \"gen/drv\"\n\tp \"gen/%s/mainpkg\"\n%s)\n\nfunc main() {\n\ttypes := map[string]reflect.Type{}\n\tfuncs := map[string]interface{}{}\n\tfor k, v := range p.VerifTypes {\n\t\ttypes[k] = v\n\t}\n\tfor k, v := range p.VerifFuncs {\n\t\tfuncs[k] = v\n\t}\n%s\tdrv.Main(types, funcs, func(n string, h drv.StubFunc) interface{} { return p.VerifNewStub(n, p.VerifStubFunc(h)) })\n}\n", tag, imps.String(), merges.String())
		os.WriteFile(filepath.Join(ddir, "main.go"), []byte(mainSrc), 0o644)
		units = append(units, &genUnit{tag: tag, atom: a, dir: out, texts: texts})
	}
	env := append(os.Environ(), "GOFLAGS=-mod=mod", "GOPROXY=off", "GOSUMDB=off", "GOTOOLCHAIN=local")
	// pass 1: find what does not compile
	cmd := exec.Command("go", "build", "-trimpath", "./...")
	cmd.Dir = mod
	cmd.Env = env
	out, err := cmd.CombinedOutput()
	bad := map[string]bool{}
	if err != nil {
		for _, line := range strings.Split(string(out), "\n") {
			if t := tagRe.FindString(line); t != "" && strings.Contains(line, "/") {
				bad[t] = true
			}
		}
		if len(bad) == 0 {
			res.fail(finding{Key: "harness/go-build", Msg: string(out)})
			return nil
		}
		for t := range bad {
			os.RemoveAll(filepath.Join(mod, t))
		}
	}
	var okUnits []*genUnit
	for _, u := range units {
		if !bad[u.tag] {
			okUnits = append(okUnits, u)
		}
	}
	bin := filepath.Join(*work, "bin")
	os.MkdirAll(bin, 0o755)
	cmd = exec.Command("go", "build", "-trimpath", "-o", bin+"/", "./...")
	cmd.Dir = mod
	cmd.Env = env
	if out, err := cmd.CombinedOutput(); err != nil {
		res.fail(finding{Key: "harness/go-build-2", Msg: string(out)})
		return nil
	}
	for _, u := range okUnits {
		u.bin = filepath.Join(bin, "d_"+u.tag)
	}
	res.Extra["atoms_skipped_parser_rejects"] = skippedParse
	res.Extra["atoms_skipped_generation_fails"] = skippedGen
	res.Extra["atoms_skipped_go_does_not_compile"] = len(bad)
	res.Extra["atoms_built"] = len(okUnits)
	return okUnits
}

// runDriver executes a plan with a unit's driver binary and returns the raw JSON.
func runDriver(u *genUnit, planJSON []byte) ([]byte, error) {
	pf := filepath.Join(*work, "plan_"+u.tag+".json")
	if err := os.WriteFile(pf, planJSON, 0o644); err != nil {
		return nil, err
	}
	cmd := exec.Command(u.bin, pf)
	out, err := cmd.Output()
	if err != nil {
		if ee, ok := err.(*exec.ExitError); ok {
			return nil, fmt.Errorf("driver exit: %v: %s", err, string(ee.Stderr)[:min(len(ee.Stderr), 2000)])
		}
		return nil, err
	}
	return out, nil
}

func min(a, b int) int {
	if a < b {
		return a
	}
	return b
}
