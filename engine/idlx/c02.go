package main

import (
	"encoding/json"
	"fmt"
	"strconv"
	"strings"

	"verif/idlx/idl"
)

// C02: generated Go types encode exactly what the IDL declares and decode every conforming encoding.

type drvOp struct {
	Op    string `json:"op"`
	Type  string `json:"type"`
	Proto string `json:"proto"`
	Value *idl.V `json:"value,omitempty"`
	Tree  *idl.W `json:"tree,omitempty"`
	Call  interface{} `json:"call,omitempty"`
}

type drvResult struct {
	Tree  *idl.W `json:"tree,omitempty"`
	Value *idl.V `json:"value,omitempty"`
	Err   string `json:"err,omitempty"`
	Panic string `json:"panic,omitempty"`
	Call  json.RawMessage `json:"call,omitempty"`
}

type drvPlan struct {
	Structs map[string]*idl.SRT `json:"structs"`
	Ops     []drvOp             `json:"ops"`
}

// expectation attached to each op
type c02Exp struct {
	kind    string // write-ok write-err read-ok read-err
	tree    *idl.W
	value   *idl.V
	desc    string
	keyPart string
}

func cloneW(w *idl.W) *idl.W {
	b, _ := json.Marshal(w)
	var c idl.W
	json.Unmarshal(b, &c)
	if c.T == idl.TStruct && c.F == nil {
		c.F = map[string]*idl.W{}
	}
	return &c
}

func fieldIDs(s *idl.Struct) []string {
	var out []string
	for _, f := range s.Fields {
		out = append(out, strconv.Itoa(f.ID))
	}
	return out
}

// c02StructOps builds the ops for one struct-like type of an atom.
func c02StructOps(r *idl.Resolver, s *idl.Struct, f *idl.File, goName string, protos []string, maxVals int) ([]drvOp, []c02Exp) {
	var ops []drvOp
	var exps []c02Exp
	vals := r.StructValues(s, f, 0)
	// add per-field value classes: vary one field at a time through all its classes
	if s.Kind != "union" {
		base := vals[0]
		for _, fl := range s.Fields {
			cls := r.Values(r.Resolve(f, fl.Type), 1)
			for ci := 1; ci < len(cls) && ci < maxVals; ci++ {
				v := &idl.V{K: "struct", F: map[string]*idl.V{}}
				for k, x := range base.F {
					v.F[k] = x
				}
				v.F[strconv.Itoa(fl.ID)] = cls[ci]
				vals = append(vals, v)
			}
		}
	}
	hasDefault := map[string]bool{}
	for _, fl := range s.Fields {
		if fl.Default != nil {
			hasDefault[strconv.Itoa(fl.ID)] = true
		}
	}
	if s.Kind == "union" && len(s.Fields) == 0 {
		return nil, nil // a union without members has no value
	}
	// setting an optional field to its declared default cannot be expressed in the generated Go API
	var kept []*idl.V
	for _, v := range vals {
		skip := false
		for _, fl := range s.Fields {
			if fl.Req == "optional" && fl.Default != nil {
				if x, ok := v.F[strconv.Itoa(fl.ID)]; ok {
					dv := r.LitToVIn(f, r.Resolve(f, fl.Type), fl.Default)
					idl.SortV(dv)
					xc := cloneV(x)
					idl.SortV(xc)
					if idl.CanonV(dv) == idl.CanonV(xc) {
						skip = true
					}
				}
			}
		}
		if !skip {
			kept = append(kept, v)
		}
	}
	vals = kept
	for vi, v := range vals {
		// a field with a declared default that is optional cannot express "set to the default" in Go:
		// keep such fields at non-default values (the typical class differs from the defaults used)
		for _, proto := range protos {
			want := r.ExpectStructTree(s, f, v)
			ops = append(ops, drvOp{Op: "write", Type: goName, Proto: proto, Value: v})
			exps = append(exps, c02Exp{kind: "write-ok", tree: want, desc: fmt.Sprintf("write %s value#%d %s", goName, vi, proto), keyPart: "write"})
			// read: declared order, reversed order, unknown fields interleaved
			for oi, order := range []string{"declared", "reversed", "unknown-fields"} {
				t := cloneW(want)
				ids := []string{}
				for _, id := range fieldIDs(s) {
					if _, ok := t.F[id]; ok {
						ids = append(ids, id)
					}
				}
				switch order {
				case "reversed":
					for i, j := 0, len(ids)-1; i < j; i, j = i+1, j-1 {
						ids[i], ids[j] = ids[j], ids[i]
					}
				case "unknown-fields":
					if s.Kind == "union" {
						continue // an extra field in a union is a second member: not a conforming encoding
					}
					t.F["30000"] = &idl.W{T: idl.TString, S: "dW5rbm93bg=="}
					t.F["30001"] = &idl.W{T: idl.TStruct, F: map[string]*idl.W{"1": {T: idl.TI64, I: "5"}, "2": {T: idl.TList, ET: idl.TI32, E: []*idl.W{{T: idl.TI32, I: "1"}}}}}
					t.F["30002"] = &idl.W{T: idl.TMap, KT: idl.TString, ET: idl.TBool, E: []*idl.W{{T: idl.TString, S: "aw=="}, {T: idl.TBool, B: true}}}
					ids = append([]string{"30000"}, ids...)
					ids = append(ids, "30001", "30002")
				}
				t.Ord = ids
				if oi > 0 && vi > 2 {
					continue
				}
				ops = append(ops, drvOp{Op: "read", Type: goName, Proto: proto, Tree: t})
				exps = append(exps, c02Exp{kind: "read-ok", value: v, desc: fmt.Sprintf("read %s value#%d order=%s %s", goName, vi, order, proto), keyPart: "read/" + order})
			}
		}
	}
	proto := protos[0]
	if s.Kind == "union" {
		// none set and two set must be rejected on write; two members on the wire rejected on read
		ops = append(ops, drvOp{Op: "write", Type: goName, Proto: proto, Value: &idl.V{K: "struct", F: map[string]*idl.V{}}})
		exps = append(exps, c02Exp{kind: "write-err", desc: "write union with no member set", keyPart: "union-none-set"})
		if len(s.Fields) >= 2 {
			two := &idl.V{K: "struct", F: map[string]*idl.V{}}
			for _, fl := range s.Fields[:2] {
				two.F[strconv.Itoa(fl.ID)] = r.Values(r.Resolve(f, fl.Type), 1)[0]
			}
			ops = append(ops, drvOp{Op: "write", Type: goName, Proto: proto, Value: two})
			exps = append(exps, c02Exp{kind: "write-err", desc: "write union with two members set", keyPart: "union-two-set"})
			ops = append(ops, drvOp{Op: "read", Type: goName, Proto: proto, Tree: r.ExpectStructTree(s, f, two)})
			exps = append(exps, c02Exp{kind: "read-err", desc: "read union with two members on the wire", keyPart: "union-two-on-wire"})
		}
	} else {
		// a missing required field must be rejected on read
		for _, fl := range s.Fields {
			if fl.Req != "required" {
				continue
			}
			t := r.ExpectStructTree(s, f, vals[0])
			delete(t.F, strconv.Itoa(fl.ID))
			ops = append(ops, drvOp{Op: "read", Type: goName, Proto: proto, Tree: t})
			exps = append(exps, c02Exp{kind: "read-err", desc: fmt.Sprintf("read %s without required field %d", goName, fl.ID), keyPart: "missing-required"})
		}
		// nothing set: non-optional fields must still be written (zero / declared default); a nil
		// struct pointer is not a value of the declared type, so such structs are left out
		hasStructField := false
		for _, fl := range s.Fields {
			k := r.Resolve(f, fl.Type).K
			if fl.Req != "optional" && (k == "struct" || k == "union" || k == "exception") {
				hasStructField = true
			}
		}
		if !hasStructField {
			ops = append(ops, drvOp{Op: "write", Type: goName, Proto: proto, Value: &idl.V{K: "struct", F: map[string]*idl.V{}}})
			exps = append(exps, c02Exp{kind: "write-unset", desc: fmt.Sprintf("write %s with nothing set", goName), keyPart: "unset"})
		}
	}
	return ops, exps
}

func runC02(res *result) {
	thorough := *tier == "thorough"
	depth := 1
	if thorough {
		depth = 2
	}
	atoms := idl.FieldAtoms(depth)
	for _, a := range idl.DeclAtoms() {
		if a.Class == "union" || a.Class == "exception" || a.Class == "struct" || a.Class == "constref" || strings.HasPrefix(a.Name, "service/ret") || a.Name == "service/include-types" || a.Name == "service/oneway" {
			atoms = append(atoms, a)
		}
	}
	if !thorough {
		// quick: every field atom of a leaf type (all requiredness x default combinations), every
		// second one of a container type (all shapes still occur with at least one requiredness)
		var keep []idl.Atom
		for i, a := range atoms {
			leaf := a.Class == "field" && !strings.ContainsAny(a.Name, "<")
			if a.Class != "field" || leaf || i%2 == 0 {
				keep = append(keep, a)
			}
		}
		atoms = keep
	}
	protos := []string{"binary", "compact", "json"}
	maxVals := 3
	if thorough {
		maxVals = 5
	}
	units := prepareGenModule(res, atoms, "")
	for _, u := range units {
		r := &idl.Resolver{P: u.atom.Prog}
		plan := drvPlan{Structs: r.AllStructRTs()}
		var exps []c02Exp
		main := u.atom.Prog.Files[0]
		for _, d := range main.Decls {
			switch {
			case d.Struct != nil:
				o, e := c02StructOps(r, d.Struct, main, d.Struct.Name, protos, maxVals)
				plan.Ops = append(plan.Ops, o...)
				exps = append(exps, e...)
			case d.Service != nil:
				for _, m := range d.Service.Methods {
					// synthesised args / result structs
					title := strings.ToUpper(m.Name[:1]) + m.Name[1:]
					args := &idl.Struct{Kind: "struct", Name: d.Service.Name + title + "Args"}
					for _, a := range m.Args {
						args.Fields = append(args.Fields, &idl.Field{ID: a.ID, Name: a.Name, Req: "default", Type: a.Type})
					}
					plan.Structs[args.Name] = r.StructRT(args, main)
					r.P.Files[0].Decls = append(r.P.Files[0].Decls, &idl.Decl{Struct: args})
					o, e := c02StructOps(r, args, main, args.Name, protos[:1], 2)
					plan.Ops = append(plan.Ops, o...)
					exps = append(exps, e...)
				}
			}
		}
		if len(plan.Ops) == 0 {
			continue
		}
		res.Nontrivial++
		pj, _ := json.Marshal(plan)
		out, err := runDriver(u, pj)
		if err != nil {
			res.fail(finding{Key: "C02/driver-crashed/" + u.atom.Name, Atom: u.atom.Name, IDL: u.texts, Msg: err.Error()})
			continue
		}
		var results []drvResult
		if err := json.Unmarshal(out, &results); err != nil || len(results) != len(plan.Ops) {
			res.fail(finding{Key: "C02/harness/driver-output/" + u.atom.Name, Msg: fmt.Sprintf("%v (%d results for %d ops)", err, len(results), len(plan.Ops))})
			continue
		}
		for i, rr := range results {
			ex := exps[i]
			res.Evaluations++
			bad := ""
			switch {
			case rr.Panic != "":
				bad = "panic: " + rr.Panic
			case ex.kind == "write-ok":
				if rr.Err != "" {
					bad = "error: " + rr.Err
				} else if idl.CanonW(rr.Tree) != idl.CanonW(ex.tree) {
					bad = fmt.Sprintf("encoding differs from the declaration: wrote %s, IDL declares %s", idl.CanonW(rr.Tree), idl.CanonW(ex.tree))
				}
			case ex.kind == "write-err":
				if rr.Err == "" {
					bad = "accepted silently, wrote " + idl.CanonW(rr.Tree)
				}
			case ex.kind == "write-unset":
				if rr.Err != "" {
					bad = "error: " + rr.Err
				} else {
					// every required / default field must be present
					st, _ := r.FindStruct(plan.Ops[i].Type)
					if st != nil {
						for _, fl := range st.Fields {
							rt := r.Resolve(main, fl.Type)
							if fl.Req == "optional" || rt.K == "struct" || rt.K == "union" || rt.K == "exception" {
								continue
							}
							id := strconv.Itoa(fl.ID)
							if _, ok := rr.Tree.F[id]; !ok {
								bad = fmt.Sprintf("%s field %d (%s) is not written when unset", fl.Req, fl.ID, fl.Type)
							} else if fl.Default != nil {
								// a freshly constructed value carries the declared default, exactly
								stf, sff := r.FindStruct(plan.Ops[i].Type)
								want := r.ExpectStructTree(stf, sff, &idl.V{K: "struct", F: map[string]*idl.V{id: r.LitToVIn(sff, rt, fl.Default)}})
								if w, ok := want.F[id]; ok && idl.CanonW(w) != idl.CanonW(rr.Tree.F[id]) {
									bad = fmt.Sprintf("%s field %d (%s) of a freshly constructed value is written as %s, the declared default is %s", fl.Req, fl.ID, fl.Type, idl.CanonW(rr.Tree.F[id]), idl.CanonW(w))
								}
							}
						}
					}
				}
			case ex.kind == "read-ok":
				if rr.Err != "" {
					bad = "conforming encoding rejected: " + rr.Err
				} else {
					got, want := rr.Value, ex.value
					idl.SortV(got)
					wc := cloneV(want)
					idl.SortV(wc)
					if idl.CanonV(got) != idl.CanonV(wc) {
						bad = fmt.Sprintf("decoded value differs: got %s, encoded %s", idl.CanonV(got), idl.CanonV(wc))
					}
				}
			case ex.kind == "read-err":
				if rr.Err == "" {
					bad = "accepted: " + idl.CanonV(rr.Value)
				}
			}
			if bad != "" {
				if len(bad) > 500 {
					bad = bad[:500]
				}
				res.fail(finding{Key: fmt.Sprintf("C02/%s/%s", ex.keyPart, u.atom.Name), Atom: u.atom.Name, IDL: u.texts, Msg: ex.desc + ": " + bad})
			}
		}
		if len(res.Samples) < 3 {
			res.Samples = append(res.Samples, map[string]interface{}{"atom": u.atom.Name, "ops": len(plan.Ops), "first_op": exps[0].desc})
		}
	}
}

func cloneV(v *idl.V) *idl.V {
	b, _ := json.Marshal(v)
	var c idl.V
	json.Unmarshal(b, &c)
	return &c
}
