package main

import (
	"encoding/json"
	"fmt"
	"os"
	"path/filepath"
	"strings"

	"github.com/Workiva/frugal/compiler/parser"

	"verif/idlx/idl"
)

// C18: the audit fails iff at least one applied edit is breaking. Edits come from the catalogue
// documented in audit.go's comments and the property statement, applied at every applicable site
// of feature-rich base programs.

type edit struct {
	Name  string
	Label string // breaking | compatible | dontcare
	Apply func(p *idl.Program)
}

func cloneProg(p *idl.Program) *idl.Program {
	b, _ := json.Marshal(p)
	var q idl.Program
	if err := json.Unmarshal(b, &q); err != nil {
		panic(err)
	}
	return &q
}

func auditBase() *idl.Program {
	T, List, Map, Set := idl.T, idl.List, idl.Map, idl.Set
	fld := func(id int, name, req string, t *idl.Type) *idl.Field {
		return &idl.Field{ID: id, Name: name, Req: req, Type: t}
	}
	one, two := 1, 2
	main := &idl.File{Name: "main.frugal", Decls: []*idl.Decl{
		{NS: &idl.NS{Scope: "go", Value: "auditpkg"}},
		{NS: &idl.NS{Scope: "java", Value: "auditpkg"}},
		{Include: "base.frugal"},
		{Const: &idl.Const{Name: "LIMIT", Type: T("i32"), Value: idl.Int(10)}},
		{Typedef: &idl.Typedef{Name: "Num", Type: T("i32")}},
		{Typedef: &idl.Typedef{Name: "Nums", Type: List(T("Num"))}},
		{Typedef: &idl.Typedef{Name: "Counts", Type: Map(T("string"), T("i32"))}},
		{Enum: &idl.Enum{Name: "Color", Values: []*idl.EnumValue{{Name: "RED", Explicit: &one}, {Name: "GREEN", Explicit: &two}, {Name: "BLUE"}}}},
		{Struct: &idl.Struct{Kind: "struct", Name: "Point", Fields: []*idl.Field{
			fld(1, "x", "required", T("i32")), fld(2, "y", "default", T("Num")), fld(5, "label", "optional", T("string")),
			fld(7, "tags", "default", List(T("string"))), fld(9, "grid", "default", Map(T("string"), List(T("i32")))), fld(12, "last", "default", T("Color"))}}},
		{Struct: &idl.Struct{Kind: "struct", Name: "Holder", Fields: []*idl.Field{
			fld(1, "p", "default", T("Point")), fld(2, "ps", "required", Map(T("Num"), T("Point"))), fld(3, "ids", "default", Set(T("base.id"))), fld(4, "n", "default", T("Nums")), fld(5, "counts", "optional", T("Counts"))}}},
		{Struct: &idl.Struct{Kind: "union", Name: "Choice", Fields: []*idl.Field{fld(1, "num", "default", T("i64")), fld(2, "text", "default", T("string")), fld(3, "pt", "default", T("Point"))}}},
		{Struct: &idl.Struct{Kind: "exception", Name: "Oops", Fields: []*idl.Field{fld(1, "why", "default", T("string")), fld(2, "code", "required", T("i32"))}}},
		{Struct: &idl.Struct{Kind: "exception", Name: "Bad", Fields: []*idl.Field{fld(1, "msg", "default", T("string"))}}},
		{Service: &idl.Service{Name: "Parent", Methods: []*idl.Method{{Name: "parentPing"}}}},
		{Service: &idl.Service{Name: "Other", Methods: []*idl.Method{{Name: "otherPing"}}}},
		{Service: &idl.Service{Name: "Svc", Extends: "Parent", Methods: []*idl.Method{
			{Name: "ping"},
			{Name: "get", Ret: T("Point"), Args: []*idl.Field{fld(1, "id", "default", T("Num")), fld(2, "opts", "default", Map(T("string"), T("string")))}, Throws: []*idl.Field{fld(1, "oops", "default", T("Oops")), fld(2, "bad", "default", T("Bad"))}},
			{Name: "put", Args: []*idl.Field{fld(1, "p", "default", T("Point")), fld(3, "flag", "default", T("bool"))}, Throws: []*idl.Field{fld(1, "oops", "default", T("Oops"))}},
			{Name: "fire", Oneway: true, Args: []*idl.Field{fld(1, "n", "default", T("i64"))}},
			{Name: "list", Ret: List(T("base.Thing"))},
		}}},
		// a local service with the same bare name as the included base.BaseSvc, and children of each
		{Service: &idl.Service{Name: "BaseSvc", Methods: []*idl.Method{{Name: "localPing"}}}},
		{Service: &idl.Service{Name: "KidOfIncluded", Extends: "base.BaseSvc", Methods: []*idl.Method{{Name: "kidPing"}}}},
		{Service: &idl.Service{Name: "KidOfLocal", Extends: "BaseSvc", Methods: []*idl.Method{{Name: "kidPing"}}}},
		{Service: &idl.Service{Name: "Plain", Methods: []*idl.Method{{Name: "noop"}, {Name: "count", Ret: T("i32")}, {Name: "tally", Ret: T("Counts"), Args: []*idl.Field{fld(1, "n", "default", T("Nums"))}}}}},
		{Scope: &idl.Scope{Name: "Events", Prefix: "foo.{user}.bar", Ops: []*idl.Op{{Name: "Created", Type: T("Point")}, {Name: "Holding", Type: T("Holder")}}}},
		{Scope: &idl.Scope{Name: "Audit", Prefix: "", Ops: []*idl.Op{{Name: "Logged", Type: T("base.Thing")}}}},
		// a prefix whose variable names also occur as literal text (a whole segment, part of a segment)
		{Scope: &idl.Scope{Name: "Named", Prefix: "v1.user.{user}.ids.{id}", Ops: []*idl.Op{{Name: "Seen", Type: T("Point")}}}},
	}}
	return &idl.Program{Files: []*idl.File{main, idl.BaseFile()}}
}

func findStruct(p *idl.Program, name string) *idl.Struct {
	for _, d := range p.Files[0].Decls {
		if d.Struct != nil && d.Struct.Name == name {
			return d.Struct
		}
	}
	return nil
}
func findService(p *idl.Program, name string) *idl.Service {
	for _, d := range p.Files[0].Decls {
		if d.Service != nil && d.Service.Name == name {
			return d.Service
		}
	}
	return nil
}
func findMethod(p *idl.Program, svc, m string) *idl.Method {
	for _, x := range findService(p, svc).Methods {
		if x.Name == m {
			return x
		}
	}
	return nil
}
func findScope(p *idl.Program, name string) *idl.Scope {
	for _, d := range p.Files[0].Decls {
		if d.Scope != nil && d.Scope.Name == name {
			return d.Scope
		}
	}
	return nil
}
func removeDecl(p *idl.Program, pred func(d *idl.Decl) bool) {
	var out []*idl.Decl
	for _, d := range p.Files[0].Decls {
		if !pred(d) {
			out = append(out, d)
		}
	}
	p.Files[0].Decls = out
}
func fieldByID(fs []*idl.Field, id int) *idl.Field {
	for _, f := range fs {
		if f.ID == id {
			return f
		}
	}
	return nil
}
func dropField(fs []*idl.Field, id int) []*idl.Field {
	var out []*idl.Field
	for _, f := range fs {
		if f.ID != id {
			out = append(out, f)
		}
	}
	return out
}

// retypes returns type-changing variants of t: a different base at the root and at every nested
// position.
func retypes(t *idl.Type) []*idl.Type {
	var out []*idl.Type
	// no declaration of the base program (nor any typedef target) is a double
	other := func(x *idl.Type) *idl.Type { return idl.T("double") }
	switch t.Name {
	case "list", "set":
		out = append(out, other(t))
		for _, v := range retypes(t.Val) {
			out = append(out, &idl.Type{Name: t.Name, Val: v})
		}
		// list <-> set changes the container kind
		if t.Name == "list" {
			out = append(out, idl.Set(t.Val))
		}
	case "map":
		out = append(out, other(t))
		for _, v := range retypes(t.Val) {
			out = append(out, idl.Map(t.Key, v))
		}
		out = append(out, idl.Map(idl.T("i16"), t.Val))
	default:
		out = append(out, other(t))
	}
	return out
}

// fieldEdits enumerates the catalogue for one field list; get returns the list in a fresh copy.
func fieldEdits(site string, kind string, fs []*idl.Field, get func(p *idl.Program) *[]*idl.Field) []edit {
	var out []edit
	maxID := 0
	for _, f := range fs {
		if f.ID > maxID {
			maxID = f.ID
		}
	}
	for _, f := range fs {
		f := f
		id := f.ID
		nonOptional := f.Req != "optional" && kind != "union" && kind != "throws"
		lab := "dontcare"
		if nonOptional {
			lab = "breaking"
		}
		out = append(out, edit{Name: fmt.Sprintf("%s/remove-field-%d", site, id), Label: lab, Apply: func(p *idl.Program) { l := get(p); *l = dropField(*l, id) }})
		for ti, nt := range retypes(f.Type) {
			nt := nt
			out = append(out, edit{Name: fmt.Sprintf("%s/retype-field-%d-%d-%s", site, id, ti, nt.String()), Label: "breaking", Apply: func(p *idl.Program) { fieldByID(*get(p), id).Type = nt }})
		}
		out = append(out, edit{Name: fmt.Sprintf("%s/rename-field-%d", site, id), Label: "compatible", Apply: func(p *idl.Program) { fieldByID(*get(p), id).Name += "Renamed" }})
		if kind == "struct" || kind == "exception" {
			for _, nr := range []string{"required", "default", "optional"} {
				nr := nr
				if nr == f.Req {
					continue
				}
				lab := "dontcare" // default <-> optional: the documented catalogue does not call it breaking
				if (nr == "required") != (f.Req == "required") {
					lab = "breaking"
				}
				out = append(out, edit{Name: fmt.Sprintf("%s/requiredness-field-%d-%s-to-%s", site, id, f.Req, nr), Label: lab, Apply: func(p *idl.Program) { fieldByID(*get(p), id).Req = nr }})
			}
		}
		if f.Type.Name == "i32" || f.Type.Name == "string" {
			out = append(out, edit{Name: fmt.Sprintf("%s/default-changed-field-%d", site, id), Label: "compatible", Apply: func(p *idl.Program) {
				x := fieldByID(*get(p), id)
				if x.Type.Name == "i32" {
					x.Default = idl.Int(99)
				} else {
					x.Default = idl.Str("changed")
				}
			}})
		}
	}
	if kind != "throws" {
		add := func(name, req string, id int, label string) {
			out = append(out, edit{Name: fmt.Sprintf("%s/add-%s-field-id%d", site, req, id), Label: label, Apply: func(p *idl.Program) {
				l := get(p)
				*l = append(*l, &idl.Field{ID: id, Name: name, Req: req, Type: idl.T("i32")})
			}})
		}
		if kind == "struct" || kind == "exception" {
			add("addedReq", "required", maxID+1, "breaking")
			add("addedOpt", "optional", maxID+1, "compatible")
		}
		add("addedDef", "default", maxID+1, "compatible")
		// in the middle: an unused id between existing ones
		for mid := 1; mid < maxID; mid++ {
			if fieldByID(fs, mid) == nil {
				add("addedMid", "default", mid, "compatible")
				if kind == "struct" || kind == "exception" {
					add("addedMidReq", "required", mid, "breaking")
				}
				break
			}
		}
	}
	return out
}

func cloneType(t *idl.Type) *idl.Type {
	if t == nil {
		return nil
	}
	return &idl.Type{Name: t.Name, Key: cloneType(t.Key), Val: cloneType(t.Val)}
}

// forEachType visits every type-use site of the main file (struct fields, method returns,
// arguments, scope operations); f may replace the type.
func forEachType(p *idl.Program, f func(pt **idl.Type)) {
	for _, x := range p.Files[0].Decls {
		switch {
		case x.Struct != nil:
			for _, fl := range x.Struct.Fields {
				f(&fl.Type)
			}
		case x.Service != nil:
			for _, m := range x.Service.Methods {
				if m.Ret != nil {
					f(&m.Ret)
				}
				for _, fl := range m.Args {
					f(&fl.Type)
				}
			}
		case x.Scope != nil:
			for _, o := range x.Scope.Ops {
				f(&o.Type)
			}
		}
	}
}

func auditEdits(base *idl.Program) []edit {
	var out []edit
	out = append(out, edit{Name: "identical", Label: "compatible", Apply: func(p *idl.Program) {}})
	// giving an unchanged inline container a typedef name changes nothing on the wire
	{
		n := 0
		forEachType(base, func(pt **idl.Type) {
			if !(*pt).IsContainer() {
				return
			}
			idx, shape := n, (*pt).String()
			n++
			out = append(out, edit{Name: fmt.Sprintf("name-inline-container-%d-%s", idx, shape), Label: "compatible", Apply: func(p *idl.Program) {
				k := 0
				forEachType(p, func(q **idl.Type) {
					if !(*q).IsContainer() {
						return
					}
					if k == idx {
						alias := fmt.Sprintf("Alias%d", idx)
						td := &idl.Decl{Typedef: &idl.Typedef{Name: alias, Type: *q}}
						*q = idl.T(alias)
						// declare it next to the other typedefs
						ds := p.Files[0].Decls
						for i, x := range ds {
							if x.Typedef != nil {
								p.Files[0].Decls = append(append(append([]*idl.Decl{}, ds[:i]...), td), ds[i:]...)
								break
							}
						}
					}
					k++
				})
			}})
		})
	}
	for _, d := range base.Files[0].Decls {
		d := d
		switch {
		case d.Struct != nil:
			name, kind := d.Struct.Name, d.Struct.Kind
			out = append(out, fieldEdits(kind+" "+name, kind, d.Struct.Fields, func(p *idl.Program) *[]*idl.Field { return &findStruct(p, name).Fields })...)
			// removing a struct that is still referenced would not parse; Bad is referenced by Svc.get only
			if name == "Choice" {
				out = append(out, edit{Name: "remove-" + kind + "-" + name, Label: "breaking", Apply: func(p *idl.Program) {
					removeDecl(p, func(d *idl.Decl) bool { return d.Struct != nil && d.Struct.Name == name })
				}})
				out = append(out, edit{Name: "rename-" + kind + "-" + name, Label: "breaking", Apply: func(p *idl.Program) { findStruct(p, name).Name = name + "Renamed" }})
				out = append(out, edit{Name: "union-to-struct-" + name, Label: "dontcare", Apply: func(p *idl.Program) { findStruct(p, name).Kind = "struct" }})
			}
		case d.Enum != nil:
			en := d.Enum.Name
			for i := range d.Enum.Values {
				i := i
				out = append(out, edit{Name: fmt.Sprintf("enum %s/remove-value-%d", en, i), Label: "breaking", Apply: func(p *idl.Program) {
					for _, x := range p.Files[0].Decls {
						if x.Enum != nil && x.Enum.Name == en {
							// keep the numbering of the remaining values: make them explicit first
							prev := -1
							for _, v := range x.Enum.Values {
								val := prev + 1
								if v.Explicit != nil {
									val = *v.Explicit
								}
								prev = val
								vv := val
								v.Explicit = &vv
							}
							x.Enum.Values = append(x.Enum.Values[:i:i], x.Enum.Values[i+1:]...)
						}
					}
				}})
				out = append(out, edit{Name: fmt.Sprintf("enum %s/rename-value-%d", en, i), Label: "compatible", Apply: func(p *idl.Program) {
					for _, x := range p.Files[0].Decls {
						if x.Enum != nil && x.Enum.Name == en {
							x.Enum.Values[i].Name += "_RENAMED"
						}
					}
				}})
			}
			out = append(out, edit{Name: "enum " + en + "/add-value", Label: "compatible", Apply: func(p *idl.Program) {
				for _, x := range p.Files[0].Decls {
					if x.Enum != nil && x.Enum.Name == en {
						x.Enum.Values = append(x.Enum.Values, &idl.EnumValue{Name: "ADDED"})
					}
				}
			}})
		case d.Typedef != nil && d.Typedef.Name == "Num":
			out = append(out, edit{Name: "typedef Num/retarget-i32-to-i64", Label: "breaking", Apply: func(p *idl.Program) {
				for _, x := range p.Files[0].Decls {
					if x.Typedef != nil && x.Typedef.Name == "Num" {
						x.Typedef.Type = idl.T("i64")
					}
				}
			}})
			out = append(out, edit{Name: "typedef Num/rename-typedef-keeping-target", Label: "compatible", Apply: func(p *idl.Program) {
				// replace every use of Num by its underlying type
				var fix func(t *idl.Type)
				fix = func(t *idl.Type) {
					if t == nil {
						return
					}
					if t.Name == "Num" {
						t.Name = "i32"
					}
					fix(t.Key)
					fix(t.Val)
				}
				for _, x := range p.Files[0].Decls {
					switch {
					case x.Struct != nil:
						for _, f := range x.Struct.Fields {
							fix(f.Type)
						}
					case x.Service != nil:
						for _, m := range x.Service.Methods {
							fix(m.Ret)
							for _, f := range m.Args {
								fix(f.Type)
							}
						}
					case x.Typedef != nil:
						fix(x.Typedef.Type)
					}
				}
			}})
		case d.Typedef != nil && d.Typedef.Type.IsContainer():
			// a typedef whose target is a container: retarget the container or any element of it
			// (every user of the name is retyped on the wire), and replace the name by its
			// unchanged target everywhere (nothing changes on the wire)
			tn := d.Typedef.Name
			setTarget := func(p *idl.Program, t *idl.Type) {
				for _, x := range p.Files[0].Decls {
					if x.Typedef != nil && x.Typedef.Name == tn {
						x.Typedef.Type = t
					}
				}
			}
			for ti, nt := range retypes(d.Typedef.Type) {
				nt := nt
				out = append(out, edit{Name: fmt.Sprintf("typedef %s/retarget-%d-%s", tn, ti, nt.String()), Label: "breaking", Apply: func(p *idl.Program) { setTarget(p, nt) }})
			}
			target := d.Typedef.Type
			out = append(out, edit{Name: "typedef " + tn + "/inline-target-at-every-use", Label: "compatible", Apply: func(p *idl.Program) {
				forEachType(p, func(pt **idl.Type) {
					if (*pt).Name == tn {
						*pt = cloneType(target)
					}
				})
			}})
		case d.Const != nil:
			out = append(out, edit{Name: "const/value-changed", Label: "compatible", Apply: func(p *idl.Program) {
				for _, x := range p.Files[0].Decls {
					if x.Const != nil {
						x.Const.Value = idl.Int(11)
					}
				}
			}})
			out = append(out, edit{Name: "const/removed", Label: "compatible", Apply: func(p *idl.Program) { removeDecl(p, func(d *idl.Decl) bool { return d.Const != nil }) }})
		case d.NS != nil && d.NS.Scope == "go":
			out = append(out, edit{Name: "namespace/changed", Label: "compatible", Apply: func(p *idl.Program) {
				for _, x := range p.Files[0].Decls {
					if x.NS != nil && x.NS.Scope == "go" {
						x.NS.Value = "otherpkg"
					}
				}
			}})
			out = append(out, edit{Name: "namespace/removed", Label: "compatible", Apply: func(p *idl.Program) {
				removeDecl(p, func(d *idl.Decl) bool { return d.NS != nil && d.NS.Scope == "go" })
			}})
		case d.Service != nil:
			sn := d.Service.Name
			if sn == "KidOfLocal" {
				// a method leaves the child while its parent gains a method of that name with another
				// signature: the child's callers meet something else under the old name
				out = append(out, edit{Name: "service " + sn + "/method-removed-while-parent-gains-an-incompatible-namesake", Label: "breaking", Apply: func(p *idl.Program) {
					k := findService(p, sn)
					var keep []*idl.Method
					for _, m := range k.Methods {
						if m.Name != "kidPing" {
							keep = append(keep, m)
						}
					}
					k.Methods = keep
					par := findService(p, "BaseSvc")
					par.Methods = append(par.Methods, &idl.Method{Name: "kidPing", Ret: idl.T("i64"), Args: []*idl.Field{{ID: 1, Name: "x", Req: "default", Type: idl.T("i32")}}})
				}})
			}
			if sn == "Svc" || sn == "Plain" {
				out = append(out, edit{Name: "service " + sn + "/remove", Label: "breaking", Apply: func(p *idl.Program) {
					removeDecl(p, func(d *idl.Decl) bool { return d.Service != nil && d.Service.Name == sn })
				}})
				out = append(out, edit{Name: "service " + sn + "/rename", Label: "breaking", Apply: func(p *idl.Program) { findService(p, sn).Name = sn + "Renamed" }})
				out = append(out, edit{Name: "service " + sn + "/add-method", Label: "compatible", Apply: func(p *idl.Program) {
					s := findService(p, sn)
					s.Methods = append(s.Methods, &idl.Method{Name: "addedMethod", Ret: idl.T("i32")})
				}})
			}
			if d.Service.Extends != "" {
				out = append(out, edit{Name: "service " + sn + "/extends-changed", Label: "breaking", Apply: func(p *idl.Program) { findService(p, sn).Extends = "Other" }})
				out = append(out, edit{Name: "service " + sn + "/extends-removed", Label: "breaking", Apply: func(p *idl.Program) { findService(p, sn).Extends = "" }})
				// a different parent with the same bare name (qualified <-> local)
				switch d.Service.Extends {
				case "base.BaseSvc":
					out = append(out, edit{Name: "service " + sn + "/extends-included-parent-to-local-namesake", Label: "breaking", Apply: func(p *idl.Program) { findService(p, sn).Extends = "BaseSvc" }})
				case "BaseSvc":
					out = append(out, edit{Name: "service " + sn + "/extends-local-parent-to-included-namesake", Label: "breaking", Apply: func(p *idl.Program) { findService(p, sn).Extends = "base.BaseSvc" }})
				}
			} else if sn == "Plain" {
				out = append(out, edit{Name: "service " + sn + "/extends-added", Label: "compatible", Apply: func(p *idl.Program) { findService(p, sn).Extends = "Parent" }})
			}
			if sn != "Svc" && sn != "Plain" {
				continue
			}
			for _, m := range d.Service.Methods {
				m := m
				mn := m.Name
				site := "service " + sn + " method " + mn
				out = append(out, edit{Name: site + "/remove", Label: "breaking", Apply: func(p *idl.Program) {
					s := findService(p, sn)
					var ms []*idl.Method
					for _, x := range s.Methods {
						if x.Name != mn {
							ms = append(ms, x)
						}
					}
					s.Methods = ms
				}})
				out = append(out, edit{Name: site + "/rename", Label: "breaking", Apply: func(p *idl.Program) { findMethod(p, sn, mn).Name = mn + "Renamed" }})
				if m.Ret == nil && len(m.Throws) == 0 {
					out = append(out, edit{Name: site + "/oneway-toggled", Label: "breaking", Apply: func(p *idl.Program) { x := findMethod(p, sn, mn); x.Oneway = !x.Oneway }})
				}
				// return type
				if m.Ret == nil && !m.Oneway {
					out = append(out, edit{Name: site + "/return-void-to-i32", Label: "breaking", Apply: func(p *idl.Program) { findMethod(p, sn, mn).Ret = idl.T("i32") }})
				}
				if m.Ret != nil {
					out = append(out, edit{Name: site + "/return-to-void", Label: "breaking", Apply: func(p *idl.Program) { findMethod(p, sn, mn).Ret = nil }})
					for ti, nt := range retypes(m.Ret) {
						nt := nt
						out = append(out, edit{Name: fmt.Sprintf("%s/return-retype-%d-%s", site, ti, nt.String()), Label: "breaking", Apply: func(p *idl.Program) { findMethod(p, sn, mn).Ret = nt }})
					}
				}
				out = append(out, fieldEdits(site+" args", "args", m.Args, func(p *idl.Program) *[]*idl.Field { return &findMethod(p, sn, mn).Args })...)
				if len(m.Throws) > 0 {
					// exception list edits: retype / rename per field; removal labelled below
					for _, e := range fieldEdits(site+" throws", "throws", m.Throws, func(p *idl.Program) *[]*idl.Field { return &findMethod(p, sn, mn).Throws }) {
						if strings.Contains(e.Name, "/remove-field-") {
							if m.Ret == nil && len(m.Throws) == 1 {
								e.Label = "breaking" // removing the last exception of a void method
							} else {
								e.Label = "dontcare"
							}
						}
						if strings.Contains(e.Name, "/retype-field-") {
							// an exception field must name an exception type: retype to the other one
							continue
						}
						out = append(out, e)
					}
					out = append(out, edit{Name: site + " throws/retype-exception", Label: "breaking", Apply: func(p *idl.Program) {
						x := findMethod(p, sn, mn).Throws[0]
						if x.Type.Name == "Oops" {
							x.Type = idl.T("Bad")
						} else {
							x.Type = idl.T("Oops")
						}
					}})
				}
				if m.Ret == nil && len(m.Throws) == 0 && !m.Oneway {
					out = append(out, edit{Name: site + "/add-first-exception-to-void", Label: "breaking", Apply: func(p *idl.Program) {
						x := findMethod(p, sn, mn)
						x.Throws = append(x.Throws, &idl.Field{ID: 1, Name: "e", Req: "default", Type: idl.T("Oops")})
					}})
				}
				if m.Ret != nil && len(m.Throws) == 0 {
					out = append(out, edit{Name: site + "/add-exception-to-nonvoid", Label: "compatible", Apply: func(p *idl.Program) {
						x := findMethod(p, sn, mn)
						x.Throws = append(x.Throws, &idl.Field{ID: 1, Name: "e", Req: "default", Type: idl.T("Oops")})
					}})
				}
			}
		case d.Scope != nil:
			sc := d.Scope.Name
			out = append(out, edit{Name: "scope " + sc + "/remove", Label: "breaking", Apply: func(p *idl.Program) {
				removeDecl(p, func(d *idl.Decl) bool { return d.Scope != nil && d.Scope.Name == sc })
			}})
			out = append(out, edit{Name: "scope " + sc + "/add-operation", Label: "compatible", Apply: func(p *idl.Program) {
				s := findScope(p, sc)
				s.Ops = append(s.Ops, &idl.Op{Name: "AddedOp", Type: idl.T("Point")})
			}})
			for _, np := range []struct{ n, v, l string }{
				{"token-added", d.Scope.Prefix + ".extra", "breaking"}, {"token-renamed", strings.Replace(d.Scope.Prefix+"x", "foo", "fooo", 1), "breaking"},
				{"variable-renamed", strings.Replace(d.Scope.Prefix, "{user}", "{person}", 1), "compatible"},
				{"variable-made-static", strings.Replace(d.Scope.Prefix, "{user}", "user", 1), "breaking"},
				{"literal-and-variable-renamed", strings.Replace(strings.Replace(d.Scope.Prefix, "{user}", "{account}", 1), "user.", "account.", 1), "breaking"},
				{"variable-renamed-to-a-literal-segment", strings.Replace(d.Scope.Prefix, "{id}", "{v1}", 1), "compatible"},
				{"literal-renamed-to-the-variable-name", strings.Replace(d.Scope.Prefix, "ids.", "id.", 1), "breaking"},
				{"prefix-removed", "", "breaking"}, {"prefix-added", "brand.new", "breaking"}} {
				np := np
				v := strings.TrimPrefix(np.v, ".")
				if strings.HasSuffix(v, "}x") {
					v = strings.Replace(strings.TrimSuffix(v, "x"), "v1", "v2", 1) // no text may follow a variable inside a segment
				}
				if v == d.Scope.Prefix || (sc != "Named" && strings.Contains(np.n, "literal")) {
					continue
				}
				out = append(out, edit{Name: "scope " + sc + "/prefix-" + np.n, Label: np.l, Apply: func(p *idl.Program) { findScope(p, sc).Prefix = v }})
			}
			for _, o := range d.Scope.Ops {
				on := o.Name
				out = append(out, edit{Name: "scope " + sc + " op " + on + "/remove", Label: "breaking", Apply: func(p *idl.Program) {
					s := findScope(p, sc)
					var ops []*idl.Op
					for _, x := range s.Ops {
						if x.Name != on {
							ops = append(ops, x)
						}
					}
					s.Ops = ops
				}})
				out = append(out, edit{Name: "scope " + sc + " op " + on + "/retype", Label: "breaking", Apply: func(p *idl.Program) {
					for _, x := range findScope(p, sc).Ops {
						if x.Name == on {
							if x.Type.Name == "Point" {
								x.Type = idl.T("Holder")
							} else {
								x.Type = idl.T("Point")
							}
						}
					}
				}})
			}
		}
	}
	return out
}

type silentLogger struct {
	errs  []string
	warns []string
}

func (s *silentLogger) LogWarning(w ...string) { s.warns = append(s.warns, strings.Join(w, " ")) }
func (s *silentLogger) LogError(e ...string)   { s.errs = append(s.errs, strings.Join(e, " ")) }
func (s *silentLogger) ErrorsLogged() bool      { return len(s.errs) > 0 }

func runC18(res *result) {
	base := auditBase()
	edits := auditEdits(base)
	st := idl.Style{Sep: ",", Quote: '"'}
	oldDir := filepath.Join(*work, "old")
	oldMain, _ := writeProgram(oldDir, base, st)
	labels := map[string]int{}
	dontcare := map[string]string{}
	idx := 0
	try := func(name string, want string, apply func(p *idl.Program)) {
		idx++
		if idx%*nshards != *shard {
			return
		}
		p := cloneProg(base)
		apply(p)
		dir := filepath.Join(*work, fmt.Sprintf("new%d", idx))
		newMain, texts := writeProgram(dir, p, st)
		defer os.RemoveAll(dir)
		res.Evaluations++
		lg := &silentLogger{}
		var err error
		func() {
			defer func() {
				if r := recover(); r != nil {
					err = fmt.Errorf("audit panic: %v", r)
					lg.errs = append(lg.errs, "PANIC")
				}
			}()
			err = parser.NewAuditorWithLogger(lg).Audit(oldMain, newMain)
		}()
		if err != nil && len(lg.errs) == 0 {
			// the edited program does not parse: a harness problem, not an audit verdict
			res.fail(finding{Key: "C18/harness/edit-does-not-parse/" + name, Msg: fmt.Sprintf("edited program rejected: %v", err), IDL: texts})
			return
		}
		failed := err != nil
		switch want {
		case "dontcare":
			dontcare[name] = fmt.Sprintf("audit failed=%v", failed)
		case "breaking":
			res.Nontrivial++
			if !failed {
				res.fail(finding{Key: "C18/breaking-change-passes/" + name, Atom: name, IDL: texts,
					Msg: fmt.Sprintf("the audit passes although the new program contains the breaking change %q (warnings: %v)", name, lg.warns)})
			}
		case "compatible":
			if failed {
				res.fail(finding{Key: "C18/compatible-change-fails/" + name, Atom: name, IDL: texts,
					Msg: fmt.Sprintf("the audit fails on the compatible edit %q: %v", name, lg.errs)})
			}
		}
		if len(res.Samples) < 4 && want != "dontcare" {
			res.Samples = append(res.Samples, map[string]interface{}{"edit": name, "label": want, "audit_failed": failed})
		}
	}
	for _, e := range edits {
		labels[e.Label]++
		try(e.Name, e.Label, e.Apply)
	}
	if *tier == "thorough" {
		// all pairs of labelled edits at different sites
		var lab []edit
		for _, e := range edits {
			if e.Label != "dontcare" {
				lab = append(lab, e)
			}
		}
		site := func(n string) string {
			if i := strings.LastIndex(n, "/"); i > 0 {
				return n[:i]
			}
			return n
		}
		for i := 0; i < len(lab); i++ {
			for j := i + 1; j < len(lab); j++ {
				a, b := lab[i], lab[j]
				if site(a.Name) == site(b.Name) || strings.HasPrefix(site(a.Name), site(b.Name)) || strings.HasPrefix(site(b.Name), site(a.Name)) {
					continue
				}
				if strings.Contains(a.Name, "/remove") || strings.Contains(b.Name, "/remove") || strings.Contains(a.Name, "/rename") || strings.Contains(b.Name, "/rename") || strings.HasPrefix(a.Name, "typedef") || strings.HasPrefix(b.Name, "typedef") {
					continue // the second edit's site may be gone
				}
				want := "compatible"
				if a.Label == "breaking" || b.Label == "breaking" {
					want = "breaking"
				}
				// probe on a scratch copy: a pair whose second edit no longer finds its site is skipped
				ok := func() (ok bool) {
					defer func() {
						if recover() != nil {
							ok = false
						}
					}()
					q := cloneProg(base)
					a.Apply(q)
					b.Apply(q)
					return true
				}()
				if !ok {
					continue
				}
				try(a.Name+" + "+b.Name, want, func(p *idl.Program) { a.Apply(p); b.Apply(p) })
			}
		}
	}
	if *shard == 0 {
		res.Extra["edits_by_label"] = labels
		res.Extra["dontcare_outcomes_shard0"] = len(dontcare)
	}
}
