package main

import (
	"encoding/json"
	"fmt"
	"os"
	"os/exec"
	"path/filepath"
	"strings"

	"verif/idlx/idl"
)

// C08: for every scope name x operation name x prefix x delimiter the topic computed by the
// generated publisher equals the subscriber's, equals the reference, and is the same string in Go,
// Java, Dart and Python, for every variable value.

type c08Case struct {
	ID     string            `json:"id"`
	Scope  string            `json:"scope"`
	Op     string            `json:"op"`
	Prefix string            `json:"prefix"`
	Delim  string            `json:"delim"`
	Vars   []string          `json:"vars"`
	Dirs   map[string]string `json:"dirs"`
	texts  map[string]string
}

func runC08(res *result) {
	scopes := []string{"Events", "events", "myScope", "my_scope", "E"}
	ops := []string{"Created", "created", "op_1"}
	prefixes := []string{"", "foo", "foo.bar", "{user}", "foo.{user}", "foo.{ab}.bar.{cd}", "v1-x_y", "v1.{tenant}.{app}"}
	delims := []string{".", "/", "_", "::"}
	values := [][]string{{"bill", "ted"}, {"", ""}, {"a.b", "c/d"}, {"é", "日本"}}
	langs := []string{"go", "java", "dart", "py", "py:asyncio", "py:tornado"}
	st := idl.Style{Sep: ",", Quote: '"'}
	var cases []*c08Case
	n := 0
	for _, sc := range scopes {
		for _, op := range ops {
			for _, pf := range prefixes {
				for _, dl := range delims {
					n++
					if n%*nshards != *shard {
						continue
					}
					c := &c08Case{ID: fmt.Sprintf("scope=%s/op=%s/prefix=%s/delim=%s", sc, op, pf, dl), Scope: sc, Op: op, Prefix: pf, Delim: dl, Vars: idl.PrefixVars(pf), Dirs: map[string]string{}}
					prog := idl.MainFile(false, []*idl.Decl{{Struct: &idl.Struct{Kind: "struct", Name: "Payload", Fields: []*idl.Field{{ID: 1, Name: "v", Req: "default", Type: idl.T("i32")}}}}},
						&idl.Decl{Scope: &idl.Scope{Name: sc, Prefix: pf, Ops: []*idl.Op{{Name: op, Type: idl.T("Payload")}}}})
					src := filepath.Join(*work, fmt.Sprintf("c%d", n))
					mainPath, texts := writeProgram(src, prog, st)
					c.texts = texts
					res.Nontrivial++
					ok := true
					for _, lang := range langs {
						out := filepath.Join(src, "out_"+strings.ReplaceAll(lang, ":", "_"))
						res.Evaluations++
						r := runFrugal(src, "-gen", lang, "-delim", dl, "-out", out, mainPath)
						if r.exit != 0 {
							res.fail(finding{Key: "C08/compile-failed/" + lang + "/" + c.ID, Atom: c.ID, IDL: texts, Msg: fmt.Sprintf("frugal -gen %s -delim %q fails: %s", lang, dl, strings.TrimSpace(r.out))})
							ok = false
							continue
						}
						c.Dirs[lang] = out
					}
					if ok {
						cases = append(cases, c)
					}
				}
			}
		}
	}
	man := map[string]interface{}{"values": values, "cases": cases}
	mf := filepath.Join(*work, "c08_manifest.json")
	b, _ := json.Marshal(man)
	os.WriteFile(mf, b, 0o644)
	out, err := exec.Command("python3", filepath.Join(*verifDir, "lib", "c08_eval.py"), mf).Output()
	if err != nil {
		res.fail(finding{Key: "C08/harness/evaluator", Msg: fmt.Sprintf("%v %s", err, out)})
		return
	}
	var ev struct {
		Results map[string]map[string]map[string][][]string `json:"results"`
		Errors  []string                                     `json:"errors"`
	}
	if err := json.Unmarshal(out, &ev); err != nil {
		res.fail(finding{Key: "C08/harness/evaluator-output", Msg: err.Error()})
		return
	}
	for _, e := range ev.Errors {
		res.fail(finding{Key: "C08/harness/extract/" + strings.SplitN(e, ":", 2)[0], Msg: e})
	}
	title := func(s string) string { return strings.ToUpper(s[:1]) + s[1:] }
	for _, c := range cases {
		r := ev.Results[c.ID]
		for vi, vals := range values {
			pf := c.Prefix
			for i, v := range c.Vars {
				pf = strings.Replace(pf, "{"+v+"}", vals[i], 1)
			}
			if c.Prefix != "" {
				pf += c.Delim
			}
			refs := map[string]bool{pf + c.Scope + c.Delim + c.Op: true, pf + title(c.Scope) + c.Delim + c.Op: true}
			perLang := map[string]string{}
			for _, lang := range langs {
				ts := r[lang][fmt.Sprint(vi)]
				res.Evaluations++
				need := 2
				if lang == "py" {
					need = 1 // plain py generates no subscriber
				}
				if len(ts) < need {
					res.fail(finding{Key: "C08/harness/too-few-topics/" + lang, Atom: c.ID, IDL: c.texts, Msg: fmt.Sprintf("%s: found %d topic computations in %s output", c.ID, len(ts), lang)})
					continue
				}
				first := ts[0][1]
				for _, t := range ts {
					if t[1] != first {
						res.fail(finding{Key: fmt.Sprintf("C08/publisher-subscriber-disagree/%s/scope=%s/delim=%s", lang, c.Scope, c.Delim), Atom: c.ID, IDL: c.texts,
							Msg: fmt.Sprintf("%s (%s): publisher and subscriber compute different topics %q vs %q", c.ID, lang, first, t[1])})
					}
				}
				if !refs[first] {
					cls := "other"
					if c.Delim != "." {
						cls = "non-default-delimiter"
					}
					res.fail(finding{Key: fmt.Sprintf("C08/topic-not-as-specified/%s/%s", lang, cls), Atom: c.ID, IDL: c.texts,
						Msg: fmt.Sprintf("%s (%s, values %v): topic %q, specification gives %q", c.ID, lang, vals, first, pf+c.Scope+c.Delim+c.Op)})
				}
				perLang[lang] = first
			}
			base, baseLang := "", ""
			for _, lang := range langs {
				t, ok := perLang[lang]
				if !ok {
					continue
				}
				if base == "" {
					base, baseLang = t, lang
				} else if t != base {
					cls := "capitalised-scope-name"
					if strings.EqualFold(t, base) == false {
						cls = "other"
					}
					lc := "lower-case-scope"
					if c.Scope == title(c.Scope) {
						lc = "capitalised-scope"
					}
					res.fail(finding{Key: fmt.Sprintf("C08/languages-disagree/%s-vs-%s/%s/%s", baseLang, lang, cls, lc), Atom: c.ID, IDL: c.texts,
						Msg: fmt.Sprintf("%s (values %v): %s uses topic %q but %s uses %q", c.ID, vals, baseLang, base, lang, t)})
				}
			}
		}
		if len(res.Samples) < 3 && c.Prefix != "" {
			res.Samples = append(res.Samples, map[string]interface{}{"case": c.ID, "topics": r["go"]["0"]})
		}
	}
	if *shard == 0 {
		runC08Go(res)
	}
}

// runC08Go runs the generated Go publisher and subscriber (default delimiter) against recording
// scope transports: the topic handed to FPublisherTransport.Publish must equal the one handed to
// FSubscriberTransport.Subscribe and the specified topic, for prefix variables given distinct values
// in the order the IDL declares them.
func runC08Go(res *result) {
	prefixes := []string{"", "foo", "{user}", "foo.{user}", "foo.{ab}.bar.{cd}", "v1.{tenant}.{app}", "{zz}.{mm}.{aa}", "m.{region}.{cluster}.{host}.raw"}
	var atoms []idl.Atom
	for _, pf := range prefixes {
		for _, sc := range []string{"Events", "my_scope"} {
			atoms = append(atoms, idl.Atom{Name: fmt.Sprintf("go-runtime/scope=%s/prefix=%s", sc, pf), Class: "scope",
				Prog: idl.MainFile(false, []*idl.Decl{{Struct: &idl.Struct{Kind: "struct", Name: "Payload", Fields: []*idl.Field{{ID: 1, Name: "v", Req: "default", Type: idl.T("i32")}}}}},
					&idl.Decl{Scope: &idl.Scope{Name: sc, Prefix: pf, Ops: []*idl.Op{{Name: "Created", Type: idl.T("Payload")}, {Name: "Gone", Type: idl.T("Payload")}}}})})
		}
	}
	saveShard, saveN := *shard, *nshards
	*shard, *nshards = 0, 1
	units := prepareGenModule(res, atoms, "")
	*shard, *nshards = saveShard, saveN
	title := func(s string) string { return strings.ToUpper(s[:1]) + s[1:] }
	for _, u := range units {
		r := &idl.Resolver{P: u.atom.Prog}
		main := u.atom.Prog.Files[0]
		var sc *idl.Scope
		for _, d := range main.Decls {
			if d.Scope != nil {
				sc = d.Scope
			}
		}
		plan := drvPlan{Structs: r.AllStructRTs()}
		vars := idl.PrefixVars(sc.Prefix)
		var args []string
		want := sc.Prefix
		for _, v := range vars {
			val := "val-" + v
			args = append(args, val)
			want = strings.Replace(want, "{"+v+"}", val, 1)
		}
		if want != "" {
			want += "."
		}
		payloadRT := r.Resolve(main, idl.T("Payload"))
		for _, op := range sc.Ops {
			plan.Ops = append(plan.Ops, drvOp{Op: "call", Call: &callSpec{Kind: "pubsub", Scope: sc.Name, Op: op.Name, PrefixArgs: args, PayloadRT: payloadRT,
				Payload: &idl.V{K: "struct", F: map[string]*idl.V{"1": iv(7)}}, Proto: "binary", Cid: "c"}})
		}
		pj, _ := json.Marshal(plan)
		out, err := runDriver(u, pj)
		if err != nil {
			res.fail(finding{Key: "C08/go-runtime/driver-crashed", Atom: u.atom.Name, IDL: u.texts, Msg: err.Error()})
			continue
		}
		var results []drvResult
		if err := json.Unmarshal(out, &results); err != nil || len(results) != len(plan.Ops) {
			res.fail(finding{Key: "C08/harness/go-runtime-output", Msg: fmt.Sprint(err)})
			continue
		}
		for i, op := range sc.Ops {
			res.Evaluations++
			var cr callResult
			json.Unmarshal(results[i].Call, &cr)
			desc := fmt.Sprintf("%s op %s with %v", u.atom.Name, op.Name, args)
			if results[i].Panic != "" || cr.Err != "" {
				res.fail(finding{Key: "C08/go-runtime/call-failed", Atom: u.atom.Name, IDL: u.texts, Msg: desc + ": " + results[i].Panic + cr.Err})
				continue
			}
			var pub, sub string
			for _, t := range cr.Topics {
				if strings.HasPrefix(t, "publish:") {
					pub = strings.TrimPrefix(t, "publish:")
				}
				if strings.HasPrefix(t, "subscribe:") {
					sub = strings.TrimPrefix(t, "subscribe:")
				}
			}
			refs := map[string]bool{want + sc.Name + "." + op.Name: true, want + title(sc.Name) + "." + op.Name: true}
			switch {
			case pub != sub:
				res.fail(finding{Key: "C08/publisher-subscriber-disagree/go-runtime", Atom: u.atom.Name, IDL: u.texts, Msg: fmt.Sprintf("%s: the generated Go publisher published on %q, the subscriber subscribed to %q", desc, pub, sub)})
			case !refs[pub]:
				res.fail(finding{Key: "C08/topic-not-as-specified/go-runtime", Atom: u.atom.Name, IDL: u.texts, Msg: fmt.Sprintf("%s: topic %q, specification gives %q", desc, pub, want+sc.Name+"."+op.Name)})
			case cr.HandlerCalls != 1:
				res.fail(finding{Key: "C08/go-runtime/not-delivered", Atom: u.atom.Name, IDL: u.texts, Msg: fmt.Sprintf("%s: %d deliveries", desc, cr.HandlerCalls)})
			}
		}
	}
	res.Extra["go_runtime_scopes"] = len(units)
}
