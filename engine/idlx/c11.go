package main

import (
	"bytes"
	"context"
	"encoding/json"
	"fmt"
	"os"
	"os/exec"
	"path/filepath"
	"regexp"
	"sort"
	"strings"
	"time"

	"github.com/Workiva/frugal/compiler/parser"

	"verif/idlx/idl"
)

// C11 (a): every valid atom x every target x option sets -> exit 0 and well-formed output.
// C11 (b): bad input -> prompt non-zero exit with a message, never a runtime panic / overflow / hang.

type target struct {
	lang string
	opts []string // boolean options
	alt  map[string][]string
}

var c11Targets = []target{
	{lang: "go", opts: []string{"async", "slim", "suppress_deprecated_logging", "omit_server_service_generation", "use_vendor"}},
	{lang: "java", opts: []string{"async", "boxed_primitives", "default_unsupported", "suppress_deprecated_logging", "use_vendor"}, alt: map[string][]string{"generated_annotations": {"", "undated", "suppress"}}},
	{lang: "dart", opts: []string{"use_enums", "use_null_for_unset", "use_vendor", "nullsafe"}},
	{lang: "py", alt: map[string][]string{"flavour": {"", "asyncio", "tornado"}, "package_prefix": {"", "pfx."}}},
	{lang: "json", opts: []string{"indent"}},
	{lang: "html", opts: []string{"standalone"}},
}

// optionSets: every subset of the boolean options (x alternatives) when full, otherwise none, each
// single option, and all together.
func optionSets(t target, full bool) []string {
	var sets [][]string
	n := len(t.opts)
	if full {
		for m := 0; m < 1<<uint(n); m++ {
			var s []string
			for i := 0; i < n; i++ {
				if m&(1<<uint(i)) != 0 {
					s = append(s, t.opts[i])
				}
			}
			sets = append(sets, s)
		}
	} else {
		sets = append(sets, nil)
		for _, o := range t.opts {
			sets = append(sets, []string{o})
		}
		if n > 1 {
			sets = append(sets, append([]string{}, t.opts...))
		}
	}
	alts := [][]string{nil}
	keys := make([]string, 0, len(t.alt))
	for k := range t.alt {
		keys = append(keys, k)
	}
	sort.Strings(keys)
	for _, k := range keys {
		var next [][]string
		for _, base := range alts {
			for _, v := range t.alt[k] {
				x := append([]string{}, base...)
				if v != "" {
					if k == "flavour" {
						x = append(x, v)
					} else {
						x = append(x, k+"="+v)
					}
				}
				next = append(next, x)
			}
		}
		alts = next
	}
	var out []string
	for _, s := range sets {
		for _, a := range alts {
			all := append(append([]string{}, s...), a...)
			out = append(out, strings.Join(all, ","))
		}
	}
	return out
}

type runOut struct {
	exit    int
	out     string
	timeout bool
	dur     time.Duration
}

func runFrugal(dir string, args ...string) runOut {
	ctx, cancel := context.WithTimeout(context.Background(), 60*time.Second)
	defer cancel()
	cmd := exec.CommandContext(ctx, *frugalBin, args...)
	cmd.Dir = dir
	var buf bytes.Buffer
	cmd.Stdout = &buf
	cmd.Stderr = &buf
	t0 := time.Now()
	err := cmd.Run()
	r := runOut{out: buf.String(), dur: time.Since(t0)}
	if ctx.Err() != nil {
		r.timeout = true
		r.exit = -1
		return r
	}
	if err != nil {
		if ee, ok := err.(*exec.ExitError); ok {
			r.exit = ee.ExitCode()
		} else {
			r.exit = -2
			r.out += err.Error()
		}
	}
	return r
}

var crashRe = regexp.MustCompile(`runtime error|goroutine \d+ \[|fatal error|stack overflow|panic:`)

// checkTotality classifies one compiler run on input that must be rejected or may be accepted.
func badRunVerdict(r runOut, mustReject bool) string {
	switch {
	case r.timeout:
		return "hang"
	case crashRe.MatchString(r.out) || r.exit == 2 || r.exit < 0 || r.exit > 2:
		return "crash"
	case r.exit == 0 && mustReject:
		return "accepted"
	case r.exit != 0 && strings.TrimSpace(r.out) == "":
		return "silent-failure"
	}
	return ""
}

func balanced(s string, line, blockOpen, blockClose string) string {
	// lexical bracket / quote balance (used where no parser for the target exists)
	var stack []byte
	inStr := byte(0)
	for i := 0; i < len(s); i++ {
		c := s[i]
		if inStr != 0 {
			if c == '\\' {
				i++
			} else if c == inStr {
				inStr = 0
			} else if c == '\n' && inStr != '`' {
				return fmt.Sprintf("unterminated string at offset %d", i)
			}
			continue
		}
		if line != "" && strings.HasPrefix(s[i:], line) {
			for i < len(s) && s[i] != '\n' {
				i++
			}
			continue
		}
		if blockOpen != "" && strings.HasPrefix(s[i:], blockOpen) {
			j := strings.Index(s[i+len(blockOpen):], blockClose)
			if j < 0 {
				return "unterminated block comment"
			}
			i += len(blockOpen) + j + len(blockClose) - 1
			continue
		}
		switch c {
		case '"', '\'':
			inStr = c
		case '(', '[', '{':
			stack = append(stack, c)
		case ')', ']', '}':
			if len(stack) == 0 {
				return fmt.Sprintf("unbalanced %c at offset %d", c, i)
			}
			o := stack[len(stack)-1]
			if (c == ')' && o != '(') || (c == ']' && o != '[') || (c == '}' && o != '{') {
				return fmt.Sprintf("mismatched %c at offset %d", c, i)
			}
			stack = stack[:len(stack)-1]
		}
	}
	if len(stack) != 0 {
		return "unclosed bracket"
	}
	return ""
}

func htmlBalanced(s string) string {
	re := regexp.MustCompile(`<(/?)([a-zA-Z0-9]+)[^>]*?(/?)>`)
	void := map[string]bool{"br": true, "hr": true, "img": true, "meta": true, "link": true, "input": true}
	var stack []string
	for _, m := range re.FindAllStringSubmatch(s, -1) {
		tag := strings.ToLower(m[2])
		if void[tag] || m[3] == "/" {
			continue
		}
		if m[1] == "" {
			stack = append(stack, tag)
		} else {
			if len(stack) == 0 || stack[len(stack)-1] != tag {
				return "mismatched </" + tag + ">"
			}
			stack = stack[:len(stack)-1]
		}
	}
	if len(stack) != 0 {
		return "unclosed <" + stack[len(stack)-1] + ">"
	}
	return ""
}

type genRun struct {
	atom   string
	target string
	opts   string
	dir    string // output dir
	tag    string // unique tag used in paths
	texts  map[string]string
}

func listFiles(root, ext string) []string {
	var out []string
	filepath.Walk(root, func(p string, info os.FileInfo, err error) error {
		if err == nil && !info.IsDir() && strings.HasSuffix(p, ext) {
			out = append(out, p)
		}
		return nil
	})
	return out
}

func runC11(res *result) {
	thorough := *tier == "thorough"
	atoms := idl.AllAtoms(false)
	{
		var gen []idl.Atom
		for _, a := range atoms {
			if a.Class != "parse-only" {
				gen = append(gen, a)
			}
		}
		atoms = gen
	}
	if !thorough {
		// quick: every atom class, thinned deterministically to keep the check short: all decl atoms,
		// every field / typedef atom of a bare leaf type (thinning those by position made the selection
		// depend on how many leaves there are: a new leaf silently replaced other atoms), every third
		// container field atom, every fourth identifier atom
		var keep []idl.Atom
		for i, a := range atoms {
			switch a.Class {
			case "field", "typedef":
				if i%3 == 0 || !strings.Contains(a.Name, "<") {
					keep = append(keep, a)
				}
			case "ident":
				if i%4 == 0 {
					keep = append(keep, a)
				}
			default:
				keep = append(keep, a)
			}
		}
		atoms = keep
	}
	res.Extra["valid_atoms"] = len(atoms)
	st := idl.Style{Sep: ",", Quote: '"'}
	goMod := filepath.Join(*work, "gomod")
	os.MkdirAll(goMod, 0o755)
	var runs []genRun
	skippedParse := 0
	defer func() { res.Extra["atoms_skipped_parser_rejects"] = skippedParse }()
	richIdx := map[int]bool{}
	for ai, a := range atoms {
		if strings.HasPrefix(a.Name, "service/ret3") || strings.HasPrefix(a.Name, "scope/prefix=foo.{user}") || a.Name == "service/extends-include" || a.Name == "field/optional/map<string,Point>/nodefault" || a.Name == "union/bases" || a.Name == "enum/explicit" {
			richIdx[ai] = true
		}
	}
	for ai, a := range atoms {
		if ai%*nshards != *shard {
			continue
		}
		src := filepath.Join(*work, fmt.Sprintf("src%d", ai))
		mainPath, texts := writeProgram(src, a.Prog, st)
		if !parses(mainPath) {
			skippedParse++
			continue // rejected by the parser: reported under C10, not here
		}
		res.Nontrivial++
		for _, t := range c11Targets {
			full := thorough || richIdx[ai]
			for oi, opts := range optionSets(t, full) {
				tag := fmt.Sprintf("a%d_%s_%d", ai, t.lang, oi)
				outDir := filepath.Join(*work, "out", tag)
				gen := t.lang
				o := opts
				if t.lang == "go" {
					outDir = filepath.Join(goMod, tag)
					pp := "package_prefix=gen/" + tag + "/"
					if o == "" {
						o = pp
					} else {
						o += "," + pp
					}
				}
				if o != "" {
					gen += ":" + o
				}
				res.Evaluations++
				r := runFrugal(src, "-r", "-gen", gen, "-out", outDir, mainPath)
				if r.exit != 0 || r.timeout {
					msg := strings.ReplaceAll(r.out, *work, "")
					if len(msg) > 400 {
						msg = msg[:400]
					}
					kind := "compile-failed"
					if v := badRunVerdict(r, false); v == "crash" || v == "hang" {
						kind = v
					}
					os.RemoveAll(outDir) // partial output of a failed run must not reach the validators
					res.fail(finding{Key: fmt.Sprintf("C11/%s/%s/%s", kind, t.lang, a.Name), Atom: a.Name, Style: gen, IDL: texts,
						Msg: fmt.Sprintf("frugal -gen %s on valid IDL (%s) exits %d: %s", t.lang+":"+opts, a.Name, r.exit, strings.TrimSpace(msg))})
					continue
				}
				runs = append(runs, genRun{atom: a.Name, target: t.lang, opts: opts, dir: outDir, tag: tag, texts: texts})
			}
		}
	}
	byTag := map[string]genRun{}
	for _, r := range runs {
		byTag[r.tag] = r
	}
	failFor := func(tag, kind, detail string) {
		r, ok := byTag[tag]
		if !ok {
			res.fail(finding{Key: "C11/harness/unattributed-" + kind, Msg: detail})
			return
		}
		if len(detail) > 500 {
			detail = detail[:500]
		}
		res.fail(finding{Key: fmt.Sprintf("C11/%s/%s/%s", kind, r.target, r.atom), Atom: r.atom, Style: r.target + ":" + r.opts, IDL: r.texts,
			Msg: fmt.Sprintf("output of -gen %s:%s for valid IDL (%s) is not well-formed: %s", r.target, r.opts, r.atom, detail)})
	}
	tagOf := func(path string) string {
		m := regexp.MustCompile(`a\d+_[a-z]+_\d+`).FindString(path)
		return m
	}
	// --- Go: one module, one build
	goRuns := 0
	for _, r := range runs {
		if r.target == "go" {
			goRuns++
		}
	}
	if goRuns > 0 {
		gomodTxt := "module gen\n\ngo 1.20\n\nrequire (\n\tgithub.com/Workiva/frugal/lib/go v0.0.0\n\tgithub.com/apache/thrift v0.19.0\n\tgithub.com/sirupsen/logrus v1.9.3\n)\n\nreplace github.com/Workiva/frugal/lib/go => " + *repoDir + "/lib/go\n"
		os.WriteFile(filepath.Join(goMod, "go.mod"), []byte(gomodTxt), 0o644)
		if b, err := os.ReadFile(filepath.Join(*repoDir, "lib/go/go.sum")); err == nil {
			os.WriteFile(filepath.Join(goMod, "go.sum"), b, 0o644)
		}
		cmd := exec.Command("go", "build", "-trimpath", "-gcflags=-e", "./...")
		cmd.Dir = goMod
		cmd.Env = append(os.Environ(), "GOFLAGS=-mod=mod", "GOPROXY=off", "GOSUMDB=off", "GOTOOLCHAIN=local")
		out, err := cmd.CombinedOutput()
		res.Extra["go_packages_built"] = goRuns
		if err != nil {
			seen := map[string]bool{}
			linkOnly := 0
			for _, line := range strings.Split(string(out), "\n") {
				if strings.Contains(line, "function main is undeclared in the main package") {
					// an IDL file called main.frugal without a go namespace becomes package main; a
					// library package of that name cannot be linked as a command, which says nothing
					// about the emitted source (it type-checked)
					linkOnly++
					continue
				}
				tag := tagOf(line)
				if tag == "" || seen[tag] || strings.HasPrefix(line, "#") {
					continue
				}
				seen[tag] = true
				failFor(tag, "go-does-not-compile", strings.TrimSpace(line[strings.Index(line, tag):]))
			}
			if len(seen) == 0 && linkOnly == 0 {
				res.fail(finding{Key: "C11/harness/go-build", Msg: string(out)})
			}
		}
	}
	// --- Java: parse only
	var javaFiles []string
	for _, r := range runs {
		if r.target == "java" {
			javaFiles = append(javaFiles, listFiles(r.dir, ".java")...)
		}
	}
	if len(javaFiles) > 0 {
		argf := filepath.Join(*work, "javafiles.txt")
		os.WriteFile(argf, []byte(strings.Join(javaFiles, "\n")), 0o644)
		cmd := exec.Command("javac", "-proc:none", "-XDshould-stop.ifError=PARSE", "-XDshould-stop.ifNoError=PARSE", "-Xmaxerrs", "100000", "-d", filepath.Join(*work, "javaout"), "@"+argf)
		out, _ := cmd.CombinedOutput()
		res.Extra["java_files_parsed"] = len(javaFiles)
		seen := map[string]bool{}
		for _, line := range strings.Split(string(out), "\n") {
			if !strings.Contains(line, ".java:") || !strings.Contains(line, "error") {
				continue
			}
			tag := tagOf(line)
			if tag == "" || seen[tag] {
				continue
			}
			seen[tag] = true
			failFor(tag, "java-does-not-parse", strings.TrimSpace(line[strings.Index(line, tag):]))
		}
	}
	// --- Python: ast.parse in one process per interpreter (py:tornado targets Python 2.7)
	pyScript := "import ast,sys\nfor p in open(sys.argv[1]).read().split('\\n'):\n    if not p: continue\n    try:\n        ast.parse(open(p).read(), p)\n    except SyntaxError as e:\n        print('PYERR %s %s %s' % (p, e.msg, e.lineno))\n"
	for _, py2 := range []bool{false, true} {
		var pyFiles []string
		for _, r := range runs {
			if r.target == "py" && strings.Contains(r.opts, "tornado") == py2 {
				pyFiles = append(pyFiles, listFiles(r.dir, ".py")...)
			}
		}
		if len(pyFiles) == 0 {
			continue
		}
		argf := filepath.Join(*work, fmt.Sprintf("pyfiles%v.txt", py2))
		os.WriteFile(argf, []byte(strings.Join(pyFiles, "\n")), 0o644)
		cmd := exec.Command("python3", "-c", pyScript, argf)
		if py2 {
			cmd = exec.Command("python2", "-c", pyScript, argf)
			cmd.Env = append(os.Environ(), "PYENV_VERSION=2.7.18")
		}
		out, err := cmd.CombinedOutput()
		if py2 {
			res.Extra["python2_files_parsed"] = len(pyFiles)
		} else {
			res.Extra["python3_files_parsed"] = len(pyFiles)
		}
		if err != nil {
			res.fail(finding{Key: "C11/harness/python", Msg: string(out)})
		}
		seen := map[string]bool{}
		for _, line := range strings.Split(string(out), "\n") {
			if !strings.HasPrefix(line, "PYERR") {
				continue
			}
			tag := tagOf(line)
			if tag == "" || seen[tag] {
				continue
			}
			seen[tag] = true
			failFor(tag, "python-does-not-parse", strings.TrimSpace(line[strings.Index(line, tag):]))
		}
	}
	// --- JSON, HTML, Dart
	nj, nh, nd := 0, 0, 0
	for _, r := range runs {
		switch r.target {
		case "json":
			for _, f := range listFiles(r.dir, ".json") {
				nj++
				b, _ := os.ReadFile(f)
				var v map[string]map[string]interface{}
				if err := json.Unmarshal(b, &v); err != nil {
					failFor(r.tag, "json-invalid", err.Error())
				} else {
					// documentation/json.md: map of file basename -> {s, c, t}
					if _, ok := v["main"]; !ok {
						failFor(r.tag, "json-shape", "no entry for the compiled file")
					}
					for name, d := range v {
						for k := range d {
							if k != "s" && k != "c" && k != "t" {
								failFor(r.tag, "json-shape", "unexpected key "+k+" in "+name)
							}
						}
					}
				}
			}
		case "html":
			for _, f := range listFiles(r.dir, ".html") {
				nh++
				b, _ := os.ReadFile(f)
				if d := htmlBalanced(string(b)); d != "" {
					failFor(r.tag, "html-unbalanced", filepath.Base(f)+": "+d)
				}
			}
		case "dart":
			for _, f := range listFiles(r.dir, ".dart") {
				nd++
				b, _ := os.ReadFile(f)
				if d := balanced(string(b), "//", "/*", "*/"); d != "" {
					failFor(r.tag, "dart-unbalanced", filepath.Base(f)+": "+d)
				}
			}
		}
	}
	res.Extra["json_files"] = nj
	res.Extra["html_files"] = nh
	res.Extra["dart_files_lexically_checked"] = nd
	if len(res.Samples) < 2 && len(runs) > 0 {
		res.Samples = append(res.Samples, map[string]interface{}{"atom": runs[0].atom, "target": runs[0].target, "options": runs[0].opts})
	}
	runC11Bad(res)
}


func parses(path string) (ok bool) {
	defer func() {
		if recover() != nil {
			ok = false
		}
	}()
	_, err := parser.ParseFrugal(path)
	return err == nil
}

// ---- (b) bad input -----------------------------------------------------------------------------------

type badCase struct {
	name       string
	files      map[string]string // main.frugal + others
	mustReject bool
}

func semanticCatalogue() []badCase {
	m := func(s string) map[string]string { return map[string]string{"main.frugal": s} }
	return []badCase{
		{"cyclic-typedef-2", m("typedef A B\ntypedef B A\nstruct S { 1: A a }\n"), true},
		{"cyclic-typedef-3", m("typedef A B\ntypedef B C\ntypedef C A\nstruct S { 1: A a }\n"), true},
		{"cyclic-typedef-self", m("typedef A A\nstruct S { 1: A a }\n"), true},
		{"cyclic-typedef-in-container", m("typedef list<A> A\nstruct S { 1: A a }\n"), true},
		{"cyclic-typedef-through-include", map[string]string{"main.frugal": "include \"other.frugal\"\ntypedef other.B A\nstruct S { 1: A a }\n", "other.frugal": "typedef C B\ntypedef B C\n"}, true},
		{"undefined-extends", m("service S extends Nope {\n void ping()\n}\n"), true},
		{"undefined-extends-include", m("service S extends nope.Base {\n void ping()\n}\n"), true},
		{"undefined-field-type", m("struct S { 1: Missing m }\n"), true},
		{"undefined-return-type", m("service S {\n Missing get()\n}\n"), true},
		{"undefined-arg-type", m("service S {\n void put(1: Missing m)\n}\n"), true},
		{"undefined-exception-type", m("service S {\n void put() throws (1: Missing m)\n}\n"), true},
		{"undefined-operation-type", m("scope Sc {\n Op: Missing\n}\n"), true},
		{"undefined-typedef-target", m("typedef Missing T\nstruct S { 1: T t }\n"), true},
		{"undefined-container-element", m("struct S { 1: list<Missing> m }\n"), true},
		{"undefined-include-member", map[string]string{"main.frugal": "include \"other.frugal\"\nstruct S { 1: other.Missing m }\n", "other.frugal": "struct T { 1: i32 a }\n"}, true},
		{"duplicate-struct-names", m("struct S { 1: i32 a }\nstruct S { 1: i32 b }\n"), true},
		{"duplicate-field-ids", m("struct S { 1: i32 a, 1: i32 b }\n"), true},
		{"duplicate-field-names", m("struct S { 1: i32 a, 2: i32 a }\n"), true},
		{"duplicate-method-names", m("service S {\n void ping()\n void ping()\n}\n"), true},
		{"duplicate-enum-value-names", m("enum E { A, A }\n"), true},
		{"default-of-wrong-type-string-for-i32", m("struct S { 1: i32 x = \"str\" }\n"), true},
		{"default-of-wrong-type-int-for-string", m("struct S { 1: string x = 5 }\n"), true},
		{"default-of-wrong-type-list-for-i32", m("struct S { 1: i32 x = [1] }\n"), true},
		{"const-of-wrong-type", m("const i32 K = \"str\"\n"), true},
		{"oneway-with-result", m("service S {\n oneway i32 f()\n}\n"), true},
		{"oneway-with-throws", m("exception E { 1: string m }\nservice S {\n oneway void f() throws (1: E e)\n}\n"), true},
		{"bad-include-name", m("include \"other.txt\"\nstruct S { 1: i32 a }\n"), true},
		{"missing-include-file", m("include \"nothere.frugal\"\nstruct S { 1: i32 a }\n"), true},
		{"empty-prefix-variable", m("struct P { 1: i32 a }\nscope Sc prefix foo.{}.bar {\n Op: P\n}\n"), true},
		{"scope-of-base-type", m("scope Sc {\n Op: i32\n}\n"), false},
		{"struct-field-of-service-type", m("service X {\n void p()\n}\nstruct S { 1: X x }\n"), true},
		{"throws-non-exception", m("struct N { 1: i32 a }\nservice S {\n void f() throws (1: N n)\n}\n"), false},
		{"set-of-binary", m("struct S { 1: set<binary> s }\n"), false},
		{"map-with-binary-key", m("struct S { 1: map<binary,i32> s }\n"), false},
		{"set-of-list", m("struct S { 1: set<list<i32>> s }\n"), false},
		{"circular-include", map[string]string{"main.frugal": "include \"other.frugal\"\nstruct S { 1: i32 a }\n", "other.frugal": "include \"main.frugal\"\nstruct T { 1: i32 a }\n"}, true},
		{"const-ref-unknown-include", m("const i32 K = nope.VAL\n"), true},
		{"const-ref-misspelled-include", map[string]string{"main.frugal": "include \"other.frugal\"\nconst i32 K = othr.LIMIT\n", "other.frugal": "const i32 LIMIT = 3\n"}, true},
		{"const-ref-missing-member-of-include", map[string]string{"main.frugal": "include \"other.frugal\"\nconst i32 K = other.MISSING\n", "other.frugal": "const i32 LIMIT = 3\n"}, false},
		{"const-ref-unknown-identifier", m("const i32 K = NOPE\n"), false},
		{"const-ref-unknown-enum-member", m("enum E { A }\nconst E K = E.B\n"), false},
		{"const-ref-three-part-unknown", m("const i32 K = a.b.c\n"), false},
		{"field-default-ref-unknown-include", m("struct S { 1: i32 x = nope.VAL }\n"), false},
		{"const-list-element-ref-unknown-include", m("const list<i32> K = [nope.VAL]\n"), false},
		{"const-map-value-ref-unknown-include", m("const map<string,i32> K = {\"a\": nope.VAL}\n"), false},
		{"empty-file", m(""), false},
		{"only-comment", m("// nothing\n"), false},
		{"very-deep-nesting", m("struct S { 1: " + strings.Repeat("list<", 200) + "i32" + strings.Repeat(">", 200) + " x }\n"), false},
		{"huge-field-id", m("struct S { 99999999999999999999: i32 a }\n"), true},
		{"negative-field-id", m("struct S { -1: i32 a }\n"), false},
	}
}

var tokRe = regexp.MustCompile(`"[^"]*"|[A-Za-z_][A-Za-z0-9_.]*|[0-9]+|\S`)

func runC11Bad(res *result) {
	dir := filepath.Join(*work, "bad")
	os.MkdirAll(dir, 0o755)
	n := 0
	classes := map[string]int{}
	tryBad := func(key string, files map[string]string, mustReject bool) {
		n++
		if n%*nshards != *shard {
			return
		}
		d := filepath.Join(dir, fmt.Sprintf("c%d", n))
		os.MkdirAll(d, 0o755)
		for name, txt := range files {
			os.WriteFile(filepath.Join(d, name), []byte(txt), 0o644)
		}
		res.Evaluations++
		r := runFrugal(d, "-gen", "go", "-out", filepath.Join(d, "out"), "main.frugal")
		v := badRunVerdict(r, mustReject)
		classes[fmt.Sprintf("exit%d", r.exit)]++
		os.RemoveAll(d)
		if v == "" {
			return
		}
		msg := strings.TrimSpace(r.out)
		if len(msg) > 300 {
			msg = msg[:300]
		}
		res.fail(finding{Key: "C11/bad-input/" + v + "/" + key, IDL: files,
			Msg: fmt.Sprintf("compiler on invalid input %q: %s (exit %d, %.1fs): %s", key, v, r.exit, r.dur.Seconds(), strings.ReplaceAll(msg, "\n", " | "))})
	}
	for _, c := range semanticCatalogue() {
		res.Nontrivial++
		tryBad("semantic/"+c.name, c.files, c.mustReject)
	}
	// token mutants of two base texts
	bases := map[string]string{
		"struct-service": "namespace go m\nenum E { A = 1, B }\nstruct P { 1: required i32 x = 5, 2: optional list<string> l }\nexception X { 1: string m }\nservice S extends T {\n  P get(1: i32 id) throws (1: X x)\n  oneway void fire()\n}\nservice T {\n void ping()\n}\n",
		"scope":          "struct P { 1: i32 x }\nscope Ev prefix foo.{user} {\n  Made: P\n}\ntypedef map<string, P> M\nconst M K = {\"a\": {\"x\": 1}}\n",
	}
	// constants and defaults that refer to other constants / enum values, locally and through an include
	bases["const-refs"] = "include \"other.frugal\"\nenum E { A, B }\nconst i32 K = other.LIMIT\nconst i32 K2 = K\nstruct S { 1: i32 x = K, 2: E e = E.A, 3: other.Kind k = other.Kind.Y }\n"
	extras := map[string]map[string]string{"const-refs": {"other.frugal": "const i32 LIMIT = 3\nenum Kind { X, Y }\n"}}
	withExtras := func(bn, main string) map[string]string {
		fs := map[string]string{"main.frugal": main}
		for k, v := range extras[bn] {
			fs[k] = v
		}
		return fs
	}
	names := make([]string, 0, len(bases))
	for k := range bases {
		names = append(names, k)
	}
	sort.Strings(names)
	for _, bn := range names {
		txt := bases[bn]
		locs := tokRe.FindAllStringIndex(txt, -1)
		for i, loc := range locs {
			tok := txt[loc[0]:loc[1]]
			bracket := strings.ContainsAny(tok, "{}()<>") && len(tok) == 1
			del := txt[:loc[0]] + txt[loc[1]:]
			dup := txt[:loc[1]] + " " + tok + txt[loc[1]:]
			tryBad(fmt.Sprintf("mutant/%s/delete-token-%d-%s", bn, i, tok), withExtras(bn, del), bracket)
			tryBad(fmt.Sprintf("mutant/%s/duplicate-token-%d-%s", bn, i, tok), withExtras(bn, dup), bracket)
			if i+1 < len(locs) {
				nx := locs[i+1]
				sw := txt[:loc[0]] + txt[nx[0]:nx[1]] + txt[loc[1]:nx[0]] + tok + txt[nx[1]:]
				tryBad(fmt.Sprintf("mutant/%s/swap-token-%d", bn, i), withExtras(bn, sw), false)
			}
			if *tier == "thorough" {
				for j := i + 1; j < len(locs); j++ {
					l2 := locs[j]
					d2 := txt[:loc[0]] + txt[loc[1]:l2[0]] + txt[l2[1]:]
					tryBad(fmt.Sprintf("mutant/%s/delete-tokens-%d-%d", bn, i, j), withExtras(bn, d2), false)
				}
			}
		}
	}
	// every token string up to length 3 (4 thorough) over a 12-token alphabet
	alpha := []string{"struct", "S", "{", "}", "1:", "i32", "x", "service", "(", ")", "typedef", ","}
	L := 3
	if *tier == "thorough" {
		L = 4
	}
	var rec func(p []string)
	rec = func(p []string) {
		if len(p) > 0 {
			tryBad("tokens/"+strings.Join(p, "_"), map[string]string{"main.frugal": strings.Join(p, " ") + "\n"}, false)
		}
		if len(p) == L {
			return
		}
		for _, a := range alpha {
			rec(append(append([]string{}, p...), a))
		}
	}
	rec(nil)
	res.Extra["bad_input_exit_codes"] = classes
}
