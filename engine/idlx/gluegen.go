package main

import (
	"bytes"
	"fmt"
	"go/ast"
	"go/format"
	"go/parser"
	"go/printer"
	"go/token"
	"os"
	"path/filepath"
	"sort"
	"strings"
)

// writeGlue scans one generated Go package and adds zz_verif_glue.go to it: a registry of the
// exported struct types and constructor functions (for the reflection driver) and, for every
// F<Service> interface, a recording stub handler whose method set is copied from the emitted
// interface.
func writeGlue(pkgDir string) error {
	fset := token.NewFileSet()
	pkgs, err := parser.ParseDir(fset, pkgDir, func(fi os.FileInfo) bool { return !strings.HasPrefix(fi.Name(), "zz_verif") }, 0)
	if err != nil {
		return err
	}
	for name, pkg := range pkgs {
		var types, funcs []string
		type iface struct {
			name    string
			embeds  []string // as written, e.g. "FParent" or "base.FBaseSvc"
			methods []*ast.Field
		}
		var ifaces []iface
		imports := map[string]string{} // local name -> path, for embedded interfaces of other packages
		for _, f := range pkg.Files {
			for _, imp := range f.Imports {
				p := strings.Trim(imp.Path.Value, `"`)
				n := filepath.Base(p)
				if imp.Name != nil {
					n = imp.Name.Name
				}
				imports[n] = p
			}
			for _, d := range f.Decls {
				switch x := d.(type) {
				case *ast.GenDecl:
					for _, s := range x.Specs {
						ts, ok := s.(*ast.TypeSpec)
						if !ok || !ts.Name.IsExported() {
							continue
						}
						switch t := ts.Type.(type) {
						case *ast.StructType:
							types = append(types, ts.Name.Name)
						case *ast.InterfaceType:
							if !strings.HasPrefix(ts.Name.Name, "F") {
								continue
							}
							it := iface{name: ts.Name.Name}
							for _, m := range t.Methods.List {
								if len(m.Names) == 0 {
									var b bytes.Buffer
									printer.Fprint(&b, fset, m.Type)
									it.embeds = append(it.embeds, b.String())
								} else {
									it.methods = append(it.methods, m)
								}
							}
							ifaces = append(ifaces, it)
						}
					}
				case *ast.FuncDecl:
					if x.Recv == nil && x.Name.IsExported() && strings.HasPrefix(x.Name.Name, "New") {
						funcs = append(funcs, x.Name.Name)
					}
				}
			}
		}
		sort.Strings(types)
		sort.Strings(funcs)
		var b bytes.Buffer
		fmt.Fprintf(&b, "package %s\n\nimport (\n\t\"reflect\"\n\tfrugal \"github.com/Workiva/frugal/lib/go\"\n", name)
		used := map[string]bool{}
		for _, it := range ifaces {
			for _, e := range it.embeds {
				if i := strings.Index(e, "."); i > 0 {
					used[e[:i]] = true
				}
			}
		}
		for n := range used {
			fmt.Fprintf(&b, "\t%s %q\n", n, imports[n])
		}
		fmt.Fprintf(&b, ")\n\nvar _ frugal.FContext\n\n")
		fmt.Fprintf(&b, "var VerifTypes = map[string]reflect.Type{\n")
		for _, t := range types {
			fmt.Fprintf(&b, "\t%q: reflect.TypeOf((*%s)(nil)).Elem(),\n", t, t)
		}
		fmt.Fprintf(&b, "}\n\nvar VerifFuncs = map[string]interface{}{\n")
		for _, f := range funcs {
			fmt.Fprintf(&b, "\t%q: %s,\n", f, f)
		}
		fmt.Fprintf(&b, "}\n\n// VerifStubFunc receives the method name, the FContext and the arguments and returns the results.\ntype VerifStubFunc = func(method string, ctx interface{}, args []interface{}) []interface{}\n\n")
		for _, it := range ifaces {
			fmt.Fprintf(&b, "type VerifStub%s struct {\n", it.name)
			for _, e := range it.embeds {
				if i := strings.Index(e, "."); i > 0 {
					fmt.Fprintf(&b, "\t*%s.VerifStub%s\n", e[:i], e[i+1:])
				} else {
					fmt.Fprintf(&b, "\t*VerifStub%s\n", e)
				}
			}
			fmt.Fprintf(&b, "\tH VerifStubFunc\n}\n\n")
			fmt.Fprintf(&b, "func NewVerifStub%s(h VerifStubFunc) *VerifStub%s {\n\ts := &VerifStub%s{H: h}\n", it.name, it.name, it.name)
			for _, e := range it.embeds {
				if i := strings.Index(e, "."); i > 0 {
					fmt.Fprintf(&b, "\ts.VerifStub%s = %s.NewVerifStub%s(h)\n", e[i+1:], e[:i], e[i+1:])
				} else {
					fmt.Fprintf(&b, "\ts.VerifStub%s = NewVerifStub%s(h)\n", e, e)
				}
			}
			fmt.Fprintf(&b, "\treturn s\n}\n\n")
			for _, m := range it.methods {
				ft := m.Type.(*ast.FuncType)
				var params, argNames []string
				n := 0
				for _, p := range ft.Params.List {
					var tb bytes.Buffer
					printer.Fprint(&tb, fset, p.Type)
					cnt := len(p.Names)
					if cnt == 0 {
						cnt = 1
					}
					for k := 0; k < cnt; k++ {
						pn := fmt.Sprintf("a%d", n)
						n++
						params = append(params, pn+" "+tb.String())
						argNames = append(argNames, pn)
					}
				}
				var results []string
				var rtypes []string
				if ft.Results != nil {
					for _, r := range ft.Results.List {
						var tb bytes.Buffer
						printer.Fprint(&tb, fset, r.Type)
						cnt := len(r.Names)
						if cnt == 0 {
							cnt = 1
						}
						for k := 0; k < cnt; k++ {
							results = append(results, fmt.Sprintf("r%d %s", len(results), tb.String()))
							rtypes = append(rtypes, tb.String())
						}
					}
				}
				fmt.Fprintf(&b, "func (s *VerifStub%s) %s(%s) (%s) {\n", it.name, m.Names[0].Name, strings.Join(params, ", "), strings.Join(results, ", "))
				fmt.Fprintf(&b, "\tout := s.H(%q, %s, []interface{}{%s})\n", m.Names[0].Name, argNames[0], strings.Join(argNames[1:], ", "))
				for i, rt := range rtypes {
					fmt.Fprintf(&b, "\tif len(out) > %d && out[%d] != nil {\n\t\tr%d = out[%d].(%s)\n\t}\n", i, i, i, i, rt)
				}
				fmt.Fprintf(&b, "\treturn\n}\n\n")
			}
		}
		fmt.Fprintf(&b, "func VerifNewStub(iface string, h VerifStubFunc) interface{} {\n\tswitch iface {\n")
		for _, it := range ifaces {
			fmt.Fprintf(&b, "\tcase %q:\n\t\treturn NewVerifStub%s(h)\n", it.name, it.name)
		}
		fmt.Fprintf(&b, "\t}\n\treturn nil\n}\n")
		src, ferr := format.Source(b.Bytes())
		if ferr != nil {
			src = b.Bytes()
		}
		if err := os.WriteFile(filepath.Join(pkgDir, "zz_verif_glue.go"), src, 0o644); err != nil {
			return err
		}
	}
	return nil
}
