// Command idlx drives the E2 checks: bounded-exhaustive IDL programs through the real compiler.
package main

import (
	"encoding/json"
	"flag"
	"fmt"
	"os"
	"path/filepath"

	"verif/idlx/idl"
)

type finding struct {
	Key   string `json:"key"`
	Msg   string `json:"msg"`
	Atom  string `json:"atom,omitempty"`
	Style string `json:"style,omitempty"`
	IDL   map[string]string `json:"idl,omitempty"`
}

type result struct {
	Mode        string            `json:"mode"`
	Evaluations int64             `json:"evaluations"`
	Nontrivial  int64             `json:"nontrivial"`
	Findings    []finding         `json:"findings"`
	Samples     []interface{}     `json:"samples"`
	Extra       map[string]interface{} `json:"extra,omitempty"`
	seen        map[string]bool
}

func (r *result) fail(f finding) {
	if r.seen == nil {
		r.seen = map[string]bool{}
	}
	if r.seen[f.Key] {
		return
	}
	r.seen[f.Key] = true
	r.Findings = append(r.Findings, f)
}

// writeProgram renders every file of p into dir under style st and returns the main file's path.
func writeProgram(dir string, p *idl.Program, st idl.Style) (string, map[string]string) {
	os.MkdirAll(dir, 0o755)
	texts := map[string]string{}
	for _, f := range p.Files {
		txt := idl.Render(f, st)
		texts[f.Name] = txt
		os.MkdirAll(filepath.Dir(filepath.Join(dir, f.Name)), 0o755) // a file name may carry a directory
		if err := os.WriteFile(filepath.Join(dir, f.Name), []byte(txt), 0o644); err != nil {
			panic(err)
		}
	}
	return filepath.Join(dir, p.Files[0].Name), texts
}

var (
	mode    = flag.String("mode", "", "c10 | c11 | c18 | c19 | c08 | ...")
	tier    = flag.String("tier", "quick", "quick | thorough")
	shard   = flag.Int("shard", 0, "shard index")
	nshards = flag.Int("nshards", 1, "shard count")
	work    = flag.String("work", "", "scratch directory")
	frugalBin = flag.String("frugal", "", "path of the frugal binary built from the tree under test")
	replay  = flag.String("replay", "", "replay file")
	repoDir = flag.String("repo", "/repo", "tree under test (for lib/go when compiling generated code)")
	verifDir = flag.String("verif", "/verif", "verification root (helper scripts)")
	frugalMR = flag.String("frugal-mr", "", "frugal binary with instrumented map iteration (C19)")
)

func main() {
	flag.Parse()
	res := &result{Mode: *mode, Extra: map[string]interface{}{}}
	switch *mode {
	case "c10":
		runC10(res)
	case "c18":
		runC18(res)
	case "c11":
		runC11(res)
	case "c08":
		runC08(res)
	case "c02":
		runC02(res)
	case "c03":
		runC03(res)
	case "c09":
		runC09(res)
	case "c16":
		runC16(res)
	case "c14":
		runC14(res)
	case "c19":
		runC19(res)
	default:
		fmt.Fprintln(os.Stderr, "unknown mode", *mode)
		os.Exit(2)
	}
	json.NewEncoder(os.Stdout).Encode(res)
}
