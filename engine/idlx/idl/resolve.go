package idl

import (
	"encoding/base64"
	"fmt"
	"sort"
	"strconv"
	"strings"
)

// RT / V / W mirror the driver's JSON types (engine/idlx/drvsrc/drv.go.txt).
type RT struct {
	K      string `json:"k"`
	E      *RT    `json:"e,omitempty"`
	Key    *RT    `json:"key,omitempty"`
	Struct string `json:"struct,omitempty"`
}

type SRT struct {
	Name   string         `json:"name"`
	Kind   string         `json:"kind"`
	Fields map[string]*RT `json:"fields"`
}

type V struct {
	K string        `json:"k"`
	B bool          `json:"b,omitempty"`
	I string        `json:"i,omitempty"`
	D string        `json:"d,omitempty"`
	S string        `json:"s"`
	E []*V          `json:"e,omitempty"`
	F map[string]*V `json:"f,omitempty"`
}

type W struct {
	T   int           `json:"t"`
	B   bool          `json:"b,omitempty"`
	I   string        `json:"i,omitempty"`
	D   string        `json:"d,omitempty"`
	S   string        `json:"s"`
	Bin bool          `json:"bin,omitempty"`
	ET  int           `json:"et,omitempty"`
	KT  int           `json:"kt,omitempty"`
	E   []*W          `json:"e,omitempty"`
	F   map[string]*W `json:"f,omitempty"`
	Ord []string      `json:"ord,omitempty"`
}

// Thrift wire type ids.
const (
	TBool = 2; TByte = 3; TDouble = 4; TI16 = 6; TI32 = 8; TI64 = 10; TString = 11; TStruct = 12; TMap = 13; TSet = 14; TList = 15
)

// Resolver answers type questions about a program from the model alone.
type Resolver struct {
	P *Program
}

func (r *Resolver) file(name string) *File {
	for _, f := range r.P.Files {
		if incName(f) == name {
			return f
		}
	}
	return nil
}

// Resolve follows typedefs and includes starting in file f.
func (r *Resolver) Resolve(f *File, t *Type) *RT {
	switch t.Name {
	case "bool", "byte", "i16", "i32", "i64", "double", "string", "binary":
		return &RT{K: t.Name}
	case "i8":
		return &RT{K: "byte"}
	case "list":
		return &RT{K: "list", E: r.Resolve(f, t.Val)}
	case "set":
		return &RT{K: "set", E: r.Resolve(f, t.Val)}
	case "map":
		return &RT{K: "map", Key: r.Resolve(f, t.Key), E: r.Resolve(f, t.Val)}
	}
	name := t.Name
	if i := strings.Index(name, "."); i > 0 {
		f = r.file(name[:i])
		name = name[i+1:]
		if f == nil {
			panic("resolve: unknown include in " + t.Name)
		}
	}
	for _, d := range f.Decls {
		switch {
		case d.Typedef != nil && d.Typedef.Name == name:
			return r.Resolve(f, d.Typedef.Type)
		case d.Enum != nil && d.Enum.Name == name:
			return &RT{K: "enum", Struct: r.qual(f, name)}
		case d.Struct != nil && d.Struct.Name == name:
			return &RT{K: d.Struct.Kind, Struct: r.qual(f, name)}
		}
	}
	panic("resolve: unknown type " + t.Name)
}

// qual is the program-wide name of a declaration of file f: bare for the main file, prefixed with the
// include name otherwise (two files may declare the same bare name).
func (r *Resolver) qual(f *File, name string) string {
	if len(r.P.Files) > 0 && f == r.P.Files[0] {
		return name
	}
	return incName(f) + "." + name
}

// incName is the name under which a file is known to the files that include it: its base name
// without the extension, whatever directories the include path goes through.
func incName(f *File) string {
	n := f.Name
	if i := strings.LastIndex(n, "/"); i >= 0 {
		n = n[i+1:]
	}
	return strings.TrimSuffix(n, ".frugal")
}

// filesFor returns the files a program-wide name may live in and its bare name.
func (r *Resolver) filesFor(name string) ([]*File, string) {
	if i := strings.Index(name, "."); i > 0 {
		if f := r.file(name[:i]); f != nil {
			return []*File{f}, name[i+1:]
		}
		return nil, name
	}
	if len(r.P.Files) > 0 {
		return r.P.Files[:1], name
	}
	return nil, name
}

// EnumValues returns the numeric values of an enum (Thrift numbering) by its program-wide name.
func (r *Resolver) EnumValues(name string) map[string]int64 {
	files, name := r.filesFor(name)
	for _, f := range files {
		for _, d := range f.Decls {
			if d.Enum != nil && d.Enum.Name == name {
				out := map[string]int64{}
				prev := int64(-1)
				for _, v := range d.Enum.Values {
					val := prev + 1
					if v.Explicit != nil {
						val = int64(*v.Explicit)
					}
					prev = val
					out[v.Name] = val
				}
				return out
			}
		}
	}
	return nil
}

// FindStruct looks a struct-like declaration up by its program-wide name, returning its file too.
func (r *Resolver) FindStruct(name string) (*Struct, *File) {
	files, name := r.filesFor(name)
	for _, f := range files {
		for _, d := range f.Decls {
			if d.Struct != nil && d.Struct.Name == name {
				return d.Struct, f
			}
		}
	}
	return nil, nil
}

// StructRT describes a struct-like for the driver.
func (r *Resolver) StructRT(s *Struct, f *File) *SRT {
	out := &SRT{Name: r.qual(f, s.Name), Kind: s.Kind, Fields: map[string]*RT{}}
	for _, fl := range s.Fields {
		out.Fields[strconv.Itoa(fl.ID)] = r.Resolve(f, fl.Type)
	}
	return out
}

// AllStructRTs describes every struct-like reachable in the program.
func (r *Resolver) AllStructRTs() map[string]*SRT {
	out := map[string]*SRT{}
	for _, f := range r.P.Files {
		for _, d := range f.Decls {
			if d.Struct != nil {
				out[r.qual(f, d.Struct.Name)] = r.StructRT(d.Struct, f)
			}
		}
	}
	return out
}

func wireType(rt *RT) int {
	switch rt.K {
	case "bool":
		return TBool
	case "byte":
		return TByte
	case "i16":
		return TI16
	case "i32", "enum":
		return TI32
	case "i64":
		return TI64
	case "double":
		return TDouble
	case "string", "binary":
		return TString
	case "list":
		return TList
	case "set":
		return TSet
	case "map":
		return TMap
	}
	return TStruct
}

func canonV(v *V) string {
	if v == nil {
		return "nil"
	}
	switch v.K {
	case "bool":
		return fmt.Sprint(v.B)
	case "i":
		return "i" + v.I
	case "d":
		return "d" + v.D
	case "s", "bin":
		return v.K + strconv.Quote(v.S)
	case "struct":
		ks := make([]string, 0, len(v.F))
		for k := range v.F {
			ks = append(ks, k)
		}
		sort.Strings(ks)
		s := "{"
		for _, k := range ks {
			s += k + ":" + canonV(v.F[k]) + ","
		}
		return s + "}"
	}
	s := v.K + "["
	for _, e := range v.E {
		s += canonV(e) + ","
	}
	return s + "]"
}

// CanonV is the canonical text of a value (sets and maps must already be sorted with SortV).
func CanonV(v *V) string { return canonV(v) }

// SortV puts set elements and map entries into canonical order, recursively.
func SortV(v *V) {
	if v == nil {
		return
	}
	for _, e := range v.E {
		SortV(e)
	}
	for _, f := range v.F {
		SortV(f)
	}
	switch v.K {
	case "set":
		sort.Slice(v.E, func(i, j int) bool { return canonV(v.E[i]) < canonV(v.E[j]) })
	case "map":
		type kv struct{ k, v *V }
		var kvs []kv
		for i := 0; i+1 < len(v.E); i += 2 {
			kvs = append(kvs, kv{v.E[i], v.E[i+1]})
		}
		sort.Slice(kvs, func(i, j int) bool { return canonV(kvs[i].k) < canonV(kvs[j].k) })
		v.E = v.E[:0]
		for _, x := range kvs {
			v.E = append(v.E, x.k, x.v)
		}
	}
}

// ExpectTree computes the wire tree the IDL declares for value v of type rt.
func (r *Resolver) ExpectTree(rt *RT, v *V) *W {
	w := &W{T: wireType(rt)}
	switch rt.K {
	case "bool":
		w.B = v.B
	case "byte", "i16", "i32", "i64", "enum":
		w.I = v.I
	case "double":
		w.D = v.D
	case "string":
		w.S = base64.StdEncoding.EncodeToString([]byte(v.S))
	case "binary":
		w.S = v.S
		w.Bin = true
	case "list", "set":
		w.ET = wireType(rt.E)
		w.E = []*W{}
		for _, e := range v.E {
			w.E = append(w.E, r.ExpectTree(rt.E, e))
		}
	case "map":
		w.KT, w.ET = wireType(rt.Key), wireType(rt.E)
		w.E = []*W{}
		for i := 0; i+1 < len(v.E); i += 2 {
			w.E = append(w.E, r.ExpectTree(rt.Key, v.E[i]), r.ExpectTree(rt.E, v.E[i+1]))
		}
	default:
		s, f := r.FindStruct(rt.Struct)
		return r.ExpectStructTree(s, f, v)
	}
	return w
}

// ExpectStructTree: required and default fields always present, optional fields iff set.
func (r *Resolver) ExpectStructTree(s *Struct, f *File, v *V) *W {
	w := &W{T: TStruct, F: map[string]*W{}}
	for _, fl := range s.Fields {
		id := strconv.Itoa(fl.ID)
		fv, ok := v.F[id]
		if !ok {
			continue
		}
		w.F[id] = r.ExpectTree(r.Resolve(f, fl.Type), fv)
	}
	return w
}

// CanonW is a canonical text for wire trees in which set and map element order does not matter.
func CanonW(w *W) string {
	if w == nil {
		return "nil"
	}
	switch w.T {
	case TBool:
		return fmt.Sprintf("b%v", w.B)
	case TByte, TI16, TI32, TI64:
		return fmt.Sprintf("i%d:%s", w.T, w.I)
	case TDouble:
		return "d" + w.D
	case TString:
		return "s" + w.S
	case TStruct:
		ks := make([]string, 0, len(w.F))
		for k := range w.F {
			ks = append(ks, k)
		}
		sort.Slice(ks, func(i, j int) bool { a, _ := strconv.Atoi(ks[i]); b, _ := strconv.Atoi(ks[j]); return a < b })
		s := "{"
		for _, k := range ks {
			s += k + "=" + CanonW(w.F[k]) + ";"
		}
		return s + "}"
	case TList:
		s := fmt.Sprintf("list<%d>[", w.ET)
		for _, e := range w.E {
			s += CanonW(e) + ","
		}
		return s + "]"
	case TSet:
		var p []string
		for _, e := range w.E {
			p = append(p, CanonW(e))
		}
		sort.Strings(p)
		return fmt.Sprintf("set<%d>[%s]", w.ET, strings.Join(p, ","))
	case TMap:
		var p []string
		for i := 0; i+1 < len(w.E); i += 2 {
			p = append(p, CanonW(w.E[i])+"->"+CanonW(w.E[i+1]))
		}
		sort.Strings(p)
		if len(p) == 0 {
			return "map[]" // the compact protocol does not transmit key/value types of an empty map
		}
		return fmt.Sprintf("map<%d,%d>[%s]", w.KT, w.ET, strings.Join(p, ","))
	}
	return "?"
}

// constFor finds the constant an identifier names, seen from file f: "K" is a constant of f,
// "inc.K" one of the included file inc.frugal. The constant's own value is written relative to
// the file that declares it.
func (r *Resolver) constFor(f *File, name string) (*Const, *File) {
	in := f
	if i := strings.Index(name, "."); i >= 0 {
		in = r.file(name[:i])
		name = name[i+1:]
	}
	if in == nil {
		return nil, nil
	}
	for _, d := range in.Decls {
		if d.Const != nil && d.Const.Name == name {
			return d.Const, in
		}
	}
	return nil, nil
}

// LitToV converts an IDL literal into a value of type rt (identifiers are looked up from the main file).
func (r *Resolver) LitToV(rt *RT, l *Lit) *V { return r.LitToVIn(r.P.Files[0], rt, l) }

// LitToVIn converts an IDL literal written in file f into a value of type rt.
func (r *Resolver) LitToVIn(f *File, rt *RT, l *Lit) *V {
	if l.Kind == "ident" {
		if c, cf := r.constFor(f, l.Str); c != nil {
			return r.LitToVIn(cf, rt, c.Value)
		}
	}
	switch rt.K {
	case "bool":
		return &V{K: "bool", B: l.Bool}
	case "byte", "i16", "i32", "i64":
		return &V{K: "i", I: strconv.FormatInt(l.Int, 10)}
	case "double":
		if l.Kind == "int" {
			return &V{K: "d", D: strconv.FormatFloat(float64(l.Int), 'g', -1, 64)}
		}
		return &V{K: "d", D: strconv.FormatFloat(l.Dbl, 'g', -1, 64)}
	case "string":
		return &V{K: "s", S: l.Str}
	case "enum":
		if l.Kind == "int" {
			return &V{K: "i", I: strconv.FormatInt(l.Int, 10)}
		}
		name := l.Str[strings.LastIndex(l.Str, ".")+1:]
		return &V{K: "i", I: strconv.FormatInt(r.EnumValues(rt.Struct)[name], 10)}
	case "list", "set":
		out := &V{K: rt.K, E: []*V{}}
		for _, e := range l.Elems {
			out.E = append(out.E, r.LitToVIn(f, rt.E, e))
		}
		return out
	case "map":
		out := &V{K: "map", E: []*V{}}
		for i := range l.Elems {
			out.E = append(out.E, r.LitToVIn(f, rt.Key, l.Keys[i]), r.LitToVIn(f, rt.E, l.Elems[i]))
		}
		return out
	}
	panic("LitToV: " + rt.K)
}

// Values returns value classes for type rt: index 0 is the "typical" value; the list is ordered
// simplest first.
func (r *Resolver) Values(rt *RT, depth int) []*V {
	i := func(n int64) *V { return &V{K: "i", I: strconv.FormatInt(n, 10)} }
	switch rt.K {
	case "bool":
		return []*V{{K: "bool", B: true}, {K: "bool", B: false}}
	case "byte":
		return []*V{i(7), i(0), i(-128), i(127)}
	case "i16":
		return []*V{i(300), i(0), i(-32768), i(32767)}
	case "i32":
		return []*V{i(70000), i(0), i(-2147483648), i(2147483647)}
	case "i64":
		return []*V{i(5000000000), i(0), i(-9223372036854775808), i(9223372036854775807)}
	case "double":
		return []*V{{K: "d", D: "2.5"}, {K: "d", D: "0"}, {K: "d", D: "-1e+300"}, {K: "d", D: "5e-324"}}
	case "string":
		return []*V{{K: "s", S: "hello"}, {K: "s", S: ""}, {K: "s", S: "é日本\x00\"q\""}, {K: "s", S: strings.Repeat("x", 300)}}
	case "binary":
		return []*V{{K: "bin", S: base64.StdEncoding.EncodeToString([]byte{1, 2, 3})}, {K: "bin", S: ""}, {K: "bin", S: base64.StdEncoding.EncodeToString([]byte{0xff, 0x00, 0xfe})}}
	case "enum":
		vals := r.EnumValues(rt.Struct)
		var ns []int64
		for _, v := range vals {
			ns = append(ns, v)
		}
		sort.Slice(ns, func(a, b int) bool { return ns[a] < ns[b] })
		out := []*V{}
		for _, n := range ns {
			out = append(out, i(n))
		}
		return out
	case "list", "set":
		ev := r.Values(rt.E, depth+1)
		out := []*V{{K: rt.K, E: []*V{ev[0]}}, {K: rt.K, E: []*V{}}}
		if len(ev) >= 3 {
			out = append(out, &V{K: rt.K, E: []*V{ev[0], ev[1], ev[2]}})
		} else if len(ev) == 2 {
			out = append(out, &V{K: rt.K, E: []*V{ev[0], ev[1]}})
		}
		if rt.K == "list" && len(ev) >= 2 {
			out = append(out, &V{K: "list", E: []*V{ev[1], ev[1]}}) // duplicates are fine in a list
		}
		return out
	case "map":
		kv, vv := r.Values(rt.Key, depth+1), r.Values(rt.E, depth+1)
		out := []*V{{K: "map", E: []*V{kv[0], vv[0]}}, {K: "map", E: []*V{}}}
		if len(kv) >= 2 {
			e := []*V{}
			for j := 0; j < len(kv) && j < 3; j++ {
				e = append(e, kv[j], vv[j%len(vv)])
			}
			out = append(out, &V{K: "map", E: e})
		}
		return out
	default:
		s, f := r.FindStruct(rt.Struct)
		return r.StructValues(s, f, depth+1)
	}
}

// StructValues: value classes of a struct-like: all fields set (typical), optional fields unset with
// non-optional at their second class, alternating classes.
func (r *Resolver) StructValues(s *Struct, f *File, depth int) []*V {
	if depth > 4 {
		return []*V{{K: "struct", F: map[string]*V{}}}
	}
	if s.Kind == "union" {
		var out []*V
		for _, fl := range s.Fields {
			vs := r.Values(r.Resolve(f, fl.Type), depth)
			out = append(out, &V{K: "struct", F: map[string]*V{strconv.Itoa(fl.ID): vs[0]}})
		}
		if len(out) == 0 {
			out = append(out, &V{K: "struct", F: map[string]*V{}})
		}
		return out
	}
	var out []*V
	for variant := 0; variant < 3; variant++ {
		v := &V{K: "struct", F: map[string]*V{}}
		for _, fl := range s.Fields {
			vs := r.Values(r.Resolve(f, fl.Type), depth)
			if fl.Req == "optional" && variant == 1 {
				continue
			}
			v.F[strconv.Itoa(fl.ID)] = vs[variant%len(vs)]
		}
		out = append(out, v)
	}
	return out
}
