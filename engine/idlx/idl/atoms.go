package idl

import "fmt"

// Atom is the smallest program containing one feature instance.
type Atom struct {
	Name string   // stable identity, e.g. "field/required/list<i32>/nodefault"
	Prog *Program // Files[0] is the main file
	// Feature classes this atom exercises (for bookkeeping).
	Class string
}

func decl(d Decl) *Decl { return &d }

// support returns the declarations a type shape needs, and an include file if it needs one.
// Leaves: base types, local enum/struct/union/exception, typedef chains, included symbols.
type Leaf struct {
	Name    string // type expression as used in a field
	Needs   []*Decl
	Include bool // needs base.frugal
	Base    string // underlying base kind for value generation: bool byte i16 i32 i64 double string binary enum struct union exception list set map
	Hashable bool // usable as set element / map key in generated Go
}

func localEnum() *Decl {
	one := 1
	return &Decl{Enum: &Enum{Name: "Color", Values: []*EnumValue{{Name: "RED", Explicit: &one}, {Name: "GREEN"}, {Name: "BLUE"}}}}
}
func localStruct() *Decl {
	return &Decl{Struct: &Struct{Kind: "struct", Name: "Point", Fields: []*Field{{ID: 1, Name: "x", Req: "default", Type: T("i32")}, {ID: 2, Name: "label", Req: "optional", Type: T("string")}}}}
}
func localUnion() *Decl {
	return &Decl{Struct: &Struct{Kind: "union", Name: "Choice", Fields: []*Field{{ID: 1, Name: "num", Req: "default", Type: T("i64")}, {ID: 2, Name: "text", Req: "default", Type: T("string")}}}}
}
func localException() *Decl {
	return &Decl{Struct: &Struct{Kind: "exception", Name: "Oops", Fields: []*Field{{ID: 1, Name: "why", Req: "default", Type: T("string")}}}}
}

// BaseFile is the included file used by include-related atoms.
func BaseFile() *File {
	zero := 0
	return &File{Name: "base.frugal", Decls: []*Decl{
		{NS: &NS{Scope: "go", Value: "base"}},
		{NS: &NS{Scope: "java", Value: "base"}},
		{Typedef: &Typedef{Name: "id", Type: T("i64")}},
		{Typedef: &Typedef{Name: "id2", Type: T("id")}},
		{Typedef: &Typedef{Name: "names", Type: List(T("string"))}},
		{Enum: &Enum{Name: "Kind", Values: []*EnumValue{{Name: "A", Explicit: &zero}, {Name: "B"}}}},
		{Struct: &Struct{Kind: "struct", Name: "Thing", Fields: []*Field{{ID: 1, Name: "n", Req: "default", Type: T("i32")}}}},
		{Struct: &Struct{Kind: "exception", Name: "BaseErr", Fields: []*Field{{ID: 1, Name: "msg", Req: "default", Type: T("string")}}}},
		// the include uses its own declarations as types, too
		{Struct: &Struct{Kind: "struct", Name: "Carrier", Fields: []*Field{
			{ID: 1, Name: "k", Req: "default", Type: T("Kind")}, {ID: 2, Name: "t", Req: "default", Type: T("Thing")},
			{ID: 3, Name: "ok", Req: "optional", Type: T("Kind")}, {ID: 4, Name: "ks", Req: "default", Type: List(T("Kind"))},
			{ID: 5, Name: "ts", Req: "default", Type: Map(T("string"), T("Thing"))}, {ID: 6, Name: "i", Req: "default", Type: T("id2")}}}},
		{Service: &Service{Name: "BaseSvc", Methods: []*Method{{Name: "basePing", Args: nil}, {Name: "baseEcho", Ret: T("i32"), Args: []*Field{{ID: 1, Name: "v", Req: "default", Type: T("i32")}}},
			{Name: "baseKind", Ret: T("Thing"), Args: []*Field{{ID: 1, Name: "k", Req: "default", Type: T("Kind")}}, Throws: []*Field{{ID: 1, Name: "e", Req: "default", Type: T("BaseErr")}}}}}},
	}}
}

// Leaves lists the leaf type shapes.
func Leaves() []Leaf {
	td := func(name string, t *Type) *Decl { return &Decl{Typedef: &Typedef{Name: name, Type: t}} }
	return []Leaf{
		{Name: "bool", Base: "bool", Hashable: true},
		{Name: "byte", Base: "byte", Hashable: true},
		{Name: "i16", Base: "i16", Hashable: true},
		{Name: "i32", Base: "i32", Hashable: true},
		{Name: "i64", Base: "i64", Hashable: true},
		{Name: "double", Base: "double", Hashable: true},
		{Name: "string", Base: "string", Hashable: true},
		{Name: "binary", Base: "binary"},
		{Name: "Color", Needs: []*Decl{localEnum()}, Base: "enum", Hashable: true},
		// an enum with implicit numbering: its first member is the zero value of the generated type
		{Name: "Shade", Needs: []*Decl{{Enum: &Enum{Name: "Shade", Values: []*EnumValue{{Name: "DARK"}, {Name: "LIGHT"}}}}}, Base: "enum", Hashable: true},
		{Name: "Point", Needs: []*Decl{localStruct()}, Base: "struct"},
		{Name: "Choice", Needs: []*Decl{localUnion()}, Base: "union"},
		{Name: "Oops", Needs: []*Decl{localException()}, Base: "exception"},
		{Name: "Num", Needs: []*Decl{td("Num", T("i32"))}, Base: "i32", Hashable: true},
		{Name: "Num2", Needs: []*Decl{td("Num", T("i32")), td("Num2", T("Num"))}, Base: "i32", Hashable: true},
		// typedefs of the base types whose Go representation is not a plain integer
		{Name: "Blob", Needs: []*Decl{td("Blob", T("binary"))}, Base: "binary"},
		{Name: "Text", Needs: []*Decl{td("Text", T("string"))}, Base: "string", Hashable: true},
		{Name: "Ratio", Needs: []*Decl{td("Ratio", T("double"))}, Base: "double", Hashable: true},
		{Name: "Strs", Needs: []*Decl{td("Strs", List(T("string")))}, Base: "list"},
		{Name: "Pt", Needs: []*Decl{localStruct(), td("Pt", T("Point"))}, Base: "struct"},
		{Name: "Hue", Needs: []*Decl{localEnum(), td("Hue", T("Color"))}, Base: "enum", Hashable: true},
		{Name: "base.Kind", Include: true, Base: "enum", Hashable: true},
		{Name: "base.Thing", Include: true, Base: "struct"},
		{Name: "base.id", Include: true, Base: "i64", Hashable: true},
		{Name: "base.id2", Include: true, Base: "i64", Hashable: true},
		{Name: "base.names", Include: true, Base: "list"},
		{Name: "LocalId", Needs: []*Decl{td("LocalId", T("base.id"))}, Include: true, Base: "i64", Hashable: true},
	}
}

// Shape is a (possibly nested) type with what it needs.
type Shape struct {
	Type    *Type
	Needs   []*Decl
	Include bool
	Base    string
	Hashable bool
}

// Shapes enumerates all type shapes up to the given container depth.
func Shapes(depth int) []Shape {
	var out []Shape
	var level []Shape
	for _, l := range Leaves() {
		level = append(level, Shape{Type: T(l.Name), Needs: l.Needs, Include: l.Include, Base: l.Base, Hashable: l.Hashable})
	}
	out = append(out, level...)
	keys := []Shape{}
	for _, s := range level {
		if s.Hashable && (s.Type.Name == "string" || s.Type.Name == "i32" || s.Type.Name == "Color" || s.Type.Name == "Num2" || s.Type.Name == "base.id") {
			keys = append(keys, s)
		}
	}
	prev := level
	for d := 1; d <= depth; d++ {
		var next []Shape
		for _, s := range prev {
			next = append(next, Shape{Type: List(s.Type), Needs: s.Needs, Include: s.Include, Base: "list"})
			if s.Hashable {
				next = append(next, Shape{Type: Set(s.Type), Needs: s.Needs, Include: s.Include, Base: "set"})
			}
			for _, k := range keys {
				next = append(next, Shape{Type: Map(k.Type, s.Type), Needs: mergeDecls(k.Needs, s.Needs), Include: s.Include || k.Include, Base: "map"})
			}
		}
		out = append(out, next...)
		prev = next
	}
	return out
}

func mergeDecls(a, b []*Decl) []*Decl {
	out := append([]*Decl{}, a...)
	for _, d := range b {
		dup := false
		for _, x := range out {
			if declName(x) == declName(d) {
				dup = true
			}
		}
		if !dup {
			out = append(out, d)
		}
	}
	return out
}

func declName(d *Decl) string {
	switch {
	case d.Typedef != nil:
		return "td:" + d.Typedef.Name
	case d.Enum != nil:
		return "en:" + d.Enum.Name
	case d.Struct != nil:
		return "st:" + d.Struct.Name
	case d.Service != nil:
		return "sv:" + d.Service.Name
	case d.Scope != nil:
		return "sc:" + d.Scope.Name
	case d.Const != nil:
		return "co:" + d.Const.Name
	}
	return ""
}

// MainFile assembles a main file from supporting declarations plus the feature declaration.
func MainFile(include bool, needs []*Decl, feature ...*Decl) *Program {
	f := &File{Name: "main.frugal"}
	f.Decls = append(f.Decls, &Decl{NS: &NS{Scope: "go", Value: "mainpkg"}}, &Decl{NS: &NS{Scope: "java", Value: "mainpkg"}})
	if include {
		f.Decls = append(f.Decls, &Decl{Include: "base.frugal"})
	}
	f.Decls = append(f.Decls, needs...)
	f.Decls = append(f.Decls, feature...)
	p := &Program{Files: []*File{f}}
	if include {
		p.Files = append(p.Files, BaseFile())
	}
	return p
}

// DefaultFor returns a default literal for a base kind (nil if the kind takes none here).
func DefaultFor(s Shape) *Lit {
	switch s.Type.Name {
	case "bool":
		return Bool(true)
	case "byte", "i16", "i32", "i64", "Num", "Num2", "base.id", "base.id2", "LocalId":
		return Int(42)
	case "double":
		return Dbl(2.5)
	case "string":
		return Str("dflt")
	case "Color", "Hue":
		return Ident("Color.GREEN")
	case "base.Kind":
		return Ident("base.Kind.B")
	case "list":
		if s.Type.Val.Name == "i32" {
			return LList(Int(1), Int(2))
		}
		if s.Type.Val.Name == "string" {
			return LList(Str("a"), Str("b"))
		}
	case "map":
		if s.Type.Key.Name == "string" && s.Type.Val.Name == "i32" {
			return LMap([]*Lit{Str("k")}, []*Lit{Int(1)})
		}
	}
	return nil
}

// FieldAtoms: one struct with one field per (shape, requiredness, default?).
func FieldAtoms(depth int) []Atom {
	var out []Atom
	shapes := Shapes(depth)
	if depth == 1 {
		// containers inside containers, a fixed handful at depth 1: every kind of container as the
		// element of a list and as the value of a map (the full product is the thorough tier's)
		for _, in := range []*Type{List(T("i32")), Set(T("i32")), Set(T("string")), Map(T("string"), T("i32"))} {
			shapes = append(shapes, Shape{Type: List(in), Base: "list"}, Shape{Type: Map(T("string"), in), Base: "map"})
		}
	}
	for _, s := range shapes {
		for _, req := range []string{"required", "default", "optional"} {
			defs := []*Lit{nil}
			if d := DefaultFor(s); d != nil {
				defs = append(defs, d)
			}
			if s.Type.Name == "double" {
				// defaults a float32 cannot hold, of tiny / huge magnitude, and integral
				defs = append(defs, Dbl(3.141592653589793), Dbl(0.000001), Dbl(16777217), Dbl(5e21), Dbl(4))
			}
			if s.Type.Name == "list" && s.Type.Val.Name == "i32" {
				defs = append(defs, LList(Int(0), Int(0), Int(0)), LList(Int(1), Int(2), Int(1))) // repeated members are members
			}
			if s.Type.Name == "list" && s.Type.Val.Name == "string" {
				defs = append(defs, LList(Str("a"), Str("b"), Str("a")))
			}
			for di, d := range defs {
				f := &Field{ID: 1, Name: "f", Req: req, Type: s.Type, Default: d}
				st := &Decl{Struct: &Struct{Kind: "struct", Name: "Holder", Fields: []*Field{f, {ID: 2, Name: "tail", Req: "default", Type: T("i32")}}}}
				name := fmt.Sprintf("field/%s/%s/%s", req, s.Type.String(), map[bool]string{true: "default", false: "nodefault"}[d != nil])
				if di >= 2 {
					name += "-" + d.Canon()
				}
				out = append(out, Atom{Name: name, Class: "field", Prog: MainFile(s.Include, s.Needs, st)})
			}
		}
	}
	return out
}

func ip(i int) *int { return &i }

// DeclAtoms: enums, consts, typedefs, unions, exceptions, services, scopes, namespaces, annotations.
func DeclAtoms() []Atom {
	var out []Atom
	add := func(name, class string, include bool, needs []*Decl, feature ...*Decl) {
		out = append(out, Atom{Name: name, Class: class, Prog: MainFile(include, needs, feature...)})
	}
	// enum numbering patterns
	enums := map[string][]*EnumValue{
		"implicit":                 {{Name: "A"}, {Name: "B"}, {Name: "C"}},
		"explicit":                 {{Name: "A", Explicit: ip(1)}, {Name: "B", Explicit: ip(5)}, {Name: "C", Explicit: ip(9)}},
		"explicit-then-implicit":   {{Name: "A", Explicit: ip(3)}, {Name: "B"}, {Name: "C"}},
		"implicit-then-explicit":   {{Name: "A"}, {Name: "B", Explicit: ip(7)}, {Name: "C"}},
		"decreasing-then-implicit": {{Name: "A", Explicit: ip(5)}, {Name: "B", Explicit: ip(2)}, {Name: "C"}},
		"negative-explicit":        {{Name: "A", Explicit: ip(-2)}, {Name: "B"}, {Name: "C", Explicit: ip(4)}},
		"zero-explicit":            {{Name: "A", Explicit: ip(0)}, {Name: "B", Explicit: ip(0 + 1)}},
		"single":                   {{Name: "ONLY"}},
	}
	for _, k := range sortedKeys(enums) {
		add("enum/"+k, "enum", false, nil, &Decl{Enum: &Enum{Name: "E", Values: enums[k]}})
	}
	// constants of every literal kind
	consts := []struct {
		n string
		t *Type
		v *Lit
		needs []*Decl
	}{
		{"int", T("i32"), Int(7), nil}, {"negint", T("i64"), Int(-12), nil}, {"double", T("double"), Dbl(1.5), nil},
		{"negdouble", T("double"), Dbl(-0.25), nil}, {"string", T("string"), Str("hi there"), nil}, {"empty-string", T("string"), Str(""), nil},
		{"string-with-quote", T("string"), Str(`it's "q"`), nil}, {"bool-true", T("bool"), Bool(true), nil}, {"bool-false", T("bool"), Bool(false), nil},
		{"list", List(T("i32")), LList(Int(1), Int(2), Int(3)), nil}, {"empty-list", List(T("string")), LList(), nil},
		{"map", Map(T("string"), T("i32")), LMap([]*Lit{Str("a"), Str("b")}, []*Lit{Int(1), Int(2)}), nil},
		{"enum-ident", T("Color"), Ident("Color.RED"), []*Decl{localEnum()}},
		{"ident-true-prefix", T("i32"), Ident("trueNorth"), []*Decl{{Const: &Const{Name: "trueNorth", Type: T("i32"), Value: Int(1)}}}},
		{"nested-list", List(List(T("i32"))), LList(LList(Int(1)), LList()), nil},
		// quote characters of either kind at the edges of a string literal
		{"string-single-quoted-inside", T("string"), Str(`'single' inside`), nil}, {"string-ends-with-double-quote", T("string"), Str(`say "hi"`), nil},
		{"string-only-single-quote", T("string"), Str(`'`), nil}, {"string-only-double-quote", T("string"), Str(`"`), nil},
		{"string-fully-double-quoted", T("string"), Str(`"quoted"`), nil}, {"string-backslash", T("string"), Str(`a\b`), nil},
		// doubles: more digits than a float32 holds, integers above 2^24, tiny and huge magnitudes
		{"double-pi", T("double"), Dbl(3.141592653589793), nil}, {"double-0.1+0.2", T("double"), Dbl(0.30000000000000004), nil},
		{"double-2^24+1", T("double"), Dbl(16777217), nil}, {"double-1e-6", T("double"), Dbl(0.000001), nil}, {"double-1e-5", T("double"), Dbl(0.00001), nil},
		{"double-5e21", T("double"), Dbl(5e21), nil}, {"double-1e-50", T("double"), Dbl(1e-50), nil}, {"double-integral", T("double"), Dbl(3), nil},
		{"double-list", List(T("double")), LList(Dbl(0.000001), Dbl(3.141592653589793), Dbl(2)), nil},
	}
	for _, c := range consts {
		add("const/"+c.n, "const", false, c.needs, &Decl{Const: &Const{Name: "K", Type: c.t, Value: c.v}})
	}
	// a typedef of the main file with the name of a typedef of the include and another target, both used
	for _, o := range []struct {
		n     string
		first bool
	}{{"included-first", true}, {"local-first", false}} {
		loc := &Decl{Typedef: &Typedef{Name: "id", Type: T("i32")}}
		a, b := T("base.id"), T("id")
		if !o.first {
			a, b = b, a
		}
		add("struct/typedef-namesake/"+o.n, "struct", true, []*Decl{loc}, &Decl{Struct: &Struct{Kind: "struct", Name: "Holder", Fields: []*Field{
			{ID: 1, Name: "a", Req: "required", Type: a}, {ID: 2, Name: "b", Req: "default", Type: b},
			{ID: 3, Name: "la", Req: "default", Type: List(a)}, {ID: 4, Name: "mb", Req: "optional", Type: Map(b, T("string"))}}}})
	}
	// include paths: the included file is known by its base name whatever the path looks like
	for _, ip := range []struct{ n, main, file, text string }{
		{"dot-slash", "main.frugal", "base.frugal", "./base.frugal"},
		{"subdir", "main.frugal", "sub/base.frugal", "sub/base.frugal"},
		{"dotted-dir", "main.frugal", "api.v2/base.frugal", "api.v2/base.frugal"},
		{"parent-dir", "app/main.frugal", "shared/base.frugal", "../shared/base.frugal"},
		{"parent-dotted-dir", "app/main.frugal", "shared.d/base.frugal", "../shared.d/base.frugal"},
	} {
		f := &File{Name: ip.main, Decls: []*Decl{{NS: &NS{Scope: "go", Value: "mainpkg"}}, {NS: &NS{Scope: "java", Value: "mainpkg"}}, {Include: ip.text},
			{Const: &Const{Name: "FIRST", Type: T("base.Kind"), Value: Ident("base.Kind.B")}},
			{Struct: &Struct{Kind: "struct", Name: "Holder", Fields: []*Field{{ID: 1, Name: "t", Req: "default", Type: T("base.Thing")}, {ID: 2, Name: "k", Req: "default", Type: T("base.Kind"), Default: Ident("base.Kind.B")},
				{ID: 3, Name: "ids", Req: "optional", Type: List(T("base.id"))}}}},
			{Service: &Service{Name: "Child", Extends: "base.BaseSvc", Methods: []*Method{{Name: "own", Ret: T("base.Thing"), Args: []*Field{{ID: 1, Name: "k", Req: "default", Type: T("base.Kind")}}}}}},
		}}
		b := BaseFile()
		b.Name = ip.file
		out = append(out, Atom{Name: "include-path/" + ip.n, Class: "include-path", Prog: &Program{Files: []*File{f, b}}})
	}
	// defaults and constants given by the name of another constant: of the same file, of an
	// included file, and of an included file whose value names further constants of that file while
	// the including file has (or has not) constants of the same names with other values
	limits := func() *File {
		return &File{Name: "limits.frugal", Decls: []*Decl{
			{NS: &NS{Scope: "go", Value: "limits"}}, {NS: &NS{Scope: "java", Value: "limits"}},
			{Const: &Const{Name: "BATCH", Type: T("i32"), Value: Int(10)}},
			{Const: &Const{Name: "NAME", Type: T("string"), Value: Str("lim")}},
			{Const: &Const{Name: "SIZES", Type: List(T("i32")), Value: LList(Ident("BATCH"), Int(20))}},
			{Const: &Const{Name: "NAMES", Type: List(T("string")), Value: LList(Ident("NAME"), Str("x"))}},
			{Const: &Const{Name: "LABELS", Type: Map(T("string"), T("i32")), Value: LMap([]*Lit{Ident("NAME")}, []*Lit{Ident("BATCH")})}},
		}}
	}
	crefs := []struct {
		n    string
		t    *Type
		v    string
		same bool // the main file declares BATCH and NAME too, with other values
		inc  bool
	}{
		{"local/i32", T("i32"), "BATCH", true, false}, {"local/list", List(T("i32")), "MYSIZES", true, false},
		{"included/i32", T("i32"), "limits.BATCH", false, true}, {"included/i32/namesake", T("i32"), "limits.BATCH", true, true},
		{"included/string/namesake", T("string"), "limits.NAME", true, true},
		{"included/list", List(T("i32")), "limits.SIZES", false, true}, {"included/list/namesake", List(T("i32")), "limits.SIZES", true, true},
		{"included/list-string/namesake", List(T("string")), "limits.NAMES", true, true},
		{"included/map", Map(T("string"), T("i32")), "limits.LABELS", false, true}, {"included/map/namesake", Map(T("string"), T("i32")), "limits.LABELS", true, true},
	}
	for _, c := range crefs {
		for _, req := range []string{"default", "required", "optional"} {
			f := &File{Name: "main.frugal", Decls: []*Decl{{NS: &NS{Scope: "go", Value: "mainpkg"}}, {NS: &NS{Scope: "java", Value: "mainpkg"}}}}
			if c.inc {
				f.Decls = append(f.Decls, &Decl{Include: "limits.frugal"})
			}
			if c.same {
				f.Decls = append(f.Decls, &Decl{Const: &Const{Name: "BATCH", Type: T("i32"), Value: Int(500)}}, &Decl{Const: &Const{Name: "NAME", Type: T("string"), Value: Str("mine")}},
					&Decl{Const: &Const{Name: "MYSIZES", Type: List(T("i32")), Value: LList(Ident("BATCH"), Int(3))}})
			}
			f.Decls = append(f.Decls, &Decl{Struct: &Struct{Kind: "struct", Name: "Holder", Fields: []*Field{
				{ID: 1, Name: "f", Req: req, Type: c.t, Default: Ident(c.v)}, {ID: 2, Name: "tail", Req: "default", Type: T("i32")}}}})
			p := &Program{Files: []*File{f}}
			if c.inc {
				p.Files = append(p.Files, limits())
			}
			out = append(out, Atom{Name: "constref/" + c.n + "/" + req, Class: "constref", Prog: p})
		}
	}
	// typedefs
	for _, s := range Shapes(1) {
		add("typedef/"+s.Type.String(), "typedef", s.Include, s.Needs, &Decl{Typedef: &Typedef{Name: "Alias", Type: s.Type}})
	}
	// unions and exceptions with every base type
	for _, kind := range []string{"union", "exception"} {
		var fs []*Field
		for i, t := range []string{"bool", "i32", "string", "binary", "double"} {
			fs = append(fs, &Field{ID: i + 1, Name: fmt.Sprintf("m%d", i), Req: "default", Type: T(t)})
		}
		add(kind+"/bases", kind, false, nil, &Decl{Struct: &Struct{Kind: kind, Name: "U", Fields: fs}})
		add(kind+"/with-struct", kind, false, []*Decl{localStruct()}, &Decl{Struct: &Struct{Kind: kind, Name: "U", Fields: []*Field{{ID: 1, Name: "p", Req: "default", Type: T("Point")}, {ID: 5, Name: "l", Req: "default", Type: List(T("i32"))}}}})
		add(kind+"/empty", kind, false, nil, &Decl{Struct: &Struct{Kind: kind, Name: "U"}})
	}
	// field ids: gaps, large, order
	add("struct/ids", "struct", false, nil, &Decl{Struct: &Struct{Kind: "struct", Name: "Ids", Fields: []*Field{{ID: 7, Name: "a", Req: "default", Type: T("i32")}, {ID: 2, Name: "b", Req: "required", Type: T("string")}, {ID: 32000, Name: "c", Req: "optional", Type: T("bool")}}}})
	add("struct/empty", "struct", false, nil, &Decl{Struct: &Struct{Kind: "struct", Name: "Nothing"}})
	add("struct/annotations", "struct", false, nil, &Decl{Struct: &Struct{Kind: "struct", Name: "Ann", Annots: []Annot{{"deprecated", "use other"}}, Fields: []*Field{{ID: 1, Name: "a", Req: "default", Type: T("i32"), Annots: []Annot{{"note", "n1"}, {"other", ""}}}}}})
	// services
	arg := func(i int, t string) *Field { return &Field{ID: i, Name: fmt.Sprintf("a%d", i), Req: "default", Type: T(t)} }
	exc := func(i int, t string) *Field { return &Field{ID: i, Name: fmt.Sprintf("e%d", i), Req: "default", Type: T(t)} }
	// throws lists whose ids are not 1..n in order: a gap left by a retired exception, ids that do not
	// start at 1, ids written in descending order
	{
		bad := &Decl{Struct: &Struct{Kind: "exception", Name: "Bad", Fields: []*Field{{ID: 1, Name: "code", Req: "default", Type: T("i32")}}}}
		for _, v := range []struct {
			n  string
			th []*Field
		}{
			{"gap", []*Field{exc(1, "Oops"), {ID: 3, Name: "e3", Req: "default", Type: T("Bad")}}},
			{"high", []*Field{{ID: 5, Name: "e5", Req: "default", Type: T("Oops")}}},
			{"descending", []*Field{{ID: 2, Name: "e2", Req: "default", Type: T("Bad")}, exc(1, "Oops")}},
		} {
			for ri, r := range []*Type{nil, T("i32")} {
				add(fmt.Sprintf("service/throws-ids/%s/ret%d", v.n, ri), "service", false, []*Decl{localStruct(), localEnum(), localException(), bad},
					&Decl{Service: &Service{Name: "Svc", Methods: []*Method{{Name: "doIt", Ret: r, Args: []*Field{arg(1, "i32")}, Throws: v.th}, {Name: "other"}}}})
			}
		}
	}
	rets := []*Type{nil, T("i32"), T("string"), T("Point"), List(T("i32")), T("Color"), Map(T("string"), T("Point"))}
	for ri, r := range rets {
		for _, nargs := range []int{0, 1, 3} {
			for _, nthrows := range []int{0, 1, 2} {
				var args, th []*Field
				for i := 1; i <= nargs; i++ {
					args = append(args, arg(i, []string{"i32", "string", "Point"}[i-1]))
				}
				needs := []*Decl{localStruct(), localEnum()}
				if nthrows >= 1 {
					th = append(th, exc(1, "Oops"))
					needs = append(needs, localException())
				}
				if nthrows == 2 {
					th = append(th, exc(2, "Bad"))
					needs = append(needs, &Decl{Struct: &Struct{Kind: "exception", Name: "Bad", Fields: []*Field{{ID: 1, Name: "code", Req: "default", Type: T("i32")}}}})
				}
				rn := "void"
				if r != nil {
					rn = r.String()
				}
				add(fmt.Sprintf("service/ret%d-%s/args%d/throws%d", ri, rn, nargs, nthrows), "service", false, needs,
					&Decl{Service: &Service{Name: "Svc", Methods: []*Method{{Name: "doIt", Ret: r, Args: args, Throws: th}, {Name: "other"}}}})
			}
		}
	}
	// method names that the Go generator has to mangle (initialisms, underscores, constructor-like)
	add("service/method-names", "service", false, nil, &Decl{Service: &Service{Name: "Svc", Methods: []*Method{
		{Name: "URLFor", Ret: T("string"), Args: []*Field{arg(1, "i32")}}, {Name: "IDOf", Ret: T("i32"), Args: []*Field{arg(1, "string")}},
		{Name: "HTTPNotify", Oneway: true, Args: []*Field{arg(1, "i32")}}, {Name: "get_url", Ret: T("string")}, {Name: "fetchHttpStatus", Ret: T("i32")},
		{Name: "uuidValid", Ret: T("bool"), Args: []*Field{arg(1, "string")}}, {Name: "x", Ret: T("i32")}}}})
	add("service/oneway", "service", false, nil, &Decl{Service: &Service{Name: "Svc", Methods: []*Method{{Name: "fire", Oneway: true, Args: []*Field{arg(1, "i32")}}, {Name: "ping"}}}})
	add("service/empty", "service", false, nil, &Decl{Service: &Service{Name: "Svc"}})
	add("service/extends-local", "service", false, nil,
		&Decl{Service: &Service{Name: "Parent", Methods: []*Method{{Name: "parentPing"}, {Name: "parentEcho", Ret: T("i32"), Args: []*Field{arg(1, "i32")}}}}},
		&Decl{Service: &Service{Name: "Child", Extends: "Parent", Methods: []*Method{{Name: "childPing"}}}})
	add("service/extends-include", "service", true, nil,
		&Decl{Service: &Service{Name: "Child", Extends: "base.BaseSvc", Methods: []*Method{{Name: "childPing"}}}})
	add("service/include-types", "service", true, nil,
		&Decl{Service: &Service{Name: "Svc", Methods: []*Method{{Name: "get", Ret: T("base.Thing"), Args: []*Field{{ID: 1, Name: "k", Req: "default", Type: T("base.Kind")}, {ID: 2, Name: "i", Req: "default", Type: T("base.id2")}}, Throws: []*Field{{ID: 1, Name: "e", Req: "default", Type: T("base.BaseErr")}}}}}})
	// a method that throws a typedef, declared in an included file, of an exception of that file
	// (parser only: generators have known trouble with typedefs of structs, see C11's findings)
	{
		errs := &File{Name: "errs.frugal", Decls: []*Decl{{NS: &NS{Scope: "go", Value: "errs"}}, {NS: &NS{Scope: "java", Value: "errs"}},
			{Struct: &Struct{Kind: "exception", Name: "Failure", Fields: []*Field{{ID: 1, Name: "why", Req: "default", Type: T("string")}}}},
			{Typedef: &Typedef{Name: "Fault", Type: T("Failure")}}}}
		f := &File{Name: "main.frugal", Decls: []*Decl{{NS: &NS{Scope: "go", Value: "mainpkg"}}, {NS: &NS{Scope: "java", Value: "mainpkg"}}, {Include: "errs.frugal"},
			{Struct: &Struct{Kind: "exception", Name: "Local", Fields: []*Field{{ID: 1, Name: "why", Req: "default", Type: T("string")}}}},
			{Typedef: &Typedef{Name: "LocalAlias", Type: T("Local")}},
			{Service: &Service{Name: "Store", Methods: []*Method{
				{Name: "put", Args: []*Field{{ID: 1, Name: "k", Req: "default", Type: T("string")}}, Throws: []*Field{{ID: 1, Name: "f", Req: "default", Type: T("errs.Fault")}}},
				{Name: "get", Ret: T("i32"), Throws: []*Field{{ID: 1, Name: "a", Req: "default", Type: T("LocalAlias")}, {ID: 2, Name: "b", Req: "default", Type: T("errs.Failure")}}}}}}}}
		out = append(out, Atom{Name: "service/throws-typedef-of-exception", Class: "parse-only", Prog: &Program{Files: []*File{f, errs}}})
	}
	// two included files each of which includes a file called common.frugal from its own directory:
	// different files, different declarations, one base name
	{
		ns := func(v string) []*Decl { return []*Decl{{NS: &NS{Scope: "go", Value: v}}, {NS: &NS{Scope: "java", Value: v}}} }
		fc := &File{Name: "fruit/common.frugal", Decls: append(ns("fruitcommon"), &Decl{Struct: &Struct{Kind: "struct", Name: "Apple", Fields: []*Field{{ID: 1, Name: "n", Req: "default", Type: T("i32")}}}})}
		tc := &File{Name: "tools/common.frugal", Decls: append(ns("toolscommon"),
			&Decl{Enum: &Enum{Name: "Size", Values: []*EnumValue{{Name: "S"}, {Name: "L"}}}},
			&Decl{Struct: &Struct{Kind: "struct", Name: "Hammer", Fields: []*Field{{ID: 1, Name: "w", Req: "default", Type: T("i32")}}}})}
		fb := &File{Name: "fruit/basket.frugal", Decls: append(ns("basket"), &Decl{Include: "common.frugal"},
			&Decl{Struct: &Struct{Kind: "struct", Name: "Basket", Fields: []*Field{{ID: 1, Name: "a", Req: "default", Type: T("common.Apple")}}}})}
		tb := &File{Name: "tools/box.frugal", Decls: append(ns("box"), &Decl{Include: "common.frugal"},
			&Decl{Struct: &Struct{Kind: "struct", Name: "Box", Fields: []*Field{{ID: 1, Name: "h", Req: "default", Type: T("common.Hammer")}, {ID: 2, Name: "s", Req: "default", Type: T("common.Size")}}}})}
		for _, o := range []struct {
			n    string
			a, b string
		}{{"fruit-first", "fruit/basket.frugal", "tools/box.frugal"}, {"tools-first", "tools/box.frugal", "fruit/basket.frugal"}} {
			m := &File{Name: "main.frugal", Decls: append(ns("mainpkg"), &Decl{Include: o.a}, &Decl{Include: o.b},
				&Decl{Struct: &Struct{Kind: "struct", Name: "Holder", Fields: []*Field{{ID: 1, Name: "b", Req: "default", Type: T("basket.Basket")}, {ID: 2, Name: "x", Req: "default", Type: T("box.Box")}}}})}
			out = append(out, Atom{Name: "include-path/same-base-name-in-two-directories/" + o.n, Class: "parse-only", Prog: &Program{Files: []*File{m, fb, fc, tb, tc}}})
		}
	}
	// a struct literal constant that sets an optional scalar field which has a default
	add("const/struct-literal-sets-optional-field-with-default", "const", false, []*Decl{
		{Struct: &Struct{Kind: "struct", Name: "Retry", Fields: []*Field{{ID: 1, Name: "attempts", Req: "optional", Type: T("i32"), Default: Int(3)}, {ID: 2, Name: "label", Req: "optional", Type: T("string"), Default: Str("x")}, {ID: 3, Name: "n", Req: "default", Type: T("i32")}}}}},
		&Decl{Const: &Const{Name: "PATIENT", Type: T("Retry"), Value: LMap([]*Lit{Str("attempts"), Str("label"), Str("n")}, []*Lit{Int(10), Str("slow"), Int(1)})}})
	// method names that are equal when case is ignored (valid: they differ after the first letter)
	add("service/method-names-differ-in-case", "service", false, nil,
		&Decl{Service: &Service{Name: "Svc", Methods: []*Method{{Name: "lookUp", Ret: T("i32"), Args: []*Field{arg(1, "i32")}}, {Name: "lookup", Ret: T("string"), Args: []*Field{arg(1, "string")}}}}})
	add("service/method-names-differ-in-case-across-extends", "service", false, nil,
		&Decl{Service: &Service{Name: "Parent", Methods: []*Method{{Name: "getEntry", Ret: T("i32"), Args: []*Field{arg(1, "i32")}}}}},
		&Decl{Service: &Service{Name: "Child", Extends: "Parent", Methods: []*Method{{Name: "getentry", Ret: T("string")}}}})
	// the include is referenced from one position of one method only (import lists are computed per service)
	for _, pos := range []struct {
		n   string
		ret *Type
		arg *Type
		thr *Type
	}{
		{"ret", T("base.Thing"), nil, nil}, {"arg", nil, T("base.Kind"), nil}, {"throws", nil, nil, T("base.BaseErr")},
		{"ret-list", List(T("base.Thing")), nil, nil}, {"ret-map-value", Map(T("string"), T("base.Thing")), nil, nil}, {"ret-map-key", Map(T("base.Kind"), T("i32")), nil, nil},
		{"arg-map-value", nil, Map(T("i32"), T("base.Kind")), nil}, {"arg-set", nil, Set(T("base.id")), nil},
		{"ret-list-of-map-value", List(Map(T("string"), T("base.Thing"))), nil, nil}, {"arg-map-of-list-value", nil, Map(T("string"), List(T("base.Thing"))), nil},
	} {
		m := &Method{Name: "only", Ret: pos.ret}
		if pos.arg != nil {
			m.Args = []*Field{{ID: 1, Name: "a", Req: "default", Type: pos.arg}}
		}
		if pos.thr != nil {
			m.Throws = []*Field{{ID: 1, Name: "e", Req: "default", Type: pos.thr}}
		}
		add("service/include-only-in/"+pos.n, "service", true, nil, &Decl{Service: &Service{Name: "Svc", Methods: []*Method{{Name: "plain", Ret: T("i32")}, m}}})
	}
	// annotations on every kind of declaration that takes them (one, two and four per site)
	{
		a1 := []Annot{{"deprecated", "use other"}}
		a2 := []Annot{{"first", "1"}, {"second", "two words"}}
		a4 := []Annot{{"zeta", "z"}, {"alpha", "a"}, {"mid", "m"}, {"beta", "b"}}
		one := 1
		for _, ta := range []struct {
			tag string
			an  []Annot
		}{{"1", a1}, {"2", a2}, {"4", a4}} {
			tag, an := ta.tag, ta.an
			add("annotations/typedef/"+tag, "annotations", false, nil, &Decl{Typedef: &Typedef{Name: "Label", Type: T("string"), Annots: an}})
			add("annotations/enum-and-values/"+tag, "annotations", false, nil,
				&Decl{Enum: &Enum{Name: "Mood", Annots: an, Values: []*EnumValue{{Name: "GOOD", Annots: an}, {Name: "BAD", Explicit: &one}, {Name: "UGLY", Annots: a1}}}})
			add("annotations/const/"+tag, "annotations", false, nil, &Decl{Const: &Const{Name: "LIMIT", Type: T("i32"), Value: Int(7), Annots: an}})
			add("annotations/service-and-methods/"+tag, "annotations", false, []*Decl{localException()},
				&Decl{Service: &Service{Name: "Svc", Annots: an, Methods: []*Method{
					{Name: "first", Annots: an},
					{Name: "second", Ret: T("i32"), Args: []*Field{{ID: 1, Name: "a", Req: "default", Type: T("i32"), Annots: a1}}, Throws: []*Field{{ID: 1, Name: "e", Req: "default", Type: T("Oops")}}, Annots: an},
					{Name: "third", Oneway: true, Annots: a1},
					{Name: "plain"}}}})
			add("annotations/scope-and-operations/"+tag, "annotations", false, []*Decl{localStruct()},
				&Decl{Scope: &Scope{Name: "Events", Prefix: "foo.{user}", Annots: an, Ops: []*Op{{Name: "Created", Type: T("Point"), Annots: an}, {Name: "Gone", Type: T("Point")}}}})
		}
	}
	// names are scoped by their container: two declarations of one kind may use the same inner names
	{
		one, five := 1, 5
		add("scoping/two-enums-share-value-names", "enum", false, nil,
			&Decl{Enum: &Enum{Name: "Shape", Values: []*EnumValue{{Name: "UNKNOWN"}, {Name: "ROUND"}, {Name: "LAST", Explicit: &five}}}},
			&Decl{Enum: &Enum{Name: "Mood", Values: []*EnumValue{{Name: "UNKNOWN", Explicit: &one}, {Name: "GOOD"}, {Name: "LAST"}}}})
		add("scoping/enum-value-named-like-other-enum", "enum", false, nil,
			&Decl{Enum: &Enum{Name: "First", Values: []*EnumValue{{Name: "Second"}, {Name: "A"}}}},
			&Decl{Enum: &Enum{Name: "Second", Values: []*EnumValue{{Name: "First"}, {Name: "A"}}}})
		fl := func(id int, n, t string) *Field { return &Field{ID: id, Name: n, Req: "default", Type: T(t)} }
		add("scoping/two-structs-share-field-names-and-ids", "struct", false, nil,
			&Decl{Struct: &Struct{Kind: "struct", Name: "Left", Fields: []*Field{fl(1, "id", "i32"), fl(2, "name", "string")}}},
			&Decl{Struct: &Struct{Kind: "struct", Name: "Right", Fields: []*Field{fl(1, "id", "i64"), fl(2, "name", "binary")}}},
			&Decl{Struct: &Struct{Kind: "union", Name: "Either", Fields: []*Field{fl(1, "id", "i32"), fl(2, "name", "string")}}},
			&Decl{Struct: &Struct{Kind: "exception", Name: "Neither", Fields: []*Field{fl(1, "id", "i32"), fl(2, "name", "string")}}})
		add("scoping/two-services-share-method-and-argument-names", "service", false, nil,
			&Decl{Service: &Service{Name: "Alpha", Methods: []*Method{{Name: "get", Ret: T("i32"), Args: []*Field{fl(1, "key", "string")}}, {Name: "ping"}}}},
			&Decl{Service: &Service{Name: "Beta", Methods: []*Method{{Name: "get", Ret: T("string"), Args: []*Field{fl(1, "key", "i64")}}, {Name: "ping"}}}})
		add("scoping/two-scopes-share-operation-names", "scope", false, []*Decl{localStruct()},
			&Decl{Scope: &Scope{Name: "Ins", Prefix: "in", Ops: []*Op{{Name: "Changed", Type: T("Point")}, {Name: "Gone", Type: T("Point")}}}},
			&Decl{Scope: &Scope{Name: "Outs", Prefix: "out", Ops: []*Op{{Name: "Changed", Type: T("Point")}, {Name: "Gone", Type: T("Point")}}}})
		add("scoping/method-args-and-throws-share-names-across-methods", "service", false, []*Decl{localException()},
			&Decl{Service: &Service{Name: "Svc", Methods: []*Method{
				{Name: "first", Args: []*Field{fl(1, "a", "i32"), fl(2, "b", "string")}, Throws: []*Field{fl(1, "e", "Oops")}},
				{Name: "second", Ret: T("i32"), Args: []*Field{fl(1, "a", "string"), fl(2, "b", "i32")}, Throws: []*Field{fl(1, "e", "Oops")}}}}})
	}
	// the same bare name declared as different kinds in the main file and in the include, both used
	add("scoping/local-struct-named-like-included-enum", "struct", true, nil,
		&Decl{Struct: &Struct{Kind: "struct", Name: "Kind", Fields: []*Field{{ID: 1, Name: "n", Req: "default", Type: T("i32")}}}},
		&Decl{Struct: &Struct{Kind: "struct", Name: "Holder", Fields: []*Field{
			{ID: 1, Name: "mine", Req: "default", Type: T("Kind")}, {ID: 2, Name: "theirs", Req: "default", Type: T("base.Kind")},
			{ID: 3, Name: "both", Req: "optional", Type: Map(T("base.Kind"), T("Kind"))}}}},
		&Decl{Service: &Service{Name: "Svc", Methods: []*Method{{Name: "swap", Ret: T("base.Kind"), Args: []*Field{{ID: 1, Name: "k", Req: "default", Type: T("Kind")}}}, {Name: "back", Ret: T("Kind"), Args: []*Field{{ID: 1, Name: "k", Req: "default", Type: T("base.Kind")}}}}}})
	add("scoping/local-enum-named-like-included-struct", "enum", true, nil,
		&Decl{Enum: &Enum{Name: "Thing", Values: []*EnumValue{{Name: "ONE"}, {Name: "TWO"}}}},
		&Decl{Struct: &Struct{Kind: "struct", Name: "Holder", Fields: []*Field{
			{ID: 1, Name: "mine", Req: "default", Type: T("Thing")}, {ID: 2, Name: "theirs", Req: "default", Type: T("base.Thing")},
			{ID: 3, Name: "both", Req: "optional", Type: Map(T("Thing"), T("base.Thing"))}}}},
		&Decl{Service: &Service{Name: "Svc", Methods: []*Method{{Name: "swap", Ret: T("base.Thing"), Args: []*Field{{ID: 1, Name: "k", Req: "default", Type: T("Thing")}}}, {Name: "back", Ret: T("Thing"), Args: []*Field{{ID: 1, Name: "k", Req: "default", Type: T("base.Thing")}}}}}})
	// two different exception types with the same bare name, one local and one from the include, in
	// one throws list (both orders), and an included exception next to an unrelated local one
	localBaseErr := &Decl{Struct: &Struct{Kind: "exception", Name: "BaseErr", Fields: []*Field{{ID: 1, Name: "code", Req: "default", Type: T("i32")}}}}
	add("service/throws-same-name-local-then-include", "service", true, []*Decl{localBaseErr},
		&Decl{Service: &Service{Name: "Svc", Methods: []*Method{{Name: "doIt", Ret: T("i32"), Args: []*Field{arg(1, "i32")}, Throws: []*Field{exc(1, "BaseErr"), exc(2, "base.BaseErr")}}, {Name: "other"}}}})
	add("service/throws-same-name-include-then-local", "service", true, []*Decl{localBaseErr},
		&Decl{Service: &Service{Name: "Svc", Methods: []*Method{{Name: "doIt", Args: []*Field{arg(1, "i32")}, Throws: []*Field{exc(1, "base.BaseErr"), exc(2, "BaseErr")}}, {Name: "other"}}}})
	add("service/throws-include-and-local", "service", true, []*Decl{localException()},
		&Decl{Service: &Service{Name: "Svc", Methods: []*Method{{Name: "doIt", Ret: T("string"), Throws: []*Field{exc(1, "base.BaseErr"), exc(2, "Oops")}}, {Name: "other", Throws: []*Field{exc(1, "Oops")}}}}})
	// scopes
	prefixes := []string{"", "foo", "foo.bar", "{user}", "foo.{user}", "foo.{a}.bar.{b}", "v1-x_y", "{ab}.{cd}"}
	for _, p := range prefixes {
		add("scope/prefix="+p, "scope", false, []*Decl{localStruct()}, &Decl{Scope: &Scope{Name: "Events", Prefix: p, Ops: []*Op{{Name: "Created", Type: T("Point")}, {Name: "Counted", Type: T("i64")}}}})
	}
	add("scope/prefix-one-letter-variable", "scope", false, []*Decl{localStruct()}, &Decl{Scope: &Scope{Name: "Events", Prefix: "a.{b}.c", Ops: []*Op{{Name: "Created", Type: T("Point")}}}})
	add("scope/two-scopes-unsorted", "scope", false, []*Decl{localStruct()},
		&Decl{Scope: &Scope{Name: "Zeta", Ops: []*Op{{Name: "Z", Type: T("Point")}}}}, &Decl{Scope: &Scope{Name: "Alpha", Prefix: "x", Ops: []*Op{{Name: "A", Type: T("Point")}}}})
	add("scope/include-type", "scope", true, nil, &Decl{Scope: &Scope{Name: "Events", Ops: []*Op{{Name: "Thinged", Type: T("base.Thing")}}}})
	// namespaces
	for _, ns := range []NS{{"*", "everything"}, {"go", "a.b.c"}, {"java", "com.x.y"}, {"py", "pkg_name"}, {"dart", "d_art"}, {"py.asyncio", "aio.pkg"}} {
		ns := ns
		out = append(out, Atom{Name: "namespace/" + ns.Scope, Class: "namespace", Prog: &Program{Files: []*File{{Name: "main.frugal", Decls: []*Decl{{NS: &ns}, localStruct()}}}}})
	}
	return out
}

// IdentAtoms puts awkward identifier shapes into every identifier position.
func IdentAtoms() []Atom {
	idents := []string{"a", "_x", "a_b", "A1", "stringList", "i32Thing", "boolean", "bytes", "doubleX", "binaryBlob", "i64s", "i16x",
		"structure", "voidness", "onewayX", "includer", "mapper", "listing", "setter", "constant", "enumerate", "unionize", "scoped", "serviceX", "throwsX", "typedefs", "exceptional", "requiredX", "optionalX", "prefixed", "namespaceX", "extendsX", "trueish", "falsey",
		// names the Go generator treats specially (constructor prefix, args / result suffixes)
		"Newsletter", "newMessage", "news_kind", "PutArgs", "GetResult"}
	var out []Atom
	for _, id := range idents {
		id := id
		add := func(pos string, feature ...*Decl) {
			out = append(out, Atom{Name: "ident/" + pos + "/" + id, Class: "ident", Prog: MainFile(false, nil, feature...)})
		}
		st := func(name string) *Decl {
			return &Decl{Struct: &Struct{Kind: "struct", Name: name, Fields: []*Field{{ID: 1, Name: "v", Req: "default", Type: T("i32")}}}}
		}
		add("struct-name", st(id))
		add("field-type", st(id), &Decl{Struct: &Struct{Kind: "struct", Name: "Holder", Fields: []*Field{{ID: 1, Name: "f", Req: "default", Type: T(id)}}}})
		add("field-name", &Decl{Struct: &Struct{Kind: "struct", Name: "Holder", Fields: []*Field{{ID: 1, Name: id, Req: "default", Type: T("i32")}}}})
		add("container-element-type", st(id), &Decl{Struct: &Struct{Kind: "struct", Name: "Holder", Fields: []*Field{{ID: 1, Name: "f", Req: "default", Type: List(T(id))}}}})
		add("map-value-type", st(id), &Decl{Struct: &Struct{Kind: "struct", Name: "Holder", Fields: []*Field{{ID: 1, Name: "f", Req: "default", Type: Map(T("string"), T(id))}}}})
		add("typedef-name", &Decl{Typedef: &Typedef{Name: id, Type: T("i32")}})
		add("typedef-target", st(id), &Decl{Typedef: &Typedef{Name: "Alias", Type: T(id)}})
		add("enum-name", &Decl{Enum: &Enum{Name: id, Values: []*EnumValue{{Name: "A"}}}})
		add("enum-value-name", &Decl{Enum: &Enum{Name: "E", Values: []*EnumValue{{Name: id}, {Name: "B"}}}})
		add("const-name", &Decl{Const: &Const{Name: id, Type: T("i32"), Value: Int(1)}})
		add("const-value-ident", &Decl{Const: &Const{Name: id, Type: T("i32"), Value: Int(1)}}, &Decl{Const: &Const{Name: "K2", Type: T("i32"), Value: Ident(id)}})
		add("service-name", &Decl{Service: &Service{Name: id, Methods: []*Method{{Name: "ping"}}}})
		add("method-name", &Decl{Service: &Service{Name: "Svc", Methods: []*Method{{Name: id}}}})
		add("return-type", st(id), &Decl{Service: &Service{Name: "Svc", Methods: []*Method{{Name: "get", Ret: T(id)}}}})
		add("arg-type", st(id), &Decl{Service: &Service{Name: "Svc", Methods: []*Method{{Name: "put", Args: []*Field{{ID: 1, Name: "v", Req: "default", Type: T(id)}}}}}})
		add("arg-name", &Decl{Service: &Service{Name: "Svc", Methods: []*Method{{Name: "put", Args: []*Field{{ID: 1, Name: id, Req: "default", Type: T("i32")}}}}}})
		add("scope-name", st("Pl"), &Decl{Scope: &Scope{Name: id, Ops: []*Op{{Name: "Op", Type: T("Pl")}}}})
		add("operation-name", st("Pl"), &Decl{Scope: &Scope{Name: "Sc", Ops: []*Op{{Name: id, Type: T("Pl")}}}})
		add("operation-type", st(id), &Decl{Scope: &Scope{Name: "Sc", Ops: []*Op{{Name: "Op", Type: T(id)}}}})
		add("extends", &Decl{Service: &Service{Name: id, Methods: []*Method{{Name: "ping"}}}}, &Decl{Service: &Service{Name: "Kid", Extends: id, Methods: []*Method{{Name: "pong"}}}})
	}
	return out
}

func sortedKeys(m map[string][]*EnumValue) []string {
	var ks []string
	for k := range m {
		ks = append(ks, k)
	}
	for i := range ks {
		for j := i + 1; j < len(ks); j++ {
			if ks[j] < ks[i] {
				ks[i], ks[j] = ks[j], ks[i]
			}
		}
	}
	return ks
}

// AllAtoms is the full atom list for a tier.
func AllAtoms(thorough bool) []Atom {
	depth := 1
	if thorough {
		depth = 2
	}
	out := FieldAtoms(depth)
	out = append(out, DeclAtoms()...)
	out = append(out, IdentAtoms()...)
	return out
}
