// Package idl is an independent model of Frugal/Thrift IDL programs: the expected value of every
// parser oracle, the schema of every wire oracle, and the source of rendered IDL text. Nothing in
// this package calls into the compiler under test.
package idl

import (
	"fmt"
	"sort"
	"strconv"
	"strings"
)

type Type struct {
	Name     string // base type, container name or identifier
	Key, Val *Type
}

func T(name string) *Type        { return &Type{Name: name} }
func List(v *Type) *Type         { return &Type{Name: "list", Val: v} }
func Set(v *Type) *Type          { return &Type{Name: "set", Val: v} }
func Map(k, v *Type) *Type       { return &Type{Name: "map", Key: k, Val: v} }
func (t *Type) IsContainer() bool { return t.Name == "list" || t.Name == "set" || t.Name == "map" }

func (t *Type) String() string {
	switch t.Name {
	case "list":
		return "list<" + t.Val.String() + ">"
	case "set":
		return "set<" + t.Val.String() + ">"
	case "map":
		return "map<" + t.Key.String() + "," + t.Val.String() + ">"
	}
	return t.Name
}

// Lit is a constant value.
type Lit struct {
	Kind  string // int double string bool ident list map
	Int   int64
	Dbl   float64
	Str   string
	Bool  bool
	Elems []*Lit
	Keys  []*Lit
}

func Int(i int64) *Lit      { return &Lit{Kind: "int", Int: i} }
func Dbl(d float64) *Lit    { return &Lit{Kind: "double", Dbl: d} }
func Str(s string) *Lit     { return &Lit{Kind: "string", Str: s} }
func Bool(b bool) *Lit      { return &Lit{Kind: "bool", Bool: b} }
func Ident(s string) *Lit   { return &Lit{Kind: "ident", Str: s} }
func LList(e ...*Lit) *Lit  { return &Lit{Kind: "list", Elems: e} }
func LMap(k, v []*Lit) *Lit { return &Lit{Kind: "map", Keys: k, Elems: v} }

// Canon is the canonical text both the model and the parser dump produce.
func (l *Lit) Canon() string {
	if l == nil {
		return ""
	}
	switch l.Kind {
	case "int":
		return "i:" + strconv.FormatInt(l.Int, 10)
	case "double":
		return "d:" + strconv.FormatFloat(l.Dbl, 'g', -1, 64)
	case "string":
		return "s:" + strconv.Quote(l.Str)
	case "bool":
		return "b:" + strconv.FormatBool(l.Bool)
	case "ident":
		return "id:" + l.Str
	case "list":
		p := make([]string, len(l.Elems))
		for i, e := range l.Elems {
			p[i] = e.Canon()
		}
		return "[" + strings.Join(p, ",") + "]"
	case "map":
		p := make([]string, len(l.Elems))
		for i := range l.Elems {
			p[i] = l.Keys[i].Canon() + "=>" + l.Elems[i].Canon()
		}
		return "{" + strings.Join(p, ",") + "}"
	}
	return "?"
}

type Annot struct{ Name, Value string }

type Field struct {
	ID      int
	Name    string
	Req     string // required | optional | default
	Type    *Type
	Default *Lit
	Annots  []Annot
}

type Struct struct {
	Kind   string // struct | exception | union
	Name   string
	Fields []*Field
	Annots []Annot
}

type EnumValue struct {
	Name     string
	Explicit *int // nil: implicit numbering
	Annots   []Annot
}

type Enum struct {
	Name   string
	Values []*EnumValue
	Annots []Annot
}

type Typedef struct {
	Name   string
	Type   *Type
	Annots []Annot
}

type Const struct {
	Name   string
	Type   *Type
	Value  *Lit
	Annots []Annot
}

type Method struct {
	Name   string
	Oneway bool
	Ret    *Type // nil = void
	Args   []*Field
	Throws []*Field
	Annots []Annot
}

type Service struct {
	Name    string
	Extends string
	Methods []*Method
	Annots  []Annot
}

type Op struct {
	Name   string
	Type   *Type
	Annots []Annot
}

type Scope struct {
	Name   string
	Prefix string // "" = none
	Ops    []*Op
	Annots []Annot
}

// AnnotSuffix is the canonical rendering of an annotation list appended to a one-line canonical
// entry (empty when there are none).
func AnnotSuffix(n int, at func(i int) (string, string)) string {
	if n == 0 {
		return ""
	}
	p := make([]string, n)
	for i := 0; i < n; i++ {
		k, v := at(i)
		p[i] = k + "=" + v
	}
	return " @(" + strings.Join(p, ",") + ")"
}

func annSuffix(a []Annot) string {
	return AnnotSuffix(len(a), func(i int) (string, string) { return a[i].Name, a[i].Value })
}

type NS struct{ Scope, Value string }

// Decl is one top-level declaration, in source order.
type Decl struct {
	Include string
	NS      *NS
	Typedef *Typedef
	Enum    *Enum
	Const   *Const
	Struct  *Struct
	Service *Service
	Scope   *Scope
}

type File struct {
	Name  string // file name incl. extension
	Decls []*Decl
}

type Program struct {
	Files []*File // Files[0] is the main file
}

// ---- expected parse result ------------------------------------------------------------------------

// CField etc. form the canonical comparison structure (JSON-serialisable, order-normalised where
// the language gives no order).
type CField struct {
	ID      int
	Name    string
	Mod     string
	Type    string
	Default string
	Annots  []string
}
type CStruct struct {
	Name   string
	Fields []CField
	Annots []string
}
type CEnum struct {
	Name   string
	Values []string // name=value
}
type CMethod struct {
	Name   string // with the annotation suffix, if any
	Oneway bool
	Ret    string
	Args   []CField
	Throws []CField
}
type CService struct {
	Name, Extends string
	Methods       []CMethod
}
type CScope struct {
	Name, Prefix string
	Vars         []string
	Ops          []string
}
type CFile struct {
	Includes   []string
	Namespaces []string
	Typedefs   []string
	Enums      []CEnum
	Consts     []string
	Structs    []CStruct
	Exceptions []CStruct
	Unions     []CStruct
	Services   []CService
	Scopes     []CScope
}

func cfield(f *Field, forceOptional bool) CField {
	mod := strings.ToUpper(f.Req)
	if forceOptional {
		mod = "OPTIONAL"
	}
	c := CField{ID: f.ID, Name: f.Name, Mod: mod, Type: f.Type.String(), Default: f.Default.Canon()}
	for _, a := range f.Annots {
		c.Annots = append(c.Annots, a.Name+"="+a.Value)
	}
	return c
}

// PrefixVars extracts {var} names the way the documentation describes prefixes.
func PrefixVars(p string) []string {
	var out []string
	for {
		i := strings.Index(p, "{")
		if i < 0 {
			return out
		}
		j := strings.Index(p[i:], "}")
		if j < 0 {
			return out
		}
		out = append(out, p[i+1:i+j])
		p = p[i+j+1:]
	}
}

// Expect computes what a correct parser must produce for file f. Enum numbering follows Thrift:
// the first implicit value is 0, every implicit value is previous + 1.
func Expect(f *File) *CFile {
	c := &CFile{}
	for _, d := range f.Decls {
		switch {
		case d.Include != "":
			c.Includes = append(c.Includes, d.Include)
		case d.NS != nil:
			c.Namespaces = append(c.Namespaces, d.NS.Scope+" "+d.NS.Value)
		case d.Typedef != nil:
			c.Typedefs = append(c.Typedefs, d.Typedef.Name+"="+d.Typedef.Type.String()+annSuffix(d.Typedef.Annots))
		case d.Enum != nil:
			e := CEnum{Name: d.Enum.Name + annSuffix(d.Enum.Annots)}
			prev := -1
			for _, v := range d.Enum.Values {
				val := prev + 1
				if v.Explicit != nil {
					val = *v.Explicit
				}
				prev = val
				e.Values = append(e.Values, fmt.Sprintf("%s=%d", v.Name, val)+annSuffix(v.Annots))
			}
			c.Enums = append(c.Enums, e)
		case d.Const != nil:
			c.Consts = append(c.Consts, d.Const.Name+":"+d.Const.Type.String()+"="+d.Const.Value.Canon()+annSuffix(d.Const.Annots))
		case d.Struct != nil:
			s := CStruct{Name: d.Struct.Name}
			for _, fl := range d.Struct.Fields {
				s.Fields = append(s.Fields, cfield(fl, d.Struct.Kind == "union"))
			}
			for _, a := range d.Struct.Annots {
				s.Annots = append(s.Annots, a.Name+"="+a.Value)
			}
			switch d.Struct.Kind {
			case "struct":
				c.Structs = append(c.Structs, s)
			case "exception":
				c.Exceptions = append(c.Exceptions, s)
			default:
				c.Unions = append(c.Unions, s)
			}
		case d.Service != nil:
			s := CService{Name: d.Service.Name + annSuffix(d.Service.Annots), Extends: d.Service.Extends}
			for _, m := range d.Service.Methods {
				cm := CMethod{Name: m.Name + annSuffix(m.Annots), Oneway: m.Oneway}
				if m.Ret != nil {
					cm.Ret = m.Ret.String()
				}
				for _, a := range m.Args {
					cm.Args = append(cm.Args, cfield(a, false))
				}
				for _, a := range m.Throws {
					cm.Throws = append(cm.Throws, cfield(a, true))
				}
				s.Methods = append(s.Methods, cm)
			}
			c.Services = append(c.Services, s)
		case d.Scope != nil:
			s := CScope{Name: d.Scope.Name + annSuffix(d.Scope.Annots), Prefix: d.Scope.Prefix, Vars: PrefixVars(d.Scope.Prefix)}
			for _, o := range d.Scope.Ops {
				s.Ops = append(s.Ops, o.Name+":"+o.Type.String()+annSuffix(o.Annots))
			}
			c.Scopes = append(c.Scopes, s)
		}
	}
	c.Normalize()
	return c
}

// Normalize sorts the sections whose order the parser is free to change (it sorts scopes).
func (c *CFile) Normalize() {
	sort.Slice(c.Scopes, func(i, j int) bool { return c.Scopes[i].Name < c.Scopes[j].Name })
}

// ---- rendering ------------------------------------------------------------------------------------

// Style is one lexical rendering variant.
type Style struct {
	Sep       string // field / value separator: "," ";" or ""
	Comment   string // "", "//", "#", "/*", "doc"
	Quote     byte   // '"' or '\''
	ExplicitDefaultReq bool // unused (Thrift has no keyword for default requiredness)
	OneLine   bool   // fields on one line
	Semis     bool   // terminate top-level statements with ';'
	IntForm   string // integer literals: "" plain decimal, "pad" zero-padded (010 is ten), "plus" explicit sign (+10)
}

// integer renders an integer literal (field id, enum value, constant) in the style's lexical form;
// every form denotes the same decimal number in Thrift.
func (s Style) integer(n int64) string {
	switch {
	case s.IntForm == "pad" && n >= 0:
		return "0" + strconv.FormatInt(n, 10)
	case s.IntForm == "pad":
		return "-0" + strconv.FormatInt(n, 10)[1:]
	case s.IntForm == "plus" && n >= 0:
		return "+" + strconv.FormatInt(n, 10)
	}
	return strconv.FormatInt(n, 10)
}

func (s Style) String() string {
	return fmt.Sprintf("sep=%q comment=%q quote=%c oneline=%v semis=%v ints=%q", s.Sep, s.Comment, s.Quote, s.OneLine, s.Semis, s.IntForm)
}

type renderer struct {
	st Style
	sb strings.Builder
}

func (r *renderer) gap() string {
	switch r.st.Comment {
	case "//":
		return " // c\n"
	case "#":
		return " # c\n"
	case "/*":
		return " /* c */ "
	case "/**":
		return " /* c **/ "
	case "doc", "doc*":
		return " "
	}
	return " "
}

func (r *renderer) lit(l *Lit) string {
	switch l.Kind {
	case "int":
		return r.st.integer(l.Int)
	case "double":
		s := strconv.FormatFloat(l.Dbl, 'f', -1, 64)
		if !strings.Contains(s, ".") {
			s += ".0"
		}
		return s
	case "string":
		q := string(r.st.Quote)
		esc := strings.ReplaceAll(l.Str, `\`, `\\`)
		esc = strings.ReplaceAll(esc, q, `\`+q)
		return q + esc + q
	case "bool":
		return strconv.FormatBool(l.Bool)
	case "ident":
		return l.Str
	case "list":
		p := make([]string, len(l.Elems))
		for i, e := range l.Elems {
			p[i] = r.lit(e)
		}
		sep := r.st.Sep
		if sep == "" {
			sep = " "
		} else {
			sep += " "
		}
		return "[" + strings.Join(p, sep) + "]"
	case "map":
		p := make([]string, len(l.Elems))
		for i := range l.Elems {
			p[i] = r.lit(l.Keys[i]) + ": " + r.lit(l.Elems[i])
		}
		return "{" + strings.Join(p, ", ") + "}"
	}
	return "?"
}

func (r *renderer) annots(a []Annot) string {
	if len(a) == 0 {
		return ""
	}
	p := make([]string, len(a))
	for i, x := range a {
		q := string(r.st.Quote)
		p[i] = x.Name + " = " + q + x.Value + q
	}
	return " (" + strings.Join(p, ", ") + ")"
}

func (r *renderer) field(f *Field, withReq bool) string {
	s := r.st.integer(int64(f.ID)) + ":"
	if withReq && f.Req != "default" {
		s += " " + f.Req
	}
	s += " " + f.Type.String() + " " + f.Name
	if f.Default != nil {
		s += " = " + r.lit(f.Default)
	}
	s += r.annots(f.Annots)
	return s
}

func (r *renderer) fields(fs []*Field, withReq bool, indent string) string {
	var sb strings.Builder
	for i, f := range fs {
		if r.st.Comment == "doc" {
			sb.WriteString(indent + "/**@ doc */\n")
		} else if r.st.Comment == "doc*" {
			sb.WriteString(indent + "/**@ doc **/\n")
		}
		sb.WriteString(indent + r.field(f, withReq))
		if r.st.Sep != "" && (i < len(fs)-1 || r.st.Sep == ";") {
			sb.WriteString(r.st.Sep)
		}
		if r.st.OneLine {
			sb.WriteString(" ")
		} else {
			sb.WriteString(r.gap())
			if !strings.HasSuffix(sb.String(), "\n") {
				sb.WriteString("\n")
			}
		}
	}
	return sb.String()
}

func (r *renderer) eos() string {
	if r.st.Semis {
		return ";\n"
	}
	return "\n"
}

// Render produces IDL text for f under style st.
func Render(f *File, st Style) string {
	r := &renderer{st: st}
	w := &r.sb
	for _, d := range f.Decls {
		if st.Comment == "//" || st.Comment == "#" {
			w.WriteString(strings.TrimLeft(r.gap(), " "))
		} else if st.Comment == "/*" {
			w.WriteString("/* block\n comment */\n")
		} else if st.Comment == "/**" {
			// runs of stars of either parity in front of the closing slash, and a comment that is nothing else
			w.WriteString("/****** banner\n * line ******/\n/***/ /* odd ***/\n")
		}
		switch {
		case d.Include != "":
			q := string(st.Quote)
			w.WriteString("include " + q + d.Include + q + r.eos())
		case d.NS != nil:
			w.WriteString("namespace " + d.NS.Scope + " " + d.NS.Value + r.eos())
		case d.Typedef != nil:
			w.WriteString("typedef " + d.Typedef.Type.String() + " " + d.Typedef.Name + r.annots(d.Typedef.Annots) + r.eos())
		case d.Enum != nil:
			w.WriteString("enum " + d.Enum.Name + " {\n")
			for i, v := range d.Enum.Values {
				w.WriteString("  " + v.Name)
				if v.Explicit != nil {
					w.WriteString(" = " + st.integer(int64(*v.Explicit)))
				}
				w.WriteString(r.annots(v.Annots))
				if st.Sep != "" && (i < len(d.Enum.Values)-1 || st.Sep == ";") {
					w.WriteString(st.Sep)
				}
				w.WriteString("\n")
			}
			w.WriteString("}" + r.annots(d.Enum.Annots) + r.eos())
		case d.Const != nil:
			w.WriteString("const " + d.Const.Type.String() + " " + d.Const.Name + " = " + r.lit(d.Const.Value) + r.annots(d.Const.Annots) + r.eos())
		case d.Struct != nil:
			if st.Comment == "doc" {
				w.WriteString("/**@ struct doc */\n")
			} else if st.Comment == "doc*" {
				w.WriteString("/**@ struct doc ** **/\n")
			}
			w.WriteString(d.Struct.Kind + " " + d.Struct.Name + " {")
			if !st.OneLine {
				w.WriteString("\n")
			} else {
				w.WriteString(" ")
			}
			w.WriteString(r.fields(d.Struct.Fields, true, "  "))
			w.WriteString("}" + r.annots(d.Struct.Annots) + r.eos())
		case d.Service != nil:
			w.WriteString("service " + d.Service.Name)
			if d.Service.Extends != "" {
				w.WriteString(" extends " + d.Service.Extends)
			}
			w.WriteString(" {\n")
			for i, m := range d.Service.Methods {
				if st.Comment == "doc" {
					w.WriteString("  /**@ method doc */\n")
				} else if st.Comment == "doc*" {
					w.WriteString("  /**@ method * doc **/\n")
				}
				w.WriteString("  ")
				if m.Oneway {
					w.WriteString("oneway ")
				}
				if m.Ret == nil {
					w.WriteString("void")
				} else {
					w.WriteString(m.Ret.String())
				}
				old := r.st.OneLine
				r.st.OneLine = true
				w.WriteString(" " + m.Name + "(" + strings.TrimSpace(r.fields(m.Args, false, "")) + ")")
				if len(m.Throws) > 0 {
					w.WriteString(" throws (" + strings.TrimSpace(r.fields(m.Throws, false, "")) + ")")
				}
				r.st.OneLine = old
				w.WriteString(r.annots(m.Annots))
				if st.Sep != "" && (i < len(d.Service.Methods)-1 || st.Sep == ";") {
					w.WriteString(st.Sep)
				}
				w.WriteString("\n")
			}
			w.WriteString("}" + r.annots(d.Service.Annots) + r.eos())
		case d.Scope != nil:
			w.WriteString("scope " + d.Scope.Name)
			if d.Scope.Prefix != "" {
				w.WriteString(" prefix " + d.Scope.Prefix)
			}
			w.WriteString(" {\n")
			for _, o := range d.Scope.Ops {
				w.WriteString("  " + o.Name + ": " + o.Type.String() + r.annots(o.Annots) + "\n")
			}
			w.WriteString("}" + r.annots(d.Scope.Annots) + r.eos())
		}
		w.WriteString("\n")
	}
	return w.String()
}

// Styles enumerates the lexical variants.
func Styles(all bool) []Style {
	var out []Style
	seps := []string{",", ";", ""}
	comments := []string{"", "//", "#", "/*", "doc", "/**", "doc*"}
	for _, sep := range seps {
		for _, c := range comments {
			for _, q := range []byte{'"', '\''} {
				for _, one := range []bool{false, true} {
					for _, semi := range []bool{false, true} {
						if one && (c == "//" || c == "#") {
							continue // a line comment would swallow the rest of the line
						}
						if !all && (semi != (sep == ";")) && !(sep == "," && !semi) {
							continue
						}
						if all {
							for _, f := range []string{"", "pad", "plus"} {
								out = append(out, Style{Sep: sep, Comment: c, Quote: q, OneLine: one, Semis: semi, IntForm: f})
							}
							continue
						}
						// quick: the integer form rotates, so every program is still rendered in all three
						out = append(out, Style{Sep: sep, Comment: c, Quote: q, OneLine: one, Semis: semi, IntForm: []string{"", "pad", "plus"}[len(out)%3]})
					}
				}
			}
		}
	}
	return out
}
