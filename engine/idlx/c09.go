package main

import (
	"encoding/base64"
	"encoding/binary"
	"encoding/json"
	"fmt"
	"sort"
	"strings"

	"verif/idlx/idl"
)

// ctxProgram: one service (two-way, oneway) and one scope, used by C09 / C16 / C14.
func ctxProgram() idl.Atom {
	T := idl.T
	point := &idl.Decl{Struct: &idl.Struct{Kind: "struct", Name: "Point", Fields: []*idl.Field{{ID: 1, Name: "x", Req: "default", Type: T("i32")}, {ID: 2, Name: "label", Req: "optional", Type: T("string")}}}}
	oops := &idl.Decl{Struct: &idl.Struct{Kind: "exception", Name: "Oops", Fields: []*idl.Field{{ID: 1, Name: "why", Req: "default", Type: T("string")}}}}
	req := &idl.Decl{Struct: &idl.Struct{Kind: "struct", Name: "Strict", Fields: []*idl.Field{{ID: 1, Name: "must", Req: "required", Type: T("i32")}, {ID: 2, Name: "may", Req: "optional", Type: T("string")}}}}
	svc := &idl.Decl{Service: &idl.Service{Name: "Svc", Methods: []*idl.Method{
		{Name: "echo", Ret: T("i32"), Args: []*idl.Field{{ID: 1, Name: "v", Req: "default", Type: T("i32")}}, Throws: []*idl.Field{{ID: 1, Name: "oops", Req: "default", Type: T("Oops")}}},
		{Name: "move", Ret: T("Point"), Args: []*idl.Field{{ID: 1, Name: "p", Req: "default", Type: T("Point")}, {ID: 2, Name: "dx", Req: "default", Type: T("i32")}}},
		{Name: "names", Ret: idl.List(T("string")), Args: []*idl.Field{{ID: 1, Name: "n", Req: "default", Type: T("i32")}}},
		{Name: "blob", Ret: T("binary")},
		{Name: "check", Args: []*idl.Field{{ID: 1, Name: "s", Req: "default", Type: T("Strict")}}},
		{Name: "ping"},
		{Name: "fire", Oneway: true, Args: []*idl.Field{{ID: 1, Name: "n", Req: "default", Type: T("i32")}}},
	}}}
	parent := &idl.Decl{Service: &idl.Service{Name: "Parent", Methods: []*idl.Method{{Name: "parentEcho", Ret: T("i32"), Args: []*idl.Field{{ID: 1, Name: "v", Req: "default", Type: T("i32")}}}}}}
	child := &idl.Decl{Service: &idl.Service{Name: "Child", Extends: "Parent", Methods: []*idl.Method{{Name: "childEcho", Ret: T("i32"), Args: []*idl.Field{{ID: 1, Name: "v", Req: "default", Type: T("i32")}}}}}}
	scope := &idl.Decl{Scope: &idl.Scope{Name: "Events", Prefix: "foo.{user}", Ops: []*idl.Op{{Name: "Made", Type: T("Point")}, {Name: "Counted", Type: T("i64")}}}}
	plain := &idl.Decl{Scope: &idl.Scope{Name: "Plain", Ops: []*idl.Op{{Name: "Noted", Type: T("Point")}}}}
	return idl.Atom{Name: "ctx-program", Class: "service", Prog: idl.MainFile(false, []*idl.Decl{point, oops, req}, svc, parent, child, scope, plain)}
}

func iv(n int64) *idl.V { return &idl.V{K: "i", I: fmt.Sprint(n)} }

func pointV(x int64, label string) *idl.V {
	v := &idl.V{K: "struct", F: map[string]*idl.V{"1": iv(x)}}
	if label != "" {
		v.F["2"] = &idl.V{K: "s", S: label}
	}
	return v
}

var reservedOK = func(k string) bool {
	return k == "_cid" || k == "_opid" || k == "_timeout" || strings.HasPrefix(k, "_topic_")
}

func parseFrameHeaders(b64 string) map[string]string {
	b, err := base64.StdEncoding.DecodeString(b64)
	if err != nil || len(b) < 5 || b[0] != 0 {
		return nil
	}
	n := int(binary.BigEndian.Uint32(b[1:5]))
	if 5+n > len(b) {
		return nil
	}
	hb := b[5 : 5+n]
	out := map[string]string{}
	for len(hb) >= 4 {
		l := int(binary.BigEndian.Uint32(hb))
		hb = hb[4:]
		if l > len(hb) {
			return nil
		}
		k := string(hb[:l])
		hb = hb[l:]
		if len(hb) < 4 {
			return nil
		}
		l = int(binary.BigEndian.Uint32(hb))
		hb = hb[4:]
		if l > len(hb) {
			return nil
		}
		out[k] = string(hb[:l])
		hb = hb[l:]
	}
	return out
}

// headerMaps: every map with 0..3 entries over non-reserved names and boundary values.
func headerMaps(full bool) []map[string]string {
	names := []string{"k", "x-y", "é", "A_b", "_tenant"} // only _cid and _opid are reserved; other underscore names are user headers
	values := []string{"", "v", "日本", "a b=c"}
	out := []map[string]string{{}}
	for i, n := range names {
		for _, v := range values {
			out = append(out, map[string]string{n: v})
		}
		for j := i + 1; j < len(names); j++ {
			for vi, v := range values {
				out = append(out, map[string]string{n: v, names[j]: values[(vi+1)%len(values)]})
				if full {
					for k := j + 1; k < len(names); k++ {
						out = append(out, map[string]string{n: v, names[j]: values[(vi+1)%len(values)], names[k]: values[(vi+2)%len(values)]})
					}
				}
			}
		}
	}
	return out
}

func runC09(res *result) {
	thorough := *tier == "thorough"
	atom := ctxProgram()
	units := prepareGenModule(res, []idl.Atom{atom}, "")
	if *shard != 0 || len(units) == 0 {
		return
	}
	u := units[0]
	r := &idl.Resolver{P: atom.Prog}
	main := atom.Prog.Files[0]
	plan := drvPlan{Structs: r.AllStructRTs()}
	type exp struct {
		cs   *callSpec
		desc string
	}
	var exps []exp
	cids := []string{"", "c", "çïd-日本", strings.Repeat("z", 100)}
	timeouts := []int64{1, 999, 5000, 3600000}
	transports := []string{"direct", "http"}
	protos := []string{"binary", "json"}
	if thorough {
		transports = append(transports, "tcp")
		protos = []string{"binary", "compact", "json"}
	}
	i32 := r.Resolve(main, idl.T("i32"))
	pointRT := r.Resolve(main, idl.T("Point"))
	n := 0
	// a timeout of zero ("no deadline") travels like any other: direct transport only, because the
	// stock HTTP / NATS clients give up at once with it
	for zi, hm := range headerMaps(false)[:6] {
		z := &callSpec{Kind: "rpc", Service: "Svc", Method: "Echo", WireMethod: "echo", Args: []*idl.V{iv(1)}, ArgTypes: []*idl.RT{i32}, RetType: i32,
			Transport: "direct", Proto: protos[zi%len(protos)], Headers: hm, Cid: "cz", TimeoutZero: true, Outcome: &outcomeSpec{Kind: "return", Value: iv(2), RespHdr: map[string]string{"r": "v"}}}
		plan.Ops = append(plan.Ops, drvOp{Op: "call", Call: z})
		exps = append(exps, exp{z, fmt.Sprintf("rpc echo headers=%v timeout=0 direct/%s", hm, z.Proto)})
		zo := &callSpec{Kind: "rpc", Service: "Svc", Method: "Fire", WireMethod: "fire", Args: []*idl.V{iv(1)}, ArgTypes: []*idl.RT{i32}, Oneway: true,
			Transport: "direct", Proto: protos[zi%len(protos)], Headers: hm, Cid: "cz", TimeoutZero: true, Outcome: &outcomeSpec{Kind: "return"}}
		plan.Ops = append(plan.Ops, drvOp{Op: "call", Call: zo})
		exps = append(exps, exp{zo, fmt.Sprintf("oneway fire headers=%v timeout=0", hm)})
	}
	for _, hm := range headerMaps(thorough) {
		for ci, cid := range cids {
			for ti, to := range timeouts {
				// full product over headers x cid x timeout; transports / protocols / call kinds rotate
				n++
				if !thorough && (ci+ti+n)%3 != 0 {
					continue
				}
				tr := transports[n%len(transports)]
				pr := protos[n%len(protos)]
				respHdr := map[string]string{"resp-" + fmt.Sprint(n%3): "rv", "é": "ü"}
				rpc := &callSpec{Kind: "rpc", Service: "Svc", Method: "Echo", WireMethod: "echo", Args: []*idl.V{iv(int64(n))}, ArgTypes: []*idl.RT{i32}, RetType: i32,
					Transport: tr, Proto: pr, Headers: hm, Cid: cid, TimeoutMs: to, Outcome: &outcomeSpec{Kind: "return", Value: iv(int64(n) + 1), RespHdr: respHdr}}
				plan.Ops = append(plan.Ops, drvOp{Op: "call", Call: rpc})
				exps = append(exps, exp{rpc, fmt.Sprintf("rpc echo headers=%v cid=%q timeout=%dms %s/%s", hm, cid, to, tr, pr)})
				if n%5 == 0 && tr != "tcp" {
					// the caller's FContext already carries response headers of the same names: left over
					// from an earlier call with the same context, or set by the application
					again := *rpc
					again.Repeat = true
					plan.Ops = append(plan.Ops, drvOp{Op: "call", Call: &again})
					exps = append(exps, exp{&again, fmt.Sprintf("rpc echo, second call with the same FContext, headers=%v cid=%q timeout=%dms %s/%s", hm, cid, to, tr, pr)})
					pre := *rpc
					pre.PresetRespHeaders = map[string]string{}
					for k := range respHdr {
						pre.PresetRespHeaders[k] = "stale"
					}
					plan.Ops = append(plan.Ops, drvOp{Op: "call", Call: &pre})
					exps = append(exps, exp{&pre, fmt.Sprintf("rpc echo, response headers preset on the caller's FContext, headers=%v cid=%q timeout=%dms %s/%s", hm, cid, to, tr, pr)})
				}
				if n%4 == 1 && tr != "tcp" {
					// the handler sets its response headers and then makes an onward call with the context it
					// was given: everything it set still reaches the caller
					on := *rpc
					on.Outcome = &outcomeSpec{Kind: "return", Value: iv(int64(n) + 1), RespHdr: respHdr, Onward: true}
					plan.Ops = append(plan.Ops, drvOp{Op: "call", Call: &on})
					exps = append(exps, exp{&on, fmt.Sprintf("rpc echo, handler makes an onward call with its own context after setting response headers, headers=%v cid=%q timeout=%dms %s/%s", hm, cid, to, tr, pr)})
				}
				if n%3 == 0 && tr != "tcp" {
					// the handler sets its response headers and then fails (undeclared error, application
					// exception): the caller gets an error, and still every response header
					for fi, fk := range []string{"error", "appexc"} {
						if !thorough && (n/3+fi)%2 != 0 {
							continue
						}
						bad := *rpc
						bad.Outcome = &outcomeSpec{Kind: fk, AppType: 6, RespHdr: respHdr}
						plan.Ops = append(plan.Ops, drvOp{Op: "call", Call: &bad})
						exps = append(exps, exp{&bad, fmt.Sprintf("rpc echo, handler fails (%s) after setting response headers, headers=%v cid=%q timeout=%dms %s/%s", fk, hm, cid, to, tr, pr)})
					}
				}
				if n%4 == 0 {
					ow := &callSpec{Kind: "rpc", Service: "Svc", Method: "Fire", WireMethod: "fire", Args: []*idl.V{iv(1)}, ArgTypes: []*idl.RT{i32}, Oneway: true,
						Transport: transports[n%2], Proto: pr, Headers: hm, Cid: cid, TimeoutMs: to, Outcome: &outcomeSpec{Kind: "return"}}
					plan.Ops = append(plan.Ops, drvOp{Op: "call", Call: ow})
					exps = append(exps, exp{ow, fmt.Sprintf("oneway fire headers=%v cid=%q timeout=%dms", hm, cid, to)})
				}
				if n%2 == 0 {
					ps := &callSpec{Kind: "pubsub", Scope: "Events", Op: "Made", PrefixArgs: []string{"bill"}, PayloadRT: pointRT, Payload: pointV(int64(n), "lbl"), Proto: pr,
						Headers: hm, Cid: cid, TimeoutMs: to}
					plan.Ops = append(plan.Ops, drvOp{Op: "call", Call: ps})
					exps = append(exps, exp{ps, fmt.Sprintf("publish Events.Made headers=%v cid=%q timeout=%dms %s", hm, cid, to, pr)})
				}
			}
		}
	}
	// several requests on ONE server connection (simple server) and through one HTTP handler, each with
	// its own set of user headers: a later request that lacks a header of an earlier one must not see it
	type serveExp struct {
		desc string
		hdrs []map[string]string
	}
	var sexps []serveExp
	firstServe := len(plan.Ops)
	hdrSeqs := [][]map[string]string{
		{{"tenant": "acme", "trace": "1"}, {}, {"trace": "2"}},
		{{}, {"a": "1"}, {"b": "2"}},
		{{"k": "v1"}, {"k": "v2"}, {}},
	}
	for _, server := range []string{"simple", "http"} {
		for pi, proto := range protos {
			for si, hs := range hdrSeqs {
				if !thorough && (pi+si)%2 == 1 && server == "http" {
					continue
				}
				cs := &callSpec{Kind: "serve", Service: "Svc", Proto: proto, Server: server}
				byOp := map[string]*outcomeSpec{}
				var fss []frameSpec
				for i, h := range hs {
					op := fmt.Sprint(200 + i)
					fss = append(fss, frameSpec{Method: "echo", MType: 1, Args: &idl.W{T: idl.TStruct, F: map[string]*idl.W{"1": i32W(int64(i))}}, OpID: op, Cid: "c" + op, Headers: h})
					byOp[op] = &outcomeSpec{Kind: "return", Value: iv(int64(i))}
				}
				raw, _ := json.Marshal(fss)
				var anyFS []map[string]interface{}
				json.Unmarshal(raw, &anyFS)
				csj, _ := json.Marshal(cs)
				var csm map[string]interface{}
				json.Unmarshal(csj, &csm)
				csm["frame_specs"] = anyFS
				csm["outcome_by_opid"] = byOp
				plan.Ops = append(plan.Ops, drvOp{Op: "call", Call: csm})
				sexps = append(sexps, serveExp{fmt.Sprintf("%s server, %s: three requests on one connection with user headers %v", server, proto, hs), hs})
			}
		}
	}
	res.Nontrivial = int64(len(plan.Ops))
	pj, _ := json.Marshal(plan)
	out, err := runDriver(u, pj)
	if err != nil {
		res.fail(finding{Key: "C09/driver-crashed", Msg: err.Error(), IDL: u.texts})
		return
	}
	var results []drvResult
	if err := json.Unmarshal(out, &results); err != nil || len(results) != len(plan.Ops) {
		res.fail(finding{Key: "C09/harness/driver-output", Msg: fmt.Sprint(err)})
		return
	}
	opids := map[string]string{}
	for j, se := range sexps {
		res.Evaluations++
		rr := results[firstServe+j]
		var cr callResult
		json.Unmarshal(rr.Call, &cr)
		bad := func(kind, msg string) {
			res.fail(finding{Key: "C09/" + kind + "/serve", IDL: u.texts, Atom: se.desc, Msg: se.desc + ": " + msg})
		}
		if rr.Panic != "" || cr.Err != "" {
			bad("call-failed", rr.Panic+cr.Err)
			continue
		}
		if len(cr.HandlerCtx) != len(se.hdrs) {
			bad("handler-invocations", fmt.Sprintf("%d handler invocations for %d requests", len(cr.HandlerCtx), len(se.hdrs)))
			continue
		}
		for _, seen := range cr.HandlerCtx {
			idx := -1
			fmt.Sscanf(seen.OpID, "%d", &idx)
			_ = idx
		}
		byCid := map[string]*ctxSeen{}
		for _, seen := range cr.HandlerCtx {
			byCid[seen.Cid] = seen
		}
		for i, want := range se.hdrs {
			seen := byCid[fmt.Sprintf("c%d", 200+i)]
			if seen == nil {
				bad("correlation-id", fmt.Sprintf("no handler saw correlation id c%d", 200+i))
				continue
			}
			got := map[string]string{}
			for k, v := range seen.Headers {
				if !strings.HasPrefix(k, "_") {
					got[k] = v
				}
			}
			if fmt.Sprint(got) != fmt.Sprint(want) {
				bad("request-header-lost-or-changed", fmt.Sprintf("the handler of request %d sees user headers %v, its caller set %v", i, got, want))
			}
		}
	}
	results = results[:firstServe]
	exps = exps[:firstServe]

	for i, rr := range results {
		res.Evaluations++
		cs, desc := exps[i].cs, exps[i].desc
		var cr callResult
		json.Unmarshal(rr.Call, &cr)
		fail := func(kind, msg string) {
			res.fail(finding{Key: "C09/" + kind + "/" + cs.Kind, IDL: u.texts, Atom: desc, Msg: desc + ": " + msg})
		}
		failing := cs.Outcome != nil && (cs.Outcome.Kind == "error" || cs.Outcome.Kind == "appexc")
		if failing {
			if rr.Panic != "" || cr.Err != "" {
				fail("call-failed", rr.Panic+cr.Err)
				continue
			}
			if cr.ErrKind == "" {
				fail("handler-failure-not-reported", "the handler failed and the caller got no error")
				continue
			}
		} else if rr.Panic != "" || cr.Err != "" || cr.ErrKind != "" {
			fail("call-failed", rr.Panic+cr.Err+cr.ErrKind+" "+cr.ErrMsg)
			continue
		}
		if cr.HandlerCalls != 1 || len(cr.HandlerCtx) != 1 {
			fail("handler-invocations", fmt.Sprintf("handler invoked %d times", cr.HandlerCalls))
			continue
		}
		seen := cr.HandlerCtx[0]
		for k, v := range cs.Headers {
			if got, ok := seen.Headers[k]; !ok || got != v {
				fail("request-header-lost-or-changed", fmt.Sprintf("handler sees %q=%q (present %v), caller set %q", k, got, ok, v))
			}
		}
		var extras []string
		for k := range seen.Headers {
			if _, ok := cs.Headers[k]; !ok && !reservedOK(k) {
				extras = append(extras, k)
			}
		}
		sort.Strings(extras)
		if len(extras) > 0 {
			fail("unexpected-header", fmt.Sprintf("handler sees headers outside the reserved namespace that the caller did not set: %v", extras))
		}
		if seen.Cid != cr.CallerCid || (cs.Cid != "" && seen.Cid != cs.Cid) {
			fail("correlation-id", fmt.Sprintf("handler cid %q, caller cid %q", seen.Cid, cr.CallerCid))
		}
		if seen.TimeoutMs != cs.TimeoutMs {
			fail("timeout", fmt.Sprintf("handler sees timeout %d ms, caller set %d ms", seen.TimeoutMs, cs.TimeoutMs))
		}
		if cs.Kind == "pubsub" {
			if seen.Headers["_topic_user"] != "bill" {
				fail("topic-variable-header", fmt.Sprintf("_topic_user = %q", seen.Headers["_topic_user"]))
			}
			continue
		}
		if seen.OpID == "" || seen.OpID == cr.CallerOpID {
			fail("handler-opid-not-fresh", fmt.Sprintf("handler context op id %q, request op id %q", seen.OpID, cr.CallerOpID))
		}
		if prev, dup := opids[seen.OpID]; dup {
			_ = prev // op ids restart per driver process only; within one plan they must be unique
			fail("handler-opid-reused", fmt.Sprintf("op id %s handed to two handler contexts", seen.OpID))
		}
		opids[seen.OpID] = desc
		if cs.Oneway {
			continue
		}
		for k, v := range cs.Outcome.RespHdr {
			if cr.RespHeaders[k] != v {
				fail("response-header-lost", fmt.Sprintf("handler set %q=%q, caller sees %q", k, v, cr.RespHeaders[k]))
			}
		}
		if cr.RespHeaders["_cid"] != cr.CallerCid {
			fail("response-cid", fmt.Sprintf("after the call the caller's FContext carries response _cid %q, the request had %q", cr.RespHeaders["_cid"], cr.CallerCid))
		}
		if cs.Transport != "tcp" {
			if len(cr.ReplyFrames) != 1 {
				fail("reply-frames", fmt.Sprintf("%d reply frames", len(cr.ReplyFrames)))
				continue
			}
			h := parseFrameHeaders(cr.ReplyFrames[0])
			if h == nil || h["_opid"] != cr.CallerOpID {
				fail("reply-opid", fmt.Sprintf("reply frame carries _opid %q, request had %q", h["_opid"], cr.CallerOpID))
			}
			if h["_cid"] != cr.CallerCid {
				fail("reply-cid", fmt.Sprintf("reply frame carries _cid %q, request had %q", h["_cid"], cr.CallerCid))
			}
		}
		if len(res.Samples) < 3 {
			res.Samples = append(res.Samples, map[string]interface{}{"case": desc, "handler_saw": seen})
		}
	}
}
