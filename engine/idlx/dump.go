package main

import (
	"fmt"
	"sort"
	"strconv"
	"strings"

	"github.com/Workiva/frugal/compiler/parser"

	"verif/idlx/idl"
)

func canonDefault(v interface{}) string {
	switch x := v.(type) {
	case nil:
		return ""
	case int64:
		return "i:" + strconv.FormatInt(x, 10)
	case int:
		return "i:" + strconv.Itoa(x)
	case float64:
		return "d:" + strconv.FormatFloat(x, 'g', -1, 64)
	case string:
		return "s:" + strconv.Quote(x)
	case bool:
		return "b:" + strconv.FormatBool(x)
	case parser.Identifier:
		return "id:" + string(x)
	case []interface{}:
		p := make([]string, len(x))
		for i, e := range x {
			p[i] = canonDefault(e)
		}
		return "[" + strings.Join(p, ",") + "]"
	case []parser.KeyValue:
		p := make([]string, len(x))
		for i, kv := range x {
			p[i] = canonDefault(kv.Key) + "=>" + canonDefault(kv.Value)
		}
		return "{" + strings.Join(p, ",") + "}"
	}
	return fmt.Sprintf("?%T", v)
}

func dumpField(f *parser.Field) idl.CField {
	m := f.Modifier
	c := idl.CField{ID: f.ID, Name: f.Name, Mod: m.String(), Type: f.Type.String(), Default: canonDefault(f.Default)}
	for _, a := range f.Annotations {
		c.Annots = append(c.Annots, a.Name+"="+a.Value)
	}
	return c
}

func dumpStruct(s *parser.Struct) idl.CStruct {
	c := idl.CStruct{Name: s.Name}
	for _, f := range s.Fields {
		c.Fields = append(c.Fields, dumpField(f))
	}
	for _, a := range s.Annotations {
		c.Annots = append(c.Annots, a.Name+"="+a.Value)
	}
	return c
}

func annSuf(a parser.Annotations) string {
	return idl.AnnotSuffix(len(a), func(i int) (string, string) { return a[i].Name, a[i].Value })
}

// dumpFrugal converts the parser's result into the canonical comparison structure.
func dumpFrugal(f *parser.Frugal) *idl.CFile {
	c := &idl.CFile{}
	for _, i := range f.Includes {
		c.Includes = append(c.Includes, i.Value)
	}
	for _, n := range f.Namespaces {
		c.Namespaces = append(c.Namespaces, n.Scope+" "+n.Value)
	}
	for _, t := range f.Typedefs {
		c.Typedefs = append(c.Typedefs, t.Name+"="+t.Type.String()+annSuf(t.Annotations))
	}
	for _, e := range f.Enums {
		ce := idl.CEnum{Name: e.Name + annSuf(e.Annotations)}
		for _, v := range e.Values {
			ce.Values = append(ce.Values, fmt.Sprintf("%s=%d", v.Name, v.Value)+annSuf(v.Annotations))
		}
		c.Enums = append(c.Enums, ce)
	}
	for _, k := range f.Constants {
		c.Consts = append(c.Consts, k.Name+":"+k.Type.String()+"="+canonDefault(k.Value)+annSuf(k.Annotations))
	}
	for _, s := range f.Structs {
		c.Structs = append(c.Structs, dumpStruct(s))
	}
	for _, s := range f.Exceptions {
		c.Exceptions = append(c.Exceptions, dumpStruct(s))
	}
	for _, s := range f.Unions {
		c.Unions = append(c.Unions, dumpStruct(s))
	}
	for _, s := range f.Services {
		cs := idl.CService{Name: s.Name + annSuf(s.Annotations), Extends: s.Extends}
		for _, m := range s.Methods {
			cm := idl.CMethod{Name: m.Name + annSuf(m.Annotations), Oneway: m.Oneway}
			if m.ReturnType != nil {
				cm.Ret = m.ReturnType.String()
			}
			for _, a := range m.Arguments {
				cm.Args = append(cm.Args, dumpField(a))
			}
			for _, a := range m.Exceptions {
				cm.Throws = append(cm.Throws, dumpField(a))
			}
			cs.Methods = append(cs.Methods, cm)
		}
		c.Services = append(c.Services, cs)
	}
	for _, s := range f.Scopes {
		cs := idl.CScope{Name: s.Name + annSuf(s.Annotations)}
		if s.Prefix != nil {
			cs.Prefix = s.Prefix.String
			cs.Vars = append(cs.Vars, s.Prefix.Variables...)
		}
		for _, o := range s.Operations {
			cs.Ops = append(cs.Ops, o.Name+":"+o.Type.String()+annSuf(o.Annotations))
		}
		c.Scopes = append(c.Scopes, cs)
	}
	sort.Slice(c.Scopes, func(i, j int) bool { return c.Scopes[i].Name < c.Scopes[j].Name })
	return c
}
