module verif/engine

go 1.21
