"""C12: size limits, exact boundaries, every shape x protocol x transport x direction."""
import json, os, subprocess, concurrent.futures as cf
import runner, e1
from runner import EngineError, GOENV, NPROC


def _shard(exe, tier, i, n):
    p = subprocess.run([exe, "-bytex", "c12", "-tier", tier, "-shard", str(i), "-nshards", str(n)],
                       env=GOENV, capture_output=True, text=True, timeout=3600)
    if p.returncode != 0 or not p.stdout.strip():
        return {"error": "shard %d exit %d: %s" % (i, p.returncode, p.stderr[-1500:])}
    return json.loads(p.stdout.strip().splitlines()[-1])


def run(ctx, spec):
    exe = e1.build(ctx)
    n = 32
    tot = dict(cases=0, nontrivial=0)
    kinds, samples, errors = {}, [], []
    with cf.ThreadPoolExecutor(max_workers=NPROC) as ex:
        for r in ex.map(lambda i: _shard(exe, ctx.tier, i, n), range(n)):
            if r.get("error"):
                errors.append(r["error"]); continue
            tot["cases"] += r["cases"]; tot["nontrivial"] += r["nontrivial"]
            for k, v in r["cases_by_kind"].items():
                kinds[k] = kinds.get(k, 0) + v
            for s in r.get("samples") or []:
                if len(samples) < 8:
                    samples.append(s)
            for fd in r.get("findings") or []:
                ctx.violation(fd["key"], fd["msg"], {"engine": "c12", "case": fd["msg"]})
    if errors:
        raise EngineError("; ".join(errors[:3]))
    cov = {"evaluations": tot["cases"], "distinct_nontrivial": tot["nontrivial"],
           "rule": "for every message shape (big string first/middle/last, big binary, big list<i32>, many small fields, trailing bool, string-last+bool) x protocol (binary, compact, JSON) x payload size class the exact framed size S is measured with an unbounded buffer and the limit placed at S-1, S, S+1, S-4, S+4, S/2, 2S (the fixed 1 MiB NATS limit: payload sized to limit-1, limit, limit+1, limit+5); non-trivial = distinct cases whose size exceeds the limit",
           "samples": samples or ["none"], "cases_by_kind": kinds, "exhaustive": True,
           "explanation": "bounded output buffer under the real protocol encoders; FStandardClient.Call over fHTTPTransport + NewFrugalHandlerFunc (in-process round trip) for request and response limits; FScopeClient.Publish over the STOMP publisher with a configured limit; request, response and publish around the fixed 1 MiB limit over the real NATS transport / server / publisher on the broker model inside a vsched execution. After each oversize failure a small call on the same client and server must succeed."}
    return runner.finish(ctx, "fault_enumeration", cov)


def replay(ctx, spec, path):
    print(open(path).read())
    return run(ctx, spec)
