"""E3 bytex: bounded-exhaustive byte strings / substituted template frames at receiving entry points."""
import json, os, subprocess, concurrent.futures as cf
import runner, e1
from runner import EngineError, GOENV, NPROC


def _shard(exe, mode, tier, i, n):
    cmd = [exe, "-bytex", mode, "-tier", tier, "-shard", str(i), "-nshards", str(n)]
    p = subprocess.run(cmd, env=dict(GOENV, GOMAXPROCS="2"), capture_output=True, text=True, timeout=3600)
    if p.returncode != 0 or not p.stdout.strip():
        return {"error": "shard %s %d/%d exit %d: %s" % (mode, i, n, p.returncode, (p.stderr or "")[-1500:].replace("\n", " | "))}
    return json.loads(p.stdout.strip().splitlines()[-1])


def run(ctx, spec):
    exe = e1.build(ctx)
    tier = ctx.tier
    plan = [("strings", 64 if tier == "quick" else 512), ("templates", 32 if tier == "quick" else 256), ("probes", 4)]
    jobs = [(m, i, n) for m, n in plan for i in range(n)]
    tot = dict(inputs=0, calls=0, skipped=0, nontrivial=0)
    per_ep, outcomes, samples, errors = {}, {}, [], []
    with cf.ThreadPoolExecutor(max_workers=NPROC) as ex:
        futs = [ex.submit(_shard, exe, m, tier, i, n) for m, i, n in jobs]
        for (m, i, n), f in zip(jobs, futs):
            r = f.result()
            if r.get("error"):
                errors.append(r["error"])
                continue
            tot["inputs"] += r["inputs"]; tot["calls"] += r["calls"]
            tot["skipped"] += r["skipped_huge_declared_size"]; tot["nontrivial"] += r.get("nontrivial", 0)
            for k, v in r["calls_per_entry_point"].items():
                per_ep[k] = per_ep.get(k, 0) + v
            for k, v in r["outcome_classes"].items():
                outcomes[k] = outcomes.get(k, 0) + v
            if r.get("samples") and len(samples) < 8:
                samples.append({"mode": m, "input_hex": r["samples"][0], "fed_to": "every entry point"})
            for fd in (r.get("findings") or []):
                ctx.violation(fd["key"], fd["msg"], {"engine": "e3", "ep": fd["ep"], "input": fd["input"], "mode": m})
    if errors:
        # a dead worker is an unrecoverable fault in some input (or an engine problem): never silent
        raise EngineError("bytex worker failure: " + "; ".join(errors[:3]))
    cov = {
        "evaluations": tot["calls"], "distinct_nontrivial": tot["nontrivial"],
        "rule": "all byte strings up to length L over {00,01,04,05,7f,80,fe,ff} raw, behind a frame size, behind version+matching header size; JSON-alphabet strings behind valid headers; every truncation, every 4-byte field substitution and boundary byte flip of 15 well-formed template frames; each fed to every synchronous receiving entry point, followed by a well-formed message to the same receiver. Non-trivial = distinct inputs of at least 5 bytes (long enough to reach the header-size field).",
        "samples": samples, "inputs": tot["inputs"], "entry_points": len(per_ep),
        "calls_per_entry_point": per_ep, "outcome_classes": outcomes,
        "skipped_huge_declared_size": tot["skipped"],
        "exhaustive": True,
        "explanation": spec.get("explanation", ""),
    }
    ctx.assumptions += spec.get("assumptions", [])
    return runner.finish(ctx, "fault_enumeration", cov)


def replay(ctx, spec, path):
    exe = e1.build(ctx)
    p = subprocess.run([exe, "-bytex", "strings", "-replay", path], env=GOENV, text=True)
    return p.returncode
