#!/bin/bash
# usage: e1build.sh <scratch-dir> [-race]
# Builds the instrumented lib/go + E1 harnesses from ${VERIF_REPO:-/repo}'s working tree into
# <scratch-dir>/e1. Exit 2 + "ENGINE-ERROR" when the instrumented build fails.
set -u
S="$1"; shift
REPO="${VERIF_REPO:-/repo}"
export GOFLAGS=-mod=mod GOPROXY=off GOSUMDB=off GOTOOLCHAIN=local
V=/verif
rm -rf "$S/libgo"; mkdir -p "$S/libgo/cmd/e1" || exit 2
if [ ! -x $V/bin/instr ]; then (cd $V/engine/instr && go build -o $V/bin/instr .) || { echo "ENGINE-ERROR: instr build"; exit 2; }; fi
for f in "$REPO"/lib/go/*.go; do case "$f" in *_test.go) ;; *) cp "$f" "$S/libgo/";; esac; done
cp "$REPO/lib/go/go.mod" "$REPO/lib/go/go.sum" "$S/libgo/"
cd "$S/libgo" || exit 2
go mod edit -require=verif/engine@v0.0.0 -replace=verif/engine=$V/engine
$V/bin/instr -dir . \
  -rewrite github.com/nats-io/nats.go=verif/engine/vsched/fakenats:nats \
  -rewrite github.com/go-stomp/stomp=verif/engine/vsched/fakestomp:stomp > "$S/instr.log" 2>&1 || { cat "$S/instr.log"; echo "ENGINE-ERROR: instrumentation failed"; exit 2; }
cp $V/harness/e1/*.go "$S/libgo/"
cat > cmd/e1/main.go <<'EOM'
package main

import frugal "github.com/Workiva/frugal/lib/go"

func main() { frugal.VerifMain() }
EOM
go build -trimpath "$@" -o "$S/e1" ./cmd/e1 > "$S/build.log" 2>&1 || { head -50 "$S/build.log"; echo "ENGINE-ERROR: instrumented build failed"; exit 2; }
echo "built $S/e1"
