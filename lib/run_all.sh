#!/bin/bash
# runs every registered check (quick unless $1 = thorough) sequentially and prints one line each
TIER=${1:-quick}
cd /verif
for id in $(python3 -c "import json; print(' '.join(c['property_id'] for c in json.load(open('MANIFEST.json'))['checks']))"); do
  s=$(date +%s)
  ./check $id --tier $TIER > /tmp/runall_$id.out 2>&1; rc=$?
  echo "$id exit=$rc $(( $(date +%s) - s ))s viol_lines=$(grep -c '^VIOLATION' /tmp/runall_$id.out) known=$(grep -c '^KNOWN-FINDING' /tmp/runall_$id.out)"
done
