"""E2 idlx: bounded-exhaustive IDL programs through the real parser / compiler / generated code."""
import json, os, subprocess, concurrent.futures as cf
import runner
from runner import EngineError, GOENV, NPROC, VERIF


def build(ctx, mr=False):
    s = ctx.mkscratch()
    env = dict(GOENV, VERIF_BUILD_MR="1") if mr else GOENV
    p = subprocess.run([os.path.join(VERIF, "lib", "e2build.sh"), s], env=env, capture_output=True, text=True)
    if p.returncode != 0:
        raise EngineError("E2 build failed:\n" + p.stdout[-3000:] + p.stderr[-2000:])
    return os.path.join(s, "idlx-bin"), os.path.join(s, "frugal")


def _shard(exe, frugal, mode, tier, i, n, work, extra):
    os.makedirs(work, exist_ok=True)
    cmd = [exe, "-mode", mode, "-tier", tier, "-shard", str(i), "-nshards", str(n), "-work", work, "-frugal", frugal, "-repo", runner.REPO] + extra
    try:
        p = subprocess.run(cmd, env=GOENV, capture_output=True, text=True, timeout=7200)
    except subprocess.TimeoutExpired:
        return {"error": "%s shard %d timed out" % (mode, i)}
    if p.returncode != 0 or not p.stdout.strip():
        return {"error": "%s shard %d exit %d: %s" % (mode, i, p.returncode, (p.stderr or p.stdout)[-1500:])}
    try:
        return json.loads(p.stdout.strip().splitlines()[-1])
    except Exception as e:
        return {"error": "%s shard %d: bad output %s" % (mode, i, e)}


def run_modes(ctx, modes, nshards=None, extra=None, mr=False):
    """Runs idlx modes sharded; returns merged (evaluations, nontrivial, samples, extras)."""
    exe, frugal = build(ctx, mr)
    if mr:
        extra = (extra or []) + ["-frugal-mr", os.path.join(ctx.scratch, "frugal-mr")]
    n = nshards or NPROC
    jobs = [(m, i) for m in modes for i in range(n)]
    tot = {"evaluations": 0, "nontrivial": 0}
    samples, extras, errors = [], {}, []
    with cf.ThreadPoolExecutor(max_workers=NPROC) as ex:
        futs = [ex.submit(_shard, exe, frugal, m, ctx.tier, i, n, os.path.join(ctx.scratch, "w_%s_%d" % (m, i)), extra or []) for m, i in jobs]
        for (m, i), f in zip(jobs, futs):
            r = f.result()
            if r.get("error"):
                errors.append(r["error"]); continue
            tot["evaluations"] += r["evaluations"]; tot["nontrivial"] += r["nontrivial"]
            for s in r.get("samples") or []:
                if len(samples) < 6:
                    samples.append(s)
            for k, v in (r.get("extra") or {}).items():
                if isinstance(v, (int, float)) and k not in ("atoms", "styles"):
                    extras[k] = extras.get(k, 0) + v
                elif isinstance(v, dict):
                    d = extras.setdefault(k, {})
                    for kk, vv in v.items():
                        d[kk] = d.get(kk, 0) + vv if isinstance(vv, (int, float)) else vv
                else:
                    extras[k] = v
            for fd in r.get("findings") or []:
                rep = {"engine": "e2", "mode": m}
                rep.update({k: fd[k] for k in fd if k not in ("key", "msg")})
                ctx.violation(fd["key"], fd["msg"], rep)
    if errors:
        raise EngineError("; ".join(errors[:3]))
    return tot, samples, extras


def run(ctx, spec):
    tot, samples, extras = run_modes(ctx, spec["modes"], spec.get("nshards"), mr=spec.get("mr", False))
    cov = {"evaluations": tot["evaluations"], "distinct_nontrivial": tot["nontrivial"], "rule": spec["rule"],
           "samples": samples or ["none"], "exhaustive": True, "explanation": spec.get("explanation", "")}
    cov.update(extras)
    ctx.assumptions += spec.get("assumptions", [])
    return runner.finish(ctx, spec.get("level", "exploration"), cov)


def replay(ctx, spec, path):
    rep = json.load(open(path))
    print(json.dumps({k: rep[k] for k in rep if k != "idl"}, indent=1)[:3000])
    for name, txt in (rep.get("idl") or {}).items():
        print("----- %s -----\n%s" % (name, txt))
    print("replay: running the check again (the case above is one atom of its enumeration)")
    return run(ctx, spec)


def run_with_e1(ctx, spec):
    """A property decided by an E2 enumeration plus E1 schedule exploration of one harness: both parts
    feed one evidence file."""
    import e1
    tot, samples, extras = run_modes(ctx, spec["modes"], spec.get("nshards"), mr=spec.get("mr", False))
    cov = {"evaluations": tot["evaluations"], "distinct_nontrivial": tot["nontrivial"], "rule": spec["rule"],
           "samples": samples or ["none"], "exhaustive": True, "explanation": spec.get("explanation", "")}
    cov.update(extras)
    sub = e1.explore(ctx, spec)
    cov["schedule_exploration"] = sub
    cov["evaluations"] += sub.get("complete_executions", 0)
    cov["exhaustive"] = cov["exhaustive"] and sub.get("exhaustive", False)
    ctx.assumptions += spec.get("assumptions", [])
    return runner.finish(ctx, spec.get("level", "exploration"), cov)
