#!/usr/bin/env python3
"""seedkeep.py <name> <property> <srcdir> <demo-dest> <detected: yes|no|after-strengthening> <checks csv> <needs text> [notes]
Stores a confirmed seeded change under /verif/seeded/<name>/."""
import sys, os, shutil, json, subprocess
name, prop, src, dest, detected, checks, needs = sys.argv[1:8]
notes = sys.argv[8] if len(sys.argv) > 8 else ""
d = os.path.join("/verif/seeded", name); os.makedirs(d, exist_ok=True)
shutil.copy(os.path.join(src, "patch.diff"), d)
if os.path.exists(os.path.join(src, "demo_test.go")):
    shutil.copy(os.path.join(src, "demo_test.go"), os.path.join(d, "demo_test.go.txt"))
if os.path.isdir(os.path.join(src, "demo")):
    # script-style demonstration: demo/run.sh builds frugal from $WORKTREE and exits non-zero when the property is broken
    shutil.rmtree(os.path.join(d, "demo"), ignore_errors=True)
    shutil.copytree(os.path.join(src, "demo"), os.path.join(d, "demo"))
    for root, _, files in os.walk(os.path.join(d, "demo")):
        for f in files:
            if f.endswith(".go"):
                os.rename(os.path.join(root, f), os.path.join(root, f + ".txt"))
if os.path.exists(os.path.join(src, "notes.md")):
    shutil.copy(os.path.join(src, "notes.md"), os.path.join(d, "author_notes.md"))
meta = {
  "breaks_property": prop,
  "needs_to_manifest": needs,
  "origin": "written by an independent sub-agent that saw only the property record and a scratch worktree",
  "confirmed_by_me": {
    "procedure": ("script-style: apply patch.diff in the scratch worktree /tmp/mrepo, run both repository test commands (must pass), run demo/run.sh with WORKTREE=/tmp/mrepo (must exit non-zero), reverse the patch and rerun (must exit 0), re-apply and run the named checks with VERIF_REPO=/tmp/mrepo" if dest == "demo/run.sh" else "") or "lib/seedtest.sh: apply patch.diff to the scratch worktree /tmp/mrepo at /repo's HEAD; run `go test -vet=off -count=1 ./...` in the worktree root and in lib/go (must pass); place the demonstration at %s and run `go test -run Seed` (must fail); reverse the patch, rerun the demonstration (must pass); re-apply and run the named checks with VERIF_REPO=/tmp/mrepo" % dest,
    "repo_tests_with_change": "pass", "demo_with_change": "fails", "demo_without_change": "passes",
    "repo_head": subprocess.run(["git","-C","/repo","rev-parse","--short","HEAD"],capture_output=True,text=True).stdout.strip(),
  },
  "demonstration_placement": dest,
  "checks_run": checks.split(","), "detected": detected, "notes": notes,
}
json.dump(meta, open(os.path.join(d, "meta.json"), "w"), indent=1)
print("kept", d)
