#!/usr/bin/env python3
"""Regenerates /verif/seeded/README.md from the meta.json files (plus the fixed prose below)."""
import json, os, glob, re
rows = []
for d in sorted(glob.glob('/verif/seeded/*/meta.json')):
    rows.append((os.path.basename(os.path.dirname(d)), json.load(open(d))))
def keys_of(m):
    ks = re.findall(r'C\d\d/[^\s,;()]+', m.get('notes', ''))
    out = []
    for k in ks:
        k = k.rstrip('.:')
        if k not in out:
            out.append(k)
    return ', '.join('`%s`' % k for k in out[:4]) or '(see meta.json)'
n = len(rows)
first = sum(1 for _, m in rows if m['detected'] == 'yes')
out = []
out.append("# Seeded property-breaking changes\n\n")
out.append("""Each directory holds one change to Workiva/frugal written by an independent sub-agent that was given
only the text of one property and a scratch worktree (nothing from /verif; in round 2 also one sentence
naming the mechanism of the round-1 change for that property, so that it would pick a different one).
Every change compiles and passes the repository's own test suite; every one comes with a demonstration
that fails with the change and passes without it. I confirmed all of that myself in the scratch worktree
`/tmp/mrepo` before keeping a change (`lib/seedtest.sh` for Go-test demonstrations, `lib/seedtest_sh.sh`
for `demo/run.sh` ones). None of them is ever applied to /repo.

* `patch.diff` — the change (`git -C <worktree> apply patch.diff`).
* `demo_test.go.txt` (place at the path in `meta.json: demonstration_placement`) or `demo/` with a
  `run.sh` taking `WORKTREE=<tree>` — the author's demonstration (`.go` files carry a `.txt` suffix so
  that they are not compiled as part of anything here).
* `author_notes.md` — the author's description. `meta.json` — what it breaks, what it needs in order
  to manifest, what I ran, which check reports it under which key.

`lib/seedrun_all.sh` is the detection regression: it applies each patch to the scratch worktree in turn
and runs the quick check of the property it breaks (evidence redirected to a scratch directory); every
line must say `DETECTED`. `lib/seedreadme.py` regenerates this file.

""")
out.append("%d changes kept; %d were reported by the check as it stood when the change arrived, %d were missed at first and led to a strengthening of the check (never to a special case for the change); all %d are reported by the **quick** tier now.\n\n" % (n, first, n - first, n))
out.append("| seeded change | property | what it needs to manifest | reported as | caught at first try? |\n|---|---|---|---|---|\n")
for name, m in rows:
    f = 'yes' if m['detected'] == 'yes' else 'no — check strengthened, then caught'
    out.append("| `%s` | %s | %s | %s | %s |\n" % (name, m['breaks_property'], m['needs_to_manifest'].replace('|', '/'), keys_of(m), f))
out.append("\n## What the misses taught\n\n| seeded change | why the check missed it, and what was added |\n|---|---|\n")
for name, m in rows:
    if m['detected'] != 'yes':
        out.append("| `%s` | %s |\n" % (name, m.get('notes', '').replace('|', '/')))
open('/verif/seeded/README.md', 'w').write(''.join(out))
print("README: %d changes, %d caught at first try" % (n, first))
