#!/bin/bash
# validates MANIFEST.json and every evidence file against the schemas
python3-vt - <<'PY'
import json, jsonschema, glob, sys
ms = json.load(open('/root/.vp/MANIFEST.schema.json')); es = json.load(open('/root/.vp/EVIDENCE.schema.json'))
m = json.load(open('/verif/MANIFEST.json')); jsonschema.validate(m, ms)
bad = 0
for c in m['checks']:
    try:
        e = json.load(open(c['evidence_file'])); jsonschema.validate(e, es)
        assert e['level'] == c['level_claimed']['category'], (e['level'], c['level_claimed']['category'])
        print(c['property_id'], 'ok', e['tier'], e['level'], e['wall_s'], 'viol', e.get('violations'))
    except Exception as ex:
        bad += 1; print(c['property_id'], 'BAD', str(ex)[:200])
sys.exit(1 if bad else 0)
PY
