#!/bin/bash
# Detection regression: applies every kept seeded change (seeded/<name>/patch.diff) to the scratch
# worktree /tmp/mrepo in turn and runs the quick check of the property it breaks against it.
# (meta.json may name another property's check under detected_by). Every line must say DETECTED. Evidence of these runs goes to a scratch directory, not /verif/evidence.
export GOFLAGS=-mod=mod GOPROXY=off GOSUMDB=off GOTOOLCHAIN=local
W=${SEED_W:-/tmp/mrepo}
git -C /repo worktree list | grep -q "$W" || git -C /repo worktree add --detach $W HEAD -f >/dev/null
git -C $W checkout -q --detach $(git -C /repo rev-parse HEAD)
EV=$(mktemp -d /tmp/seedrun_ev.XXXXXX)
rc=0
for d in /verif/seeded/*/; do
  n=$(basename $d); [ -f $d/patch.diff ] || continue
  [ -n "$1" ] && [[ "$n" != $1* ]] && continue
  p=$(python3 -c "import json;m=json.load(open('$d/meta.json'));print(m.get('detected_by') or m['breaks_property'])")
  git -C $W checkout -q -- .; git -C $W clean -fdq
  git -C $W apply $d/patch.diff || { echo "$n PATCH-DOES-NOT-APPLY"; rc=1; continue; }
  s=$(date +%s)
  VERIF_REPO=$W VERIF_EVIDENCE_DIR=$EV /verif/check $p > $EV/$n.out 2>&1; e=$?
  k=$(grep '^  key=' $EV/$n.out | head -2 | tr '\n' ' ')
  if [ $e -eq 1 ] && grep -q "^VIOLATION property=$p " $EV/$n.out; then echo "$n DETECTED by $p ($(( $(date +%s) - s ))s) $k"; else echo "$n MISSED by $p (exit $e)"; rc=1; fi
done
git -C $W checkout -q -- .; git -C $W clean -fdq
rm -rf $EV
exit $rc
