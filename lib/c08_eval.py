#!/usr/bin/env python3
"""Extracts and evaluates the topic computation of generated publishers / subscribers.
usage: c08_eval.py <manifest.json>  -> JSON on stdout: {id: {lang: {valueset_index: [topics...]}}, errors: [...]}
manifest: {"values": [[v1, v2, ...], ...], "cases": [{"id":..., "vars": [names], "dirs": {lang: dir}}]}"""
import sys, os, re, json

def walk(d, ext):
    for root, _, files in os.walk(d):
        for f in sorted(files):
            if f.endswith(ext):
                yield os.path.join(root, f)

def go_unquote(s):
    return json.loads(s)

def sprintf(fmt, args):
    out, i, n = "", 0, 0
    while i < len(fmt):
        if fmt[i] == "%" and i + 1 < len(fmt):
            if fmt[i+1] == "s":
                out += args[n]; n += 1; i += 2; continue
            if fmt[i+1] == "%":
                out += "%"; i += 2; continue
        out += fmt[i]; i += 1
    if n != len(args):
        raise ValueError("format/argument count mismatch: %r %r" % (fmt, args))
    return out

def eval_c_like(expr, env, fn):
    """expr: "lit" | fn("fmt", a, b) | identifier"""
    expr = expr.strip().rstrip(";").strip()
    m = re.match(r'^' + re.escape(fn) + r'\((".*?(?<!\\)")\s*(?:,\s*(.*))?\)$', expr)
    if m:
        fmt = go_unquote(m.group(1))
        args = [a.strip() for a in m.group(2).split(",")] if m.group(2) else []
        return sprintf(fmt, [env[a] for a in args])
    if expr.startswith('"'):
        return go_unquote(expr)
    return env[expr]

def topics_go(d, env):
    out = []
    for f in walk(d, ".go"):
        src = open(f).read()
        cur = dict(env)
        for line in src.split("\n"):
            m = re.match(r'\s*(op|prefix|topic) := (.*)$', line)
            if not m:
                continue
            cur[m.group(1)] = eval_c_like(m.group(2), cur, "fmt.Sprintf")
            if m.group(1) == "topic":
                out.append((cur.get("op"), cur["topic"]))
    return out

def topics_java(d, env):
    out = []
    for f in walk(d, ".java"):
        src = open(f).read()
        cur = dict(env)
        m = re.search(r'String DELIMITER = (".*?");', src)
        if m:
            cur["DELIMITER"] = go_unquote(m.group(1))
        for line in src.split("\n"):
            m = re.match(r'\s*(?:final )?String (op|prefix|topic) = (.*);\s*$', line)
            if not m:
                continue
            cur[m.group(1)] = eval_c_like(m.group(2), cur, "String.format")
            if m.group(1) == "topic":
                out.append((cur.get("op"), cur["topic"]))
    return out

def dart_interp(s, env):
    def rep(m):
        name = m.group(1) or m.group(2)
        return env[name]
    return re.sub(r'\$\{(\w+)\}|\$(\w+)', rep, s)

def topics_dart(d, env):
    out = []
    for f in walk(d, ".dart"):
        src = open(f).read()
        cur = dict(env)
        m = re.search(r"const String delimiter = '(.*?)';", src)
        if m:
            cur["delimiter"] = m.group(1)
        for line in src.split("\n"):
            m = re.match(r"\s*var (op|prefix|topic) = '(.*)';\s*$", line)
            if not m:
                continue
            cur[m.group(1)] = dart_interp(m.group(2), cur)
            if m.group(1) == "topic":
                out.append((cur.get("op"), cur["topic"]))
    return out

class _Self(object):
    pass

def topics_py(d, env):
    out = []
    for f in walk(d, ".py"):
        src = open(f).read()
        cur = dict(env)
        slf = _Self()
        m = re.search(r"_DELIMITER = ('.*?')", src)
        if m:
            slf._DELIMITER = eval(m.group(1))
        cur["self"] = slf
        for line in src.split("\n"):
            m = re.match(r"\s*(op|prefix|topic) = (.*)$", line)
            if not m:
                continue
            try:
                cur[m.group(1)] = eval(m.group(2), {}, cur)
            except Exception:
                if m.group(1) == "topic":
                    raise
                continue
            if m.group(1) == "topic":
                out.append((cur.get("op"), cur["topic"]))
    return out

FUN = {"go": topics_go, "java": topics_java, "dart": topics_dart, "py": topics_py, "py:asyncio": topics_py, "py:tornado": topics_py}

def main():
    man = json.load(open(sys.argv[1]))
    res, errors = {}, []
    for c in man["cases"]:
        r = {}
        for lang, d in c["dirs"].items():
            r[lang] = {}
            for vi, vals in enumerate(man["values"]):
                vs = c.get("vars") or []
                env = dict(zip(vs, vals[:len(vs)]))
                try:
                    r[lang][str(vi)] = FUN[lang](d, env)
                except Exception as e:
                    errors.append("%s %s: %s: %s" % (c["id"], lang, type(e).__name__, e))
                    r[lang][str(vi)] = None
        res[c["id"]] = r
    json.dump({"results": res, "errors": errors}, sys.stdout)

main()
