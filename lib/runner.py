"""Driver shared by all checks: argument handling, known findings, evidence, dispatch."""
import json, os, sys, time, re, shutil, tempfile, subprocess, hashlib

VERIF = os.path.dirname(os.path.dirname(os.path.abspath(__file__)))
# evidence goes to /verif/evidence; runs against deliberately changed trees (lib/seedrun_all.sh) redirect it
EVIDENCE = os.environ.get("VERIF_EVIDENCE_DIR") or os.path.join(VERIF, "evidence")
REPO = os.environ.get("VERIF_REPO", "/repo")
GOENV = dict(os.environ, GOFLAGS="-mod=mod", GOPROXY="off", GOSUMDB="off", GOTOOLCHAIN="local")
NPROC = int(os.environ.get("VERIF_JOBS", "0")) or (os.cpu_count() or 4)


class EngineError(Exception):
    pass


class Ctx:
    """State of one check run."""

    def __init__(self, pid, tier, seed):
        self.pid, self.tier, self.seed = pid, tier, seed
        self.t0 = time.time()
        self.violations = []   # dicts: key, msg, replay(dict)
        self.known = load_known(pid)
        self.scratch = None
        self.assumptions = []

    def mkscratch(self):
        if self.scratch is None:
            base = os.environ.get("VERIF_SCRATCH") or tempfile.gettempdir()
            self.scratch = tempfile.mkdtemp(prefix="verif-%s-" % self.pid, dir=base)
        return self.scratch

    def cleanup(self):
        if self.scratch and not os.environ.get("VERIF_KEEP"):
            shutil.rmtree(self.scratch, ignore_errors=True)

    def violation(self, key, msg, replay):
        """Record a violation; replay is a JSON-serialisable dict that reproduces it."""
        for v in self.violations:
            if v["key"] == key:
                return
        self.violations.append({"key": key, "msg": msg, "replay": replay})


def load_known(pid):
    """KNOWN_FINDINGS.txt lines:
       finding: property=<id> key=<stable key> <description>
       fixed: property=<id> <commit> <what failed>
    Only `finding:` lines suppress; `fixed:` lines suppress nothing."""
    out = {}
    p = os.path.join(VERIF, "KNOWN_FINDINGS.txt")
    if not os.path.exists(p):
        return out
    for line in open(p):
        line = line.strip()
        m = re.match(r"finding:\s+property=(\S+)\s+key=(\S+)\s*(.*)", line)
        if m and m.group(1) == pid:
            out[m.group(2)] = m.group(3)
    return out


def write_evidence(ctx, level, coverage, nviol):
    os.makedirs(EVIDENCE, exist_ok=True)
    ev = {
        "property_id": ctx.pid, "tier": ctx.tier, "seed": ctx.seed, "level": level,
        "coverage": coverage, "assumptions": ctx.assumptions,
        "wall_s": round(time.time() - ctx.t0, 2), "violations": nviol,
    }
    path = os.path.join(EVIDENCE, ctx.pid + ".json")
    tmp = path + ".tmp"
    with open(tmp, "w") as f:
        json.dump(ev, f, indent=1, sort_keys=True)
        f.write("\n")
    os.replace(tmp, path)


def finish(ctx, level, coverage):
    """Report violations (known vs new), write replay files and evidence, return exit code."""
    rdir = os.path.join(EVIDENCE, "replays")
    new = []
    for v in ctx.violations:
        if v["key"] in ctx.known:
            print("KNOWN-FINDING: property=%s key=%s %s" % (ctx.pid, v["key"], ctx.known[v["key"]]))
            continue
        new.append(v)
    coverage = dict(coverage)
    coverage["known_findings_observed"] = sorted(v["key"] for v in ctx.violations if v["key"] in ctx.known)
    coverage["violation_keys"] = sorted(v["key"] for v in new)
    coverage["violation_messages"] = {v["key"]: v["msg"][:400] for v in new[:200]}
    write_evidence(ctx, level, coverage, len(new))
    if not new:
        return 0
    os.makedirs(rdir, exist_ok=True)
    for i, v in enumerate(new[:200]):
        h = hashlib.sha1(v["key"].encode()).hexdigest()[:8]
        path = os.path.join(rdir, "%s-%s.json" % (ctx.pid, h))
        rep = dict(v["replay"])
        rep.setdefault("property", ctx.pid)
        rep.setdefault("key", v["key"])
        rep.setdefault("msg", v["msg"])
        with open(path, "w") as f:
            json.dump(rep, f, indent=1)
        print("VIOLATION property=%s replay=%s" % (ctx.pid, path))
        if i < 20:
            print("  key=%s" % v["key"])
            print("  " + v["msg"].replace("\n", "\n  ")[:1500])
    return 1


def main(argv):
    import argparse
    ap = argparse.ArgumentParser()
    ap.add_argument("pid")
    ap.add_argument("--tier", default=os.environ.get("VERIF_TIER", "quick"))
    ap.add_argument("--replay")
    a = ap.parse_args(argv)
    if a.tier not in ("quick", "thorough"):
        a.tier = "quick"
    try:
        seed = int(os.environ.get("VERIF_SEED", "0"))
    except ValueError:
        seed = 0
    import props
    spec = props.PROPS.get(a.pid)
    if spec is None:
        print("unknown property", a.pid, file=sys.stderr)
        return 2
    ctx = Ctx(a.pid, a.tier, seed)
    try:
        if a.replay:
            return spec["replay"](ctx, spec, a.replay)
        return spec["run"](ctx, spec)
    except EngineError as e:
        print("ENGINE-ERROR: %s" % e)
        return 2
    finally:
        ctx.cleanup()
