#!/bin/bash
# usage: e2build.sh <scratch-dir>
# Builds idlx (linked against the compiler packages of ${VERIF_REPO:-/repo}) and the frugal binary
# from the working tree into <scratch-dir>.
set -u
S="$1"
REPO="${VERIF_REPO:-/repo}"
export GOFLAGS=-mod=mod GOPROXY=off GOSUMDB=off GOTOOLCHAIN=local
V=/verif
rm -rf "$S/idlx"; mkdir -p "$S/idlx" || exit 2
cp -r $V/engine/idlx/* "$S/idlx/"
cd "$S/idlx" || exit 2
cat > go.mod <<EOM
module verif/idlx

go 1.21

require github.com/Workiva/frugal v0.0.0

replace github.com/Workiva/frugal => $REPO
EOM
cp "$REPO/go.sum" . 2>/dev/null
go mod tidy > "$S/idlx-tidy.log" 2>&1 || { tail -20 "$S/idlx-tidy.log"; echo "ENGINE-ERROR: idlx go mod tidy failed"; exit 2; }
go build -o "$S/idlx-bin" . > "$S/idlx-build.log" 2>&1 || { head -40 "$S/idlx-build.log"; echo "ENGINE-ERROR: idlx build failed (the compiler packages under test may not compile)"; exit 2; }
(cd "$REPO" && go build -o "$S/frugal" .) > "$S/frugal-build.log" 2>&1 || { head -40 "$S/frugal-build.log"; echo "ENGINE-ERROR: frugal build failed"; exit 2; }
echo "built $S/idlx-bin $S/frugal"
