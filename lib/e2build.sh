#!/bin/bash
# usage: e2build.sh <scratch-dir>
# Builds idlx (linked against the compiler packages of ${VERIF_REPO:-/repo}) and the frugal binary
# from the working tree into <scratch-dir>.
set -u
S="$1"
REPO="${VERIF_REPO:-/repo}"
export GOFLAGS=-mod=mod GOPROXY=off GOSUMDB=off GOTOOLCHAIN=local
V=/verif
rm -rf "$S/idlx"; mkdir -p "$S/idlx" || exit 2
cp -r $V/engine/idlx/* "$S/idlx/"
cd "$S/idlx" || exit 2
cat > go.mod <<EOM
module verif/idlx

go 1.21

require github.com/Workiva/frugal v0.0.0

replace github.com/Workiva/frugal => $REPO
EOM
cp "$REPO/go.sum" . 2>/dev/null
# requirements of the compiler module are taken over as they are (no tidy: it would ask for test-only
# dependencies of third-party packages that are not in the offline module cache)
sed -n '/^require/,/^)/p' "$REPO/go.mod" >> go.mod
go build -trimpath -o "$S/idlx-bin" . > "$S/idlx-build.log" 2>&1 || { head -40 "$S/idlx-build.log"; echo "ENGINE-ERROR: idlx build failed (the compiler packages under test may not compile)"; exit 2; }
(cd "$REPO" && go build -o "$S/frugal" .) > "$S/frugal-build.log" 2>&1 || { head -40 "$S/frugal-build.log"; echo "ENGINE-ERROR: frugal build failed"; exit 2; }
echo "built $S/idlx-bin $S/frugal"
# optional: instrumented compiler for C19 (map-range rewrite), built only when asked
if [ "${VERIF_BUILD_MR:-}" = "1" ]; then
  rm -rf "$S/mr"; mkdir -p "$S/mr"
  (cd "$REPO" && cp -r main.go go.mod go.sum compiler "$S/mr/") || exit 2
  cd "$S/mr" || exit 2
  find . -name '*_test.go' -delete
  rm -rf compiler/testdata
  go mod edit -require=verif/engine@v0.0.0 -replace=verif/engine=$V/engine
  if [ ! -x $V/bin/instr ]; then (cd $V/engine/instr && go build -o $V/bin/instr .) || { echo "ENGINE-ERROR: instr build"; exit 2; }; fi
  $V/bin/instr -dir . -maprange -pattern "./..." > "$S/mr-instr.log" 2>&1 || { cat "$S/mr-instr.log"; echo "ENGINE-ERROR: map-range instrumentation failed"; exit 2; }
  go build -trimpath -o "$S/frugal-mr" . > "$S/mr-build.log" 2>&1 || { head -40 "$S/mr-build.log"; echo "ENGINE-ERROR: instrumented compiler build failed"; exit 2; }
  echo "built $S/frugal-mr ($(cat $S/mr-instr.log))"
fi
