#!/bin/bash
# usage: seedtest_sh.sh <dir with patch.diff + demo/run.sh> <check ids...>
# Script-style counterpart of seedtest.sh: demo/run.sh builds frugal from $WORKTREE and exits
# non-zero when the property is broken.
D="$1"; shift
export GOFLAGS=-mod=mod GOPROXY=off GOSUMDB=off GOTOOLCHAIN=local
W=${SEED_W:-/tmp/mrepo}
git -C /repo worktree list | grep -q "$W" || git -C /repo worktree add --detach $W HEAD -f >/dev/null
git -C $W checkout -q --detach $(git -C /repo rev-parse HEAD); git -C $W checkout -q -- .; git -C $W clean -fdq
git -C $W apply "$D/patch.diff" || { echo "PATCH-DOES-NOT-APPLY"; exit 3; }
T1=$( (cd $W && go test -vet=off -count=1 ./... 2>&1 | grep -c "^FAIL") ); T2=$( (cd $W/lib/go && go test -vet=off -count=1 ./... 2>&1 | grep -c "^FAIL") )
echo "repo tests with change: root FAIL lines=$T1 lib/go FAIL lines=$T2"
WORKTREE=$W bash "$D/demo/run.sh" $W > /tmp/seed_demo_with${SEED_TAG:-}.out 2>&1; echo "demo with change: exit=$?"
git -C $W apply -R "$D/patch.diff"
WORKTREE=$W bash "$D/demo/run.sh" $W > /tmp/seed_demo_without${SEED_TAG:-}.out 2>&1; echo "demo without change: exit=$?"
git -C $W apply "$D/patch.diff"
for c in "$@"; do
  VERIF_EVIDENCE_DIR=/tmp/seed_ev${SEED_TAG:-} VERIF_REPO=$W /verif/check $c > /tmp/seed_check_${SEED_TAG:-}$c.out 2>&1; rc=$?
  echo "check $c exit=$rc keys: $(grep '^  key=' /tmp/seed_check_${SEED_TAG:-}$c.out | head -4 | tr '\n' ' ')"
done
git -C $W checkout -q -- .; git -C $W clean -fdq
rm -rf /verif/evidence/replays
