"""Round-3 task files: same template as round 2, both earlier mechanisms excluded."""
import re, os
src = open(os.path.join(os.path.dirname(__file__), 'gen_round2.py')).read()
# run everything of round 2 except the final loop that writes files
head, tail = src.split("for id,x in T.items():", 1)
ns = {}
exec(head, ns)
T, props = ns['T'], ns['props']
second = {
 'C01': "a free list of result channels released before Unregister (a duplicate completing another request)",
 'C02': "optional enum fields without default generated as non-pointers (zero member looks unset)",
 'C03': "the processor's exception type switch de-duplicated by bare type name",
 'C04': "addHeadersToFrame mis-sizing the frame when a header is replaced",
 'C05': "the HTTP client's response frame-size check being off by four",
 'C06': "a duplicate response for a still-registered request treated as a fatal error by the adapter read loop",
 'C07': "all subscriptions of one builder-built NATS subscriber factory sharing one work queue and quit channel",
 'C08': "the Python asyncio/tornado subscriber delimiter frozen in a package-level variable",
 'C09': "reply headers not replacing response headers already present on a reused FContext",
 'C10': "a duplicate-enumerator check whose 'seen' set spans all enums of a file",
 'C11': "the Go generator caching struct-ness by bare type name across files",
 'C12': "the NATS transport's GetRequestSizeLimit subtracting the frame prefix twice",
 'C13': "the HTTP transport's deadline being disarmed once response headers arrived (body stall unbounded)",
 'C14': "Process returning the PROTOCOL_ERROR so that per-message servers drop the reply",
 'C15': "one TFramedTransport reader reused across sessions (frame state leaking into the reopened session)",
 'C16': "lazy middleware chain composition keeping the caller's slice (aliasing between two objects)",
 'C17': "Clone taking the read lock recursively (deadlock with a pending writer)",
 'C18': "an added required field in the middle of the id range only producing a warning",
 'C19': "Go method annotations emitted by ranging over a map",
 'C20': "the drain wait being bounded by the connection's DrainTimeout",
}
extra = {
 'C01': "the NATS client transport (`nats_transport.go`): reply subject / inbox parsing, the 503 no-responders path completing the wrong request, a handler that executes frames for op ids parsed from the subject instead of the frame; op id header parsing (`getOpID`, strconv base / width); Register accepting a second registration for an op id that is in flight (an FContext reused concurrently) and handing the response to the wrong waiter",
 'C06': "the NATS client transport's message callback doing something blocking (a synchronous log / a channel with no buffer) for one kind of message (status messages, frames for unknown op ids, frames shorter than a header); the adapter's read loop sleeping / backing off after a dropped frame; `Unregister` waiting for something the reader provides",
 'C13': "the NATS client transport (`nats_transport.go` Request / Oneway): the timeout taken from the wrong place or unit, a select that waits for the response before arming the timer when the publish is slow, a retry loop on SERVICE_NOT_AVAILABLE that ignores the deadline; `FContext.Timeout()` default handling (zero / negative / header-set timeouts); the adapter transport's Oneway path",
 'C07': "the STOMP transports (`stomp_transport.go`): ack handling, the processing goroutine and Unsubscribe, header/destination formatting, size-prefix handling on publish; the generated subscriber `recv<Op>` callback (op name check, protocol errors, panics in handlers)",
 'C15': "`transport_monitor.go` (BaseFTransportMonitor back-off arithmetic, attempt counting, MaxWait clamping, the monitorRunner loop: what it does when the reopen succeeds but the transport fails again at once, when Close is called during a wait) and `fBaseTransport` close-signal handling",
 'C17': "op id generation (`getNextOpID`, atomic vs plain increments on one route such as contexts built by ReadRequestHeader / ReadResponseHeader), correlation id generation, header accessors returning internal maps, `RequestHeader` / `ResponseHeader` single-key accessors skipping the lock, SetTimeout/Timeout encoding through headers",
 'C20': "workers and the queue: a worker that stops on a processor error or panic and leaves the queue unserved; the `workC` buffer created with the wrong length so that Stop with exactly queue-length pending requests loses one; `Stop` called before `Serve` has subscribed; the reply published through a connection flush that is skipped for the last message; message age / high-watermark logging with side effects",
 'C14': "the simple server (`simple_server.go`): one connection's failure stopping the accept loop or other connections, the write mutex, a oneway request followed by a two-way request on the same connection, a reply flushed before it is complete for large results; `NewFrugalHandlerFunc` (HTTP): response size limit header handling, content-transfer-encoding, a oneway answered with a non-empty body",
 'C05': "the NATS server / subscriber callbacks and `fBaseTransport.ExecuteFrame` for messages of 0..4 bytes; `TFramedTransport`-based reads in the adapter loop for frame sizes of 0, negative or above the limit (huge allocation / hang); `unmarshalHeadersFromFrame` when the frame ends inside the preamble; STOMP frames; the HTTP *server* handler's base64 / length checks",
 'C04': "`marshalHeaders` / `calculateHeaderSize` on the write side (lengths through a narrower integer type, rune count vs byte length, a pair skipped for an empty name), `writeHeader` behaviour for maps of a particular size, the stream reader (`unmarshalHeaders`) consuming one byte too many or too few of the payload, invalid UTF-8 byte strings",
 'C12': "the HTTP transports (request size limit with `>=` vs `>`, the client-requested response limit header parsed or compared wrongly for a boundary value, 413 mapping), the STOMP and NATS *publisher* size checks (prefix counted or not), `FBaseProcessor`/server-side bounded buffer construction with limit 0 meaning unlimited",
 'C09': "the timeout header (`_timeout` encoding/decoding: unit, truncation, overflow for long timeouts, zero meaning default on one side only), correlation id handling when the caller supplies one (empty string, very long), the fresh op id on the handler's context (reused across requests, or equal to the request's), the subscriber path (`ReadRequestHeader` for publishes) vs the RPC path treating headers differently",
 'C16': "`composeMiddleware` order for exactly two entries, `AddMiddleware` after the first call, provider middleware applied twice when a client is built from a provider that was itself built from a provider's middleware, `Method.Invoke` argument slice shared between nested middleware (a middleware that appends / reslices arguments), the error result position for methods with no return value",
 'C02': "containers of containers (list<map<…>>, map with list values) and their element type constants; `set<T>` handling; `binary` vs `string` inside containers; defaults for container-typed fields (list / map literals) emitted wrongly for one shape; required fields with defaults; union `CountSetFields` for container members; struct-typed map values being nil; i8/byte, double in compact/JSON",
 'C03': "argument order / ids (non-consecutive ids, ids starting above 1, many arguments), `...Async`/oneway handling, methods inherited across two levels of `extends` or from an include with a namespace different from its file name, return types that are typedefs of containers or of structs from an include, the `Result` struct's `success` field for `binary` / enum returns, method names needing Go name mangling (`get_thing`, `type`, `New`)",
 'C08': "the Java generator (topic built with String.format and the prefix variables in a different order than the method parameters; the subscriber using a different parameter order than the publisher), the Dart generator, prefixes with a variable used twice, variables adjacent to literal text (`v{a}x`), and scope / operation names that need escaping in one language",
 'C10': "docstrings and comments in unusual places; the separator handling of one list kind; string literal escapes; double literals; const maps / lists nesting; `required`/`optional` handling; struct-level vs field-level annotations being swapped; namespace scopes with dots or `*`; include paths with directories; a service `extends` parsed with surrounding whitespace; operation / method docstrings attached to the wrong item",
 'C11': "an option-dependent code path of one generator (go `slim`, `package_prefix`, `async`; java `boxed_primitives`, `generated_annotations`; dart `use_enums`, `use_vendor`; py `package_prefix`, asyncio / tornado) that breaks for a particular declaration shape (empty struct, service without methods, scope without operations, exception as a field type, typedef of a container of enums, constants of struct type); the html or json generator for a particular shape",
 'C18': "services and scopes (`checkServices`, `checkScopes`: method / operation removal at a later position, argument changes, exception changes for non-void methods, prefix comparison normalisation), enums (value removal vs renumbering), unions, constants, and the handling of *included* files (a breaking change inside an include that the main file uses)",
 'C19': "a different target (java, python, html, json) or a different mechanism (paths, working directory, `-out`, state between two in-process compilations, include processing order depending on the file system or on the order of parsing)",
}
for id, x in T.items():
    x['avoid'] = x['avoid'] + "; nor " + second[id]
    x['ideas'] = extra[id]
ns['COMMON_HEAD'] = ns['COMMON_HEAD'].replace("**Do NOT use this mechanism (it has been done already):", "Do not use `git stash` (the stash is shared between worktrees): flip your change with `git diff > /tmp/seed_out/{id}/patch.diff && git apply -R /tmp/seed_out/{id}/patch.diff` and re-apply with `git apply`.\n\n**Do NOT use these mechanisms (they have been done already):").replace("Pick a clearly different part of the mechanism.", "Pick a clearly different part of the code.")
exec("for id,x in T.items():" + tail, ns)
