"""Round-6 task files: same template, the five earlier mechanisms per property excluded."""
import os
src = open(os.path.join(os.path.dirname(__file__), 'gen_round5.py')).read()
head = src.rsplit('exec("for id,x in T.items():" + tail, ns)', 1)[0]
g = {'__file__': os.path.join(os.path.dirname(__file__), 'gen_round5.py')}
exec(head, g)
T, ns, tail = g['T'], g['ns'], g['tail']
fifth = {
 'C01': "a hand-written op-id parser that wraps beyond 64 bits",
 'C02': "an UnderlyingType cache keyed by the typedef name without its include prefix",
 'C03': "the Go client reporting MISSING_RESULT when a handler returns a nil collection",
 'C04': "stream header reads borrowing one process-wide scratch buffer",
 'C05': "the HTTP handler checking the undecoded base64 length before slicing the frame",
 'C06': "a chunked frame read in the adapter transport that waits for the next frame at multiples of the chunk size",
 'C07': "the STOMP publisher transport caching the first destination",
 'C08': "prefix variables sorted in place by a validation",
 'C09': "a cached encoding of the request headers that SetTimeout does not invalidate",
 'C10': "block-comment bodies scanned with character classes that swallow the terminator's star",
 'C11': "the Go name-mangling rule for constructor-like names applied at declarations but not at references",
 'C12': "SendReply returning the final flush error without converting it into the RESPONSE_TOO_LARGE reply",
 'C13': "a cached timeout value in FContext that ignores the _timeout header",
 'C14': "the HTTP handler taking the request body with a single Read",
 'C15': "the monitor retrying the reopen when Open succeeded but IsOpen is false",
 'C16': "AddMiddleware de-duplicating middleware by code pointer",
 'C17': "WriteRequestHeader / WriteResponseHeader marshalling the context's live map without the lock",
 'C18': "scope prefix normalisation blanking bare variable names instead of the placeholders",
 'C19': "a process-wide cache of parsed files shared between compilations",
 'C20': "a NATS server worker that exits on an undersized request",
}
for id, x in T.items():
    x['avoid'] = x['avoid'] + "; nor " + fifth[id]
exec("for id,x in T.items():" + tail, ns)
