"""Round-7 task files: same template, the six earlier mechanisms per property excluded."""
import os
src = open(os.path.join(os.path.dirname(__file__), 'gen_round6.py')).read()
head = src.rsplit('exec("for id,x in T.items():" + tail, ns)', 1)[0]
g = {'__file__': os.path.join(os.path.dirname(__file__), 'gen_round6.py')}
exec(head, g)
T, ns, tail = g['T'], g['ns'], g['tail']
sixth = {
 'C01': "a fast path that hands any arriving frame to the sole request in flight",
 'C02': "list literals losing repeated members",
 'C03': "a processor map keyed by the lower-cased method name",
 'C04': "invalid UTF-8 in header values rewritten before writing",
 'C05': "the adapter read loop allocating a negative frame size",
 'C06': "unregister spinning after a frame for an unknown op id",
 'C07': "one NATS subscription per worker without a queue group",
 'C08': "the Python publisher dropping the title-case for prefix-less topics",
 'C09': "response headers dropped when the reply is an exception message",
 'C10': "the throws check losing typedefs of included exceptions",
 'C11': "Go pointer helpers applied to optional fields with defaults",
 'C12': "the HTTP transport builder writing its limits into a shared user header map; nor the HTTP response limit compared with the encoded body",
 'C13': "the adapter transport restarting the timeout clock after sending",
 'C14': "an HTTP handler buffer pool that returns unreset buffers after a refused reply",
 'C15': "a check-then-act race in Open that installs two sessions",
 'C16': "the invocation handler writing results into the caller's argument list",
 'C17': "response headers merged by copy-and-swap",
 'C18': "a method moved to a parent service tolerated without comparing it",
 'C19': "the Java @Generated annotation carrying the absolute IDL path",
 'C20': "a request dropped after waiting at a full work queue",
}
for id, x in T.items():
    x['avoid'] = x['avoid'] + "; nor " + sixth[id]
exec("for id,x in T.items():" + tail, ns)
