"""Round-5 task files: same template, the four earlier mechanisms per property excluded."""
import os
src = open(os.path.join(os.path.dirname(__file__), 'gen_round4.py')).read()
head = src.rsplit('exec("for id,x in T.items():" + tail, ns)', 1)[0]
g = {'__file__': os.path.join(os.path.dirname(__file__), 'gen_round4.py')}
exec(head, g)
T, ns, tail = g['T'], g['ns'], g['tail']
fourth = {
 'C01': "a duplicate-response error that closes the adapter transport",
 'C02': "the Go generator spelling out an included constant's value inside the including package",
 'C03': "pooled request buffers in FStandardClient that alias a payload not yet sent",
 'C04': "a chunked header read that swallows payload bytes",
 'C05': "error returns in the unknown-method branch that leave the write mutex locked",
 'C06': "the NATS status-message handler blocking on a second no-responders status",
 'C07': "NATS subscriber overflow goroutines that reorder messages when the work queue is full",
 'C08': "dots inside a Dart prefix replaced by the delimiter",
 'C09': "empty header values rejected by the header decoder",
 'C10': "the include name cut at the first dot of the include path",
 'C11': "the include collection skipping the value type of a map",
 'C12': "pooled HTTP handler buffers that keep an oversize response",
 'C13': "the NATS publish flushing before the timeout timer is armed",
 'C14': "accept-loop goroutines sharing the loop's client variable",
 'C15': "the monitor discarding the close signal after a reopen",
 'C16': "a fast path for methods without constructor middleware that ignores AddMiddleware",
 'C17': "SetTimeout taking a different lock than the readers",
 'C18': "arguments of oneway methods not compared by the audit",
 'C19': "Python __init__.py creation depending on how -out is spelled",
 'C20': "a request-started hook whose mutex leaks",
}
for id, x in T.items():
    x['avoid'] = x['avoid'] + "; nor " + fourth[id]
exec("for id,x in T.items():" + tail, ns)
