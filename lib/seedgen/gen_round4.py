"""Round-4 task files: same template, the three earlier mechanisms per property excluded."""
import os
src = open(os.path.join(os.path.dirname(__file__), 'gen_round3.py')).read()
head = src.split('exec("for id,x in T.items():" + tail, ns)')[0]
g = {'__file__': os.path.join(os.path.dirname(__file__), 'gen_round3.py')}
exec(head, g)
T, ns, tail = g['T'], g['ns'], g['tail']
third = {
 'C01': "the NATS client transport matching a response to a request by its reply subject instead of the frame's op id",
 'C02': "double defaults / constants formatted through float32",
 'C03': "the Go client sending a lower-cased leading initialism as the method name on the wire",
 'C04': "marshalHeaders writing the total size into a buffer that append has since reallocated",
 'C05': "the NATS server worker's error log slicing frames shorter than 4 bytes",
 'C06': "a log-rate limiter that sleeps on the inbound goroutine after ten dropped frames",
 'C07': "a STOMP ack semaphore whose slot leaks when an ack fails",
 'C08': "the Go publisher passing prefix variables positionally in a different order than its internal method expects",
 'C09': "the processor replacing a non-positive request timeout by the default",
 'C10': "a fast path for string literals that trims every leading / trailing quote character",
 'C11': "the Go generator emitting 1e-06.0 for small / large double literals",
 'C12': "a client-side HTTP response limit check on the framed size",
 'C13': "the adapter transport's Oneway writing on the calling goroutine without a deadline select",
 'C14': "the processor's write mutex left locked when the unknown-method reply cannot be written",
 'C15': "the monitor's failed-reopen counter never reset after a successful reopen",
 'C16': "nil results losing their static type in the innermost invocation handler",
 'C17': "Clone not copying a newly added exact-timeout field",
 'C18': "service extends compared after stripping the include qualifier",
 'C19': "includes resolved against the working directory before the including file's directory",
 'C20': "Stop's hand-off to Serve made non-blocking (no-op while Serve is still starting up)",
}
for id, x in T.items():
    x['avoid'] = x['avoid'] + "; nor " + third[id]
    x['ideas'] = "anything realistic in the listed files that none of the excluded mechanisms touches — read the code for an assumption that holds in all the existing tests but not in general (a second caller, a second call on the same object, an empty or very large value, an error on one particular path, an option that is off by default, a name that occurs twice, a particular order of two events) and break exactly that. " + x['ideas']
exec("for id,x in T.items():" + tail, ns)
