"""Round-8 task files: same template; every mechanism kept so far for the property is excluded
(the exclusion list is the humanised directory names of /verif/seeded/<id>-*)."""
import os, glob, sys
src = open(os.path.join(os.path.dirname(__file__), 'gen_round2.py')).read()
head = src.rsplit('for id,x in T.items():', 1)[0]
tail = 'for id,x in T.items():' + src.rsplit('for id,x in T.items():', 1)[1]
g = {}
exec(head, g)
T = g['T']
want = sys.argv[1:] or sorted(T)
for id in list(T):
    if id not in want:
        del T[id]; continue
    done = [os.path.basename(d)[4:].replace('-', ' ') for d in sorted(glob.glob('/verif/seeded/%s-*' % id) + glob.glob('/verif/seeded/_not-kept/%s-*' % id))]
    T[id]['avoid'] = "NONE of these, all done already: " + "; ".join(done)
exec(tail, g)
