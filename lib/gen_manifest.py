#!/usr/bin/env python3
"""Regenerates /verif/MANIFEST.json from lib/props.py and lib/manifest_meta.py."""
import json, os, sys
sys.path.insert(0, os.path.dirname(os.path.abspath(__file__)))
import props, manifest_meta as mm

V = os.path.dirname(os.path.dirname(os.path.abspath(__file__)))
ids = [json.loads(l)["id"] for l in open(os.path.join(V, "properties.jsonl"))]
checks, na = [], []
for i in ids:
    if i in props.PROPS and i in mm.CHECKS:
        c = mm.CHECKS[i]
        checks.append({
            "property_id": i,
            "quick_cmd": "./check %s --tier quick" % i,
            "thorough_cmd": "./check %s --tier thorough" % i,
            "evidence_file": "/verif/evidence/%s.json" % i,
            "replay_cmd_template": "./check %s --replay {path}" % i,
            "engine": c["engine"],
            "level_claimed": {"category": props.PROPS[i].get("level", "model_checking"), "text": c["text"], "design_ref": c["design_ref"]},
            "level_note": c["note"],
            "technique": c["technique"],
        })
    else:
        na.append({"property_id": i, "reason": mm.NOT_APPLICABLE.get(i, "check not built yet (work in progress; see DESIGN.md)")})
m = {
    "version": 1,
    "setup_cmd": "bash /verif/setup.sh",
    "hooks": {
        "guard": "verif",
        "enable": "no hook lives in /repo: every check copies /repo's working tree to a scratch directory, instruments it there (engine/instr) and adds harness files; nothing is built with the guard inside /repo",
        "baseline_off_cmd": "export GOFLAGS=-mod=mod GOPROXY=off GOSUMDB=off GOTOOLCHAIN=local; (cd /repo && go test -vet=off -count=1 ./...) && (cd /repo/lib/go && go test -vet=off -count=1 ./...)",
        "source_commits": [],
        "add_only": True,
    },
    "engines": mm.ENGINES,
    "checks": checks,
    "not_applicable": na,
    "notes": mm.NOTES,
}
json.dump(m, open(os.path.join(V, "MANIFEST.json"), "w"), indent=1)
print("checks:", [c["property_id"] for c in checks], "pending:", [n["property_id"] for n in na])
