"""C04: header codec, every header map with <= 3 entries, Go paths vs reference vs Python codec."""
import json, os, subprocess, concurrent.futures as cf
import runner, e1
from runner import EngineError, GOENV, NPROC, REPO, VERIF


def _shard(exe, tier, i, n, out):
    p = subprocess.run([exe, "-bytex", "c04", "-tier", tier, "-shard", str(i), "-nshards", str(n), "-scenario", out],
                       env=GOENV, capture_output=True, text=True, timeout=1800)
    if p.returncode != 0 or not p.stdout.strip():
        return {"error": "go shard %d exit %d: %s" % (i, p.returncode, p.stderr[-1500:])}
    r = json.loads(p.stdout.strip().splitlines()[-1])
    q = subprocess.run(["python3", os.path.join(VERIF, "lib", "pyhdr.py"), REPO, out], capture_output=True, text=True, timeout=1800)
    if q.returncode != 0 or not q.stdout.strip():
        return {"error": "python shard %d exit %d: %s" % (i, q.returncode, q.stderr[-1500:])}
    r["py"] = json.loads(q.stdout.strip().splitlines()[-1])
    return r


def run(ctx, spec):
    exe = e1.build(ctx)
    s = ctx.mkscratch()
    n = 16
    tot = dict(cases=0, checks=0, nontrivial=0, py_cases=0, py_checks=0)
    samples, errors = [], []
    with cf.ThreadPoolExecutor(max_workers=NPROC) as ex:
        futs = [ex.submit(_shard, exe, ctx.tier, i, n, os.path.join(s, "py%d.txt" % i)) for i in range(n)]
        for f in futs:
            r = f.result()
            if r.get("error"):
                errors.append(r["error"]); continue
            tot["cases"] += r["cases"]; tot["checks"] += r["checks"]; tot["nontrivial"] += r["nontrivial"]
            tot["py_cases"] += r["py"]["cases"]; tot["py_checks"] += r["py"]["checks"]
            for sm in r.get("samples") or []:
                if len(samples) < 6:
                    samples.append({"header_map": json.loads(sm), "payloads": ["", "07", "<bytes that look like a header block>", "1 KiB"]})
            for fd in (r.get("findings") or []):
                ctx.violation(fd["key"], fd["msg"], {"engine": "c04", "map": fd.get("input"), "check": fd["key"]})
            for fd in r["py"]["findings"]:
                ctx.violation(fd["key"], fd["msg"], {"engine": "c04", "check": fd["key"], "side": "python"})
    if errors:
        raise EngineError("; ".join(errors[:3]))
    cov = {"evaluations": tot["checks"] + tot["py_checks"], "distinct_nontrivial": tot["nontrivial"],
           "rule": "every header map with 0..3 entries (4 in thorough over the short strings) whose names and values range over {'', 'a', '_cid', 'é', '日本', NUL, 255 x, 256 y}, plus op-id carrying maps, non-UTF-8 bytes and 70000-byte strings; each followed by 4 payloads; non-trivial = distinct non-empty maps",
           "samples": samples, "header_maps": tot["cases"], "go_checks": tot["checks"],
           "python_cases": tot["py_cases"], "python_checks": tot["py_checks"], "exhaustive": True,
           "explanation": "Go: writeHeader / WriteRequestHeader / WriteResponseHeader bytes against the documented layout (version 0, big-endian total = sum(8+|k|+|v|), pairs as a set) checked by an independent reference parser; readHeader (stream), getHeadersFromFrame, addHeadersToFrame, ReadRequestHeader on the code's own bytes and on reference encodings, payload untouched and transport positioned at its first byte. Python: lib/python/frugal/util/headers.py _read, decode_from_frame and _write_to_bytearray on the same cases."}
    # concurrent use of the codec from several goroutines, each on its own stream (E1 harness "hdrs")
    sub = e1.explore(ctx, {"harnesses": ["hdrs"], "budget": {"quick": 120, "thorough": 300}, "bound": {},
                           "explanation": "two or three goroutines read / write headers on their own streams, which hand bytes out three at a time with a scheduling point per piece; every reader must end up with its own stream's headers and payload position, every writer's stream with its own headers"})
    cov["schedule_exploration"] = sub
    cov["evaluations"] += sub.get("complete_executions", 0)
    cov["exhaustive"] = cov["exhaustive"] and sub.get("exhaustive", False)
    ctx.assumptions += ["contrib/frame_parser.py (Python 2 only) is not exercised", "unmarshalFrame has no non-test caller and is not treated as a receive path"]
    return runner.finish(ctx, "exploration", cov)


def replay(ctx, spec, path):
    print(open(path).read())
    print("replay: re-run ./check C04 (the case is a single header map, enumeration is < 10 s)")
    return run(ctx, spec)
