#!/usr/bin/env python3
"""Cross-checks the Python runtime's header codec (lib/python/frugal/util/headers.py) against bytes
written by the Go runtime and against an independent reference parser.
usage: pyhdr.py <repo> <casefile>...   (case line: hex(header bytes) TAB json(map) TAB hex(payload))
prints one JSON object."""
import sys, types, json, io, struct, importlib.util, binascii

repo = sys.argv[1]
# minimal stand-in for the missing `thrift` package
thrift = types.ModuleType("thrift"); proto = types.ModuleType("thrift.protocol"); tp = types.ModuleType("thrift.protocol.TProtocol")
class TProtocolException(Exception):
    UNKNOWN = 0; INVALID_DATA = 1; NEGATIVE_SIZE = 2; SIZE_LIMIT = 3; BAD_VERSION = 4
    def __init__(self, type=0, message=None):
        Exception.__init__(self, message); self.type = type
tp.TProtocolException = TProtocolException
sys.modules["thrift"] = thrift; sys.modules["thrift.protocol"] = proto; sys.modules["thrift.protocol.TProtocol"] = tp
spec = importlib.util.spec_from_file_location("frugal_headers", repo + "/lib/python/frugal/util/headers.py")
mod = importlib.util.module_from_spec(spec); spec.loader.exec_module(mod)
H = mod._Headers
import logging; logging.disable(logging.CRITICAL)

def ref_parse(b):
    assert b[0] == 0
    n = struct.unpack(">I", b[1:5])[0]
    hb = b[5:5 + n]; out = {}; i = 0
    while i < len(hb):
        l = struct.unpack(">I", hb[i:i + 4])[0]; i += 4
        k = hb[i:i + l]; i += l
        l = struct.unpack(">I", hb[i:i + 4])[0]; i += 4
        v = hb[i:i + l]; i += l
        out[k.decode("utf8")] = v.decode("utf8")
    return out, b[5 + n:], n

cases = checks = 0
findings = {}
def fail(key, msg):
    findings.setdefault(key, msg)
for path in sys.argv[2:]:
    for line in open(path):
        hx, js, pl = line.rstrip("\n").split("\t")
        want = json.loads(js); b = binascii.unhexlify(hx); payload = binascii.unhexlify(pl)
        cases += 1
        short = js[:200]
        try:
            r = io.BytesIO(b + payload)
            got = H._read(r)
            checks += 1
            if got != want:
                fail("C04/python-stream-read", "Python _read of Go-written bytes gives a different map for %s" % short)
            elif r.read() != payload:
                fail("C04/python-stream-read-payload", "Python _read consumed or left the wrong bytes for %s" % short)
            got = H.decode_from_frame(b + payload) if len(b + payload) >= 5 else want
            checks += 1
            if got != want:
                fail("C04/python-frame-read", "Python decode_from_frame of Go-written bytes gives a different map for %s" % short)
            enc = bytes(H._write_to_bytearray(want))
            m2, rest, n = ref_parse(enc)
            checks += 1
            if m2 != want or rest != b"" or n != sum(8 + len(k.encode("utf8")) + len(v.encode("utf8")) for k, v in want.items()):
                fail("C04/python-write-layout", "Python-written bytes do not follow the documented layout for %s" % short)
            if sorted(enc) != sorted(b) or len(enc) != len(b):
                fail("C04/python-go-bytes-differ", "Python and Go encodings differ beyond pair order for %s" % short)
        except Exception as e:
            fail("C04/python-exception/" + type(e).__name__, "Python codec raised %r for %s" % (e, short))
print(json.dumps({"cases": cases, "checks": checks, "findings": [{"key": k, "msg": v} for k, v in findings.items()]}))
