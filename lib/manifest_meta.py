"""Texts for MANIFEST.json (kept next to props.py so the two stay consistent)."""

ENGINES = [
    {"name": "e1-vsched", "path": "/verif/engine/vsched", "serves_properties": ["C01", "C06", "C07", "C13", "C15", "C17", "C20"],
     "kind_free_text": "controlled cooperative scheduler + AST instrumenter for lib/go; stateless DFS over choice sequences with deviation bounding and happens-before state-key pruning; explores the real code, no model"},
]

ENGINES.append({"name": "e3-bytex", "path": "/verif/harness/e1/vb_bytex.go", "serves_properties": ["C04", "C05", "C12"],
     "kind_free_text": "bounded-exhaustive byte strings, template-field substitutions and truncations at every synchronous receiving entry point; each input runs inside its own vsched execution so blocking forever is a detected end state"})

ENGINES.append({"name": "e2-idlx", "path": "/verif/engine/idlx", "serves_properties": ["C10"],
     "kind_free_text": "independent IDL model + renderer + atom enumerator; programs go through the real parser / compiler (linked from the tree under test) and are compared with the model"})

NOTES = ("Every check rebuilds from /repo's working tree (override: VERIF_REPO) into a mktemp scratch dir that is removed on exit. "
         "KNOWN_FINDINGS.txt lists fixed and open findings; only `finding:` lines suppress a violation.")

E1_NOTE = ("Trusted base: the vsched scheduler/shims (engine/vsched), the instrumenter (engine/instr), the harness fakes (in-memory pipe, fakenats, fakestomp), Apache Thrift and logrus as linked. "
           "Schedules are enumerated at synchronisation operations; plain data races are outside the search. Bounds as stated in the evidence (deviation bound, participants, sequence length).")

CHECKS = {
    "C01": dict(engine="e1-vsched", design_ref="DESIGN.md §4 C01", technique="stateless model checking of the implementation (deviation-bounded DFS over a controlled scheduler, all peer response sequences)",
                text="Exhaustive enumeration of all interleavings (up to the stated deviation bound) of 2-3 concurrent Request calls, the real read loop, send goroutines and context timers of fAdapterTransport, for every response sequence of length 3-4 over {own, other, unknown op id} arriving at every possible moment; oracle: a caller completes only with a frame carrying its own op id that the peer really sent, otherwise times out; registry empty afterwards; no panic.",
                note=E1_NOTE),
    "C06": dict(engine="e1-vsched", design_ref="DESIGN.md §4 C06", technique="stateless model checking of the implementation (deviation-bounded DFS, end-state liveness oracle)",
                text="Same state space as C01; the oracle inspects every quiescent end state: no thread of the inbound path may be parked in a channel send or lock acquisition, and every inbound byte must have been consumed. Finds the one-slot result-channel wedge at deviation bound 1.",
                note=E1_NOTE),
    "C13": dict(engine="e1-vsched", design_ref="DESIGN.md §4 C13", technique="stateless model checking in virtual time (timer firings are scheduler events; early timers are enumerated deviations)",
                text="Timeouts 1 ms / 5 ms in virtual time against every peer behaviour (silent, late, duplicate, foreign frames); causal oracle: once a caller's own deadline timer fired, the caller never needs a later event to return; TIMED_OUT is never reported before the deadline; no registration is left behind.",
                note=E1_NOTE + " 'Small scheduling allowance' is interpreted causally, not in wall-clock milliseconds."),
}

CHECKS["C15"] = dict(engine="e1-vsched", design_ref="DESIGN.md §4 C15", technique="stateless model checking with fault injection (every cut offset x fault kind, reopen answers, user scripts; deviation-bounded DFS)",
    text="The real fAdapterTransport, monitorRunner and BaseFTransportMonitor over an in-memory stream: every byte offset at which a two-frame stream is cut x {EOF, I/O error, NOT_OPEN}, two failing sessions in a row, every reopen-answer pattern for policies MaxReopenAttempts 0..2, user scripts over Open/Close/IsOpen/Request racing the failure, write failures at every index; all schedules to the bound. Oracles on every end state: no thread parked forever in a lock or send, an open transport has a live reader, every watched session yields exactly one cause then a closed channel (nil only for clean closes), the monitor callback sequence equals a reference runner, lifecycle return codes equal a sequential reference.",
    note=E1_NOTE + " EOF inside a frame may be reported as clean or unclean (the statement does not settle it).")

CHECKS["C17"] = dict(engine="e1-vsched", design_ref="DESIGN.md §4 C17", technique="stateless model checking of the implementation, unbounded with happens-before state pruning; brute-force linearizability oracle; exhaustive mutation sequences",
    text="All interleavings (no bound) of 2-3 threads creating contexts by every route: op ids pairwise distinct and distinct from the received request's id. All interleavings of 2-3 threads running every operation pair and selected sequences on one shared FContext: the call/return history must be linearizable w.r.t. a three-map reference model (Clone = three reads within its interval), with returned maps and clones mutated afterwards to expose aliasing. Every mutation sequence of length 3-4 on original and clone after cloning (three routes), differential against reference maps.",
    note=E1_NOTE + " Unsynchronised plain accesses (a removed lock) are invisible to a cooperative scheduler; they are looked for by the free-running -race pass.")

CHECKS["C20"] = dict(engine="e1-vsched", design_ref="DESIGN.md §4 C20", technique="stateless model checking of the implementation over a broker model (deviation-bounded DFS, Stop at every stream position)",
    text="The real fNatsServer (Serve, Stop, handler, worker, drainNatsMessages) over fakenats with a counting processor: worker count 1-2 x queue length 0-2 x burst 2-3 x Stop at every position of the request stream, a racing second publisher, a request published after Stop returned; all schedules of publisher, broker dispatcher, drainer, workers, Serve and Stop to the bound. Oracle: requests routed before Stop was called are processed exactly once and replied before Serve returns; nothing published after Stop returned is processed; nothing is processed or replied twice; Stop and Serve return; no panic.",
    note=E1_NOTE + " fakenats is a hand-written model of nats.go v1.33.1 (dispatch, Drain, Flush, Barrier) bound to the source by reading, see its header comment.")

CHECKS["C07"] = dict(engine="e1-vsched", design_ref="DESIGN.md §4 C07", technique="stateless model checking of the implementation over broker models (all message sequences x unsubscribe positions x schedules)",
    text="The real NATS and STOMP subscriber and publisher transports over fakenats / fakestomp: every length-3 message sequence over {valid, foreign topic, 0-byte, 3-byte, bad header block, bad version}, Unsubscribe at every position and racing in its own thread, worker counts 1-2; all schedules of publisher, broker dispatcher, workers / processMessages, ack goroutines and unsubscriber to the bound. Reference model = list: only valid messages of the subscribed topic are delivered, at most once, in publish order for one worker, with unchanged payload and headers; all of them when nobody unsubscribes (so a bad message cannot kill the subscriber); none published after Unsubscribe returned; no panic.",
    note=E1_NOTE + " The generated recv<Op> layer (op-name check, payload decoding) is not part of this harness; a hand-written callback that parses the frame with the reference parser stands in for it.")

CHECKS["C05"] = dict(engine="e3-bytex", design_ref="DESIGN.md §3, §4 C05", technique="bounded-exhaustive input enumeration (all byte strings up to L over a boundary alphabet, all single field substitutions and truncations of template frames) at every receiving entry point, each inside a controlled-scheduler execution",
    text="All byte strings up to length 5 (7 thorough) over {00,01,04,05,7f,80,fe,ff}, raw / framed / behind a matching header size, JSON-alphabet strings behind valid headers, and for 15 well-formed template frames (request, reply, exception, unknown method, oneway x binary/compact/JSON) every truncation, every 4-byte field position x boundary value (pairs in thorough) and boundary byte flips; each fed to 22 entry points (registry.Execute, ExecuteFrame, NATS transport handler incl. status messages, getHeadersFromFrame, FProtocol header readers, FBaseProcessor.Process, fNatsServer.processFrame, HTTP handler func, HTTP client response path, processReply, FSimpleServer.accept, TFramedTransport.Read) under recover and inside a vsched execution; then a well-formed message must still be handled by the same receiver.",
    note="Trusted base: harness entry-point drivers, vsched, Apache Thrift as linked. Asynchronous loops (adapter read loop, subscriber loops) are driven by the C15/C07 harnesses; generated recv callbacks by the E2 checks. Declared header sizes of 1 MiB..2 GiB are skipped per entry point (counted) and represented by probes.")

CHECKS["C04"] = dict(engine="e3-bytex", design_ref="DESIGN.md §4 C04", technique="bounded-exhaustive enumeration of header maps against an independent reference codec, cross-checked with the Python runtime's codec",
    text="Every header map with 0-3 entries (4 in thorough) over 8 boundary strings (empty, 1 byte, reserved name, 2- and 3-byte UTF-8, NUL, 255 and 256 bytes) plus op-id maps, non-UTF-8 bytes and 70000-byte strings, each with 4 payloads (empty, 1 byte, header-lookalike, 1 KiB): bytes from writeHeader / WriteRequestHeader / WriteResponseHeader are checked against the documented v0 layout by a reference parser written from documentation/protocol.md; readHeader (stream), getHeadersFromFrame, addHeadersToFrame and ReadRequestHeader must return the identical map, leave the payload untouched and the transport at its first byte, on the code's own bytes and on reference encodings; the same cases go through lib/python/frugal/util/headers.py in both directions.",
    note="Trusted base: the reference codec in harness/e1/vf_ref.go and lib/pyhdr.py; a 12-line stub stands in for the missing Python thrift package (only TProtocolException is needed).")

CHECKS["C12"] = dict(engine="e3-bytex", design_ref="DESIGN.md §4 C12", technique="exhaustive boundary-grid enumeration (measured exact size S; limit at S-1, S, S+1, ...) over shapes x protocols x transports x directions, driving the real client/server paths",
    text="For 8 message shapes x 3 protocols x payload size classes the exact framed size is measured with an unbounded buffer; the limit is then placed at S-1, S, S+1, S-4, S+4, S/2 and 2S for the bounded output buffer, HTTP requests and responses (in-process round trip through NewFrugalHandlerFunc) and STOMP publishes, and the payload is sized to limit-1, limit, limit+1, limit+5 for request, response and publish over the real NATS transport, server and publisher on the broker model. Oracle: size > limit => REQUEST_TOO_LARGE / RESPONSE_TOO_LARGE and nothing handed to the transport (never a timeout); size <= limit => success with identical bytes; a small call afterwards succeeds.",
    note="Trusted base: hand-written TStruct shapes and a processor function that mirrors generated code (read args, SendReply); fakenats/fakestomp; NATS cases run inside a vsched execution (single default schedule). For the HTTP response limit the 4-byte frame prefix gap (unframed <= limit < framed) is accepted either way.")

CHECKS["C10"] = dict(engine="e2-idlx", design_ref="DESIGN.md §4 C10", technique="bounded-exhaustive program enumeration (all declaration atoms x all lexical styles) against an independent model of the IDL",
    text="1555 declaration atoms (3500+ thorough: container depth 2) - fields of every type shape x requiredness x default, enum numbering patterns, constants of every literal kind, typedefs, unions, exceptions, 68 service shapes, scope prefixes, namespaces, includes, and 34 awkward identifiers in 20 identifier positions - each rendered under 48 (120 thorough) lexical styles; parser.ParseFrugal's result, dumped canonically, must equal the model the text was rendered from and be independent of the style. Enum numbering follows Thrift (previous + 1).",
    note="Trusted base: the model/renderer in engine/idlx/idl. 66 grammar findings (identifiers starting with a keyword in type / value positions, dotted enum constant as a const value) are listed in KNOWN_FINDINGS.txt: the PEG generator is not available offline.")

NOT_APPLICABLE = {}
