#!/bin/bash
# usage: seedcheck.sh <dir with patch.diff> <check ids...> — applies an already confirmed change to the
# scratch worktree /tmp/mrepo and runs only the named checks against it.
D="$1"; shift
W=${SEED_W:-/tmp/mrepo}
git -C /repo worktree list | grep -q "$W" || git -C /repo worktree add --detach $W HEAD -f >/dev/null
git -C $W checkout -q --detach $(git -C /repo rev-parse HEAD); git -C $W checkout -q -- .; git -C $W clean -fdq
git -C $W apply "$D/patch.diff" || { echo "PATCH-DOES-NOT-APPLY"; exit 3; }
for c in "$@"; do
  VERIF_EVIDENCE_DIR=/tmp/seed_ev VERIF_REPO=$W /verif/check $c > /tmp/seed_check_$c.out 2>&1; rc=$?
  echo "check $c exit=$rc keys: $(grep '^  key=' /tmp/seed_check_$c.out | head -4 | tr '\n' ' ')"
done
git -C $W checkout -q -- .; git -C $W clean -fdq
rm -rf /verif/evidence/replays
