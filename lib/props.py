"""Property table: which engine and configuration decides each property."""
import e1, e3, c04

E1_ASSUME = [
    "interleavings are explored at synchronisation operations only (mutex, rwmutex, waitgroup, atomic, channel, select, go, timer, context); plain-memory data races are outside this search and are looked for by the separate free-running -race pass",
    "virtual time: timers fire in deadline order, by default at quiescence; an early timer is a counted deviation",
    "state keys are 64-bit happens-before hashes; equal keys are treated as equal states",
]

PROPS = {
    "C01": dict(run=e1.run, replay=e1.replay, harnesses=["mux"], level="model_checking",
                bound={"quick": 1, "thorough": 2}, budget={"quick": 120, "thorough": 900},
                assumptions=E1_ASSUME,
                explanation="real fAdapterTransport over an in-memory pipe; 2-3 concurrent callers; every response sequence of length 3 (4 thorough) over {resp(op_i), resp(unknown)} with every arrival moment; all schedules up to the deviation bound"),
    "C06": dict(run=e1.run, replay=e1.replay, harnesses=["mux"], level="model_checking",
                bound={"quick": 1, "thorough": 2}, budget={"quick": 120, "thorough": 900},
                assumptions=E1_ASSUME,
                explanation="same executions as C01; oracle: at quiescence no thread of the inbound path is parked in a channel send or lock, and every inbound byte was consumed"),
    "C13": dict(run=e1.run, replay=e1.replay, harnesses=["mux"], level="model_checking",
                bound={"quick": 1, "thorough": 2}, budget={"quick": 120, "thorough": 900},
                assumptions=E1_ASSUME,
                explanation="callers with 1ms/5ms timeouts against every peer behaviour; oracle is causal: a caller whose own deadline timer has fired never needs a later event to return, and TIMED_OUT is never reported before the deadline"),
    "C15": dict(run=e1.run, replay=e1.replay, harnesses=["life"], level="fault_enumeration",
                bound={"quick": 2, "thorough": 3}, budget={"quick": 120, "thorough": 900},
                assumptions=E1_ASSUME,
                explanation="real fAdapterTransport + monitorRunner + BaseFTransportMonitor over an in-memory stream; every cut offset x fault kind of a two-frame stream, 2-session failure histories, reopen answers, policies MaxReopenAttempts 0..2, user lifecycle scripts; all schedules up to the deviation bound"),
    "C17": dict(run=e1.run, replay=e1.replay, harnesses=["ctx"], level="model_checking",
                bound={}, budget={"quick": 120, "thorough": 900},
                assumptions=E1_ASSUME,
                explanation="(i) 2-3 threads creating contexts by every route (NewFContext, Clone(ctx), ctx.Clone(), Clone of a foreign FContext, ReadRequestHeader), all interleavings unbounded: op ids pairwise distinct; (ii) 2-3 threads running every operation pair / selected length-2 sequences on one shared FContext, all interleavings unbounded: brute-force linearizability against a three-map model, returned maps and clones mutated to expose aliasing; (iii) every mutation sequence of length 3 (4) on original and clone after cloning by each route, differential against reference maps"),
    "C20": dict(run=e1.run, replay=e1.replay, harnesses=["natssrv"], level="model_checking",
                bound={}, budget={"quick": 120, "thorough": 900},
                assumptions=E1_ASSUME + ["fakenats mirrors nats.go v1.33.1 dispatch/Drain/Flush/Barrier semantics (engine/vsched/fakenats, header comment)"],
                explanation="real fNatsServer over fakenats: workers 1-2 x queue length 0-2 x burst 2-3 x Stop at every position of the request stream (+ a racing second publisher, + a request after Stop returned); all schedules of publisher, dispatcher, drainer, workers, Serve and Stop to the bound"),
    "C07": dict(run=e1.run, replay=e1.replay, harnesses=["pubsub"], level="model_checking",
                bound={}, budget={"quick": 120, "thorough": 900},
                assumptions=E1_ASSUME + ["fakenats / fakestomp mirror nats.go v1.33.1 and go-stomp v2.1.4 subscription semantics (see the packages' header comments)"],
                explanation="real NATS and STOMP subscriber/publisher transports over broker models: every length-3 sequence over {valid, foreign topic, 0-byte, 3-byte, bad header block, bad version} containing a valid message, Unsubscribe at every position and racing, worker counts 1-2; all schedules to the bound"),
    "C05": dict(run=e3.run, replay=e3.replay, level="fault_enumeration",
                assumptions=["inputs whose declared header size lies between 1 MiB and 2 GiB make the stream readers allocate that much before reading (about a second each); they are counted as skipped per entry point and represented by explicit probes; such an allocation is recorded as a diagnostic, not a violation",
                             "asynchronous receivers (adapter read loop, NATS/STOMP subscriber loops) are covered by the E1 harnesses of C15/C07 with malformed bodies; this check drives the synchronous entry points they call"],
                explanation="every input runs inside its own controlled-scheduler execution, so a call that parks forever is a detected end state rather than a timeout"),
    "C04": dict(run=c04.run, replay=c04.replay, level="exploration"),
}
