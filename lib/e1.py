"""E1: exploration of instrumented lib/go under the vsched controlled scheduler."""
import json, os, subprocess, time, concurrent.futures as cf
import runner
from runner import EngineError, VERIF, GOENV, NPROC


def build(ctx, race=False):
    s = ctx.mkscratch()
    args = [os.path.join(VERIF, "lib", "e1build.sh"), s]
    if race:
        args.append("-race")
    p = subprocess.run(args, env=GOENV, capture_output=True, text=True)
    if p.returncode != 0:
        raise EngineError("E1 build failed:\n" + p.stdout[-3000:] + p.stderr[-2000:])
    return os.path.join(s, "e1")


def _run_one(exe, harness, prop, tier, scn, budget, bound):
    cmd = [exe, "-harness", harness, "-prop", prop, "-tier", tier, "-scenario", scn]
    if budget:
        cmd += ["-budget", "%ds" % budget]
    if bound is not None:
        cmd += ["-bound", str(bound)]
    env = dict(GOENV, GOMAXPROCS="2")
    try:
        p = subprocess.run(cmd, env=env, capture_output=True, text=True, timeout=(budget or 3600) + 600)
    except subprocess.TimeoutExpired:
        return {"harness": harness, "scenario": scn, "error": "worker timeout"}
    if p.returncode != 0 or not p.stdout.strip():
        return {"harness": harness, "scenario": scn, "error": "worker exit %d: %s" % (p.returncode, (p.stderr or p.stdout)[-2000:])}
    try:
        return json.loads(p.stdout.strip().splitlines()[-1])
    except Exception as e:
        return {"harness": harness, "scenario": scn, "error": "bad worker output: %s" % e}


def run(ctx, spec):
    """spec: harnesses=[name], level, budget={quick: s, thorough: s} per scenario, bound override."""
    cov = explore(ctx, spec)
    ctx.assumptions += spec.get("assumptions", [])
    if spec.get("post"):
        spec["post"](ctx, cov)
    return runner.finish(ctx, spec.get("level", "model_checking"), cov)


def conformance_post(ctx, cov):
    """Binds the broker model to the implementation it stands for: lib/brokerconf.sh explores every
    script of a bounded alphabet on fakenats (all schedules) and replays it against nats.go + an
    embedded nats-server; every real observation must be a model outcome. The result is recorded in
    the evidence; it never changes the verdict on the property (a mismatch is a defect of the model,
    printed as CONFORMANCE-MISMATCH, to be repaired in /verif)."""
    s = ctx.mkscratch()
    rep = os.path.join(s, "brokerconf.json")
    try:
        p = subprocess.run([os.path.join(VERIF, "lib", "brokerconf.sh"), ctx.tier, rep], env=GOENV, capture_output=True, text=True, timeout=3000)
        out = (p.stdout or "") + (p.stderr or "")
        r = json.load(open(rep)) if os.path.exists(rep) else None
    except Exception as e:  # never let the binding step decide the property
        cov["model_conformance"] = {"status": "not run: %s" % e}
        return
    if r is None:
        cov["model_conformance"] = {"status": "not run", "output": out[-600:]}
        return
    keep = ("status", "scripts", "script_depth", "model_executions", "model_states", "model_transitions", "model_outcomes",
            "real_runs", "real_distinct_observations", "real_runs_inconclusive", "server", "wall_s",
            "scripts_where_zero_latency_submodel_misses_a_real_observation", "zero_latency_gap_examples")
    mc = {k: r.get(k) for k in keep}
    mc["model_capped_scripts"] = len(r.get("model_capped_scripts") or [])
    mc["unexplained_once"] = (r.get("unexplained_once") or [])[:5]
    mc["mismatches"] = (r.get("mismatches") or [])[:10]
    mc["how"] = ("every script (subscribe / queue-subscribe / publish / request / unsubscribe / drain / flush / barrier / gated callback; all of length <= script_depth plus 8 longer ones shaped like lib/go's use) "
                 "is explored on the model under vsched without a deviation bound (asynchronous-routing model; its zero-latency sub-model must only show outcomes of the full model) and run several times against the real client and server; "
                 "each real observation (per-operation results + global callback log) must be one of the model's outcomes")
    cov["model_conformance"] = mc
    if mc["mismatches"]:
        print("CONFORMANCE-MISMATCH: the broker model lacks behaviours of the real client/server:")
        for m in mc["mismatches"]:
            print("  " + m)


def conformance_post_both(ctx, cov):
    """C07 runs on two broker models: fakenats (bound by lib/brokerconf.sh) and fakestomp (bound by
    lib/stompconf.sh against the go-stomp client and go-stomp's own server package)."""
    conformance_post(ctx, cov)
    s = ctx.mkscratch()
    rep = os.path.join(s, "stompconf.json")
    try:
        p = subprocess.run([os.path.join(VERIF, "lib", "stompconf.sh"), ctx.tier, rep], env=GOENV, capture_output=True, text=True, timeout=3000)
        out = (p.stdout or "") + (p.stderr or "")
        r = json.load(open(rep)) if os.path.exists(rep) else None
    except Exception as e:
        cov["model_conformance_stomp"] = {"status": "not run: %s" % e}
        return
    if r is None:
        cov["model_conformance_stomp"] = {"status": "not run", "output": out[-600:]}
        return
    keep = ("status", "scripts", "script_depth", "model_executions", "model_states", "model_transitions", "model_outcomes",
            "real_runs", "real_distinct_observations", "real_runs_inconclusive", "server", "wall_s")
    mc = {k: r.get(k) for k in keep}
    mc["model_capped_scripts"] = len(r.get("model_capped_scripts") or [])
    mc["unexplained_once"] = (r.get("unexplained_once") or [])[:5]
    mc["mismatches"] = (r.get("mismatches") or [])[:10]
    mc["how"] = ("every script over {subscribe to a topic / another topic / a queue, with client-individual or auto acks; send to either topic or the queue; receive from a subscription's channel} of length <= script_depth that starts with a subscription, "
                 "plus longer ones (bursts, two subscribers, queue consumers, messages sent before anybody subscribed, subscription ids in use), is explored on fakestomp under vsched (all Choose answers) and run several times against the real client and server; "
                 "each real observation (per-operation results, then what every subscription's channel still yields) must be one of the model's outcomes; an unexplained observation is looked for again with ten times longer receive waits before it counts")
    mc["not_compared"] = ("Unsubscribe and Ack: go-stomp's server package never answers UNSUBSCRIBE with a RECEIPT (the client's Unsubscribe waits forever) and rejects the client's STOMP 1.2 ACK frame, "
                          "and no other STOMP server exists in the sandbox; those two operations of the model stay bound to go-stomp v2.1.4 by reading its sources")
    cov["model_conformance_stomp"] = mc
    if mc["mismatches"]:
        print("CONFORMANCE-MISMATCH: the STOMP broker model lacks behaviours of the real client/server:")
        for m in mc["mismatches"]:
            print("  " + m)


def explore(ctx, spec):
    """Runs the harness scenarios, records violations in ctx and returns the coverage dict."""
    exe = build(ctx)
    tier = ctx.tier
    jobs = []
    for h in spec["harnesses"]:
        p = subprocess.run([exe, "-harness", h, "-list", "-tier", tier], env=GOENV, capture_output=True, text=True)
        if p.returncode != 0:
            raise EngineError("listing scenarios of %s failed: %s" % (h, p.stderr[-1000:]))
        for scn in json.loads(p.stdout):
            jobs.append((h, scn))
    budget = spec.get("budget", {}).get(tier, 0)
    bound = spec.get("bound", {}).get(tier)
    results = []
    with cf.ThreadPoolExecutor(max_workers=NPROC) as ex:
        futs = [ex.submit(_run_one, exe, h, ctx.pid, tier, scn, budget, bound) for h, scn in jobs]
        for f in futs:
            results.append(f.result())
    tot = dict(executions=0, complete=0, pruned=0, states=0, transitions=0, horizon_hits=0)
    outcomes = set()
    capped = []
    samples = []
    errors = []
    max_threads = max_points = 0
    bounds = set()
    for r in results:
        if r.get("error"):
            errors.append("%s[%s]: %s" % (r.get("harness"), r.get("scenario"), r["error"]))
        st = r.get("stats") or {}
        for k in tot:
            tot[k] += st.get(k, 0)
        for o in (st.get("outcomes") or {}):
            outcomes.add(r["harness"] + "|" + r["scenario"] + "|" + o)
        if st.get("capped"):
            capped.append("%s[%s]: %s" % (r["harness"], r["scenario"], st["capped"]))
        max_threads = max(max_threads, st.get("max_threads", 0))
        max_points = max(max_points, st.get("max_points", 0))
        if "bound" in st:
            bounds.add(st["bound"])
        if r.get("samples") and len(samples) < 6:
            samples.append({"harness": r["harness"], "scenario": r["scenario"], "execution": r["samples"][0]})
        for v in (r.get("violations") or []):
            ctx.violation(v["key"], v["msg"], {
                "engine": "e1", "harness": r["harness"], "scenario": r["scenario"],
                "violation": v})
    slow = sorted(((r.get("wall_s", 0), r.get("scenario")) for r in results), reverse=True)[:5]
    if os.environ.get("VERIF_VERBOSE"):
        print("slowest scenarios:", slow)
    if errors and not ctx.violations:
        raise EngineError("; ".join(errors[:5]))
    viol_cap_only = [c for c in capped if "violation cap" in c]
    real_caps = [c for c in capped if "violation cap" not in c]
    cov = {
        "evaluations": max(tot["complete"], 1), "distinct_nontrivial": len(outcomes),
        "rule": "executions = complete schedules of the real code run to quiescence under the controlled scheduler (every scenario of the harness x every interleaving / timer firing / environment answer up to the deviation bound, equal happens-before states pruned); non-trivial = distinct (scenario, observed outcome) pairs",
        "states": max(tot["states"], 1), "transitions": max(tot["transitions"], 1),
        "traces_validated_against_impl": tot["complete"],
        "samples": samples or [{"note": "no complete execution"}],
        "executions": tot["executions"], "complete_executions": tot["complete"],
        "pruned_executions": tot["pruned"], "scenarios": len(jobs),
        "deviation_bound": sorted(bounds), "distinct_outcomes": len(outcomes),
        "max_threads": max_threads, "max_decision_points": max_points,
        "horizon_hits": tot["horizon_hits"],
        "capped": real_caps, "exhaustive": not real_caps and not errors,
        "explanation": spec.get("explanation", ""),
        "worker_errors": errors[:5],
        "slowest_scenarios": [{"scenario": n, "wall_s": round(w, 1)} for w, n in slow],
    }
    return cov


def race_pass(ctx, cov):
    """Supplementary free-running pass under the race detector (C17): same operation alphabet on real
    goroutines. A race whose stacks are in non-test lib/go files, reproduced in 3 of 3 runs, is a
    violation; anything else about this pass is recorded but never decides."""
    import re, shutil
    s = ctx.mkscratch()
    d = os.path.join(s, "race")
    shutil.rmtree(d, ignore_errors=True)
    os.makedirs(d)
    src = os.path.join(runner.REPO, "lib", "go")
    for f in os.listdir(src):
        if (f.endswith(".go") and not f.endswith("_test.go")) or f in ("go.mod", "go.sum"):
            shutil.copy(os.path.join(src, f), d)
    shutil.copy(os.path.join(VERIF, "harness", "race", "zz_verif_race_test.go"), d)
    runs, reports, failures = 3, [], []
    for i in range(runs):
        p = subprocess.run(["go", "test", "-race", "-vet=off", "-count=1", "-timeout", "180s", "-run", "TestVerifRace", "."], cwd=d, env=GOENV, capture_output=True, text=True, timeout=1800)
        out = p.stdout + p.stderr
        if "WARNING: DATA RACE" in out:
            lines = re.findall(r"\n\s+(github\.com/Workiva/frugal/lib/go\.[^\n]+)", out)
            # "pkg.(*T).Method(args)" -> "pkg.(*T).Method"
            fns = [re.sub(r"\([^()]*\)$", "", l.strip()) for l in lines]
            fns = [f for f in fns if "TestVerifRace" not in f and "zz_verif" not in f]
            reports.append(sorted(set(fns))[:6])
        elif p.returncode != 0:
            if "build failed" in out or "cannot find" in out:
                cov["race_pass"] = {"error": out[-500:]}
                return
            failures.append(out[-800:])
    cov["race_pass"] = {"runs": runs, "runs_with_race_reports": len(reports), "other_failures": len(failures)}
    if len(reports) == runs:
        site = (reports[0] or ["?"])[0].split("/")[-1]
        ctx.violation("C17/data-race/" + site, "the race detector reports a data race in lib/go in every one of %d free-running runs of the shared-FContext operations: %s" % (runs, reports[0]), {"engine": "race", "functions": reports[0]})
    if len(failures) == runs:
        ctx.violation("C17/race-pass-failure", "the free-running pass fails in every run: " + failures[0][-400:], {"engine": "race", "output": failures[0]})


def replay(ctx, spec, path):
    rep = json.load(open(path))
    exe = build(ctx)
    p = subprocess.run([exe, "-harness", rep["harness"], "-prop", ctx.pid, "-replay", path], env=GOENV, text=True)
    return p.returncode
