#!/bin/bash
# usage: stompconf.sh <tier> <report.json>
# Builds and runs the STOMP broker-model conformance program (harness/stompconf): every script of the
# bounded alphabet is explored exhaustively on the model (fakestomp under vsched) and run against the
# real go-stomp client talking to go-stomp's own server package over loopback; every real observation
# must be a model outcome. Exit 0: conforms or skipped (no loopback); exit 3: mismatch; exit 2: build problem.
set -u
TIER="${1:-quick}"; OUT="${2:-}"
REPO="${VERIF_REPO:-/repo}"
export GOFLAGS=-mod=mod GOPROXY=off GOSUMDB=off GOTOOLCHAIN=local
V=/verif
S=$(mktemp -d); trap 'rm -rf "$S"' EXIT
cp $V/harness/stompconf/*.go "$S/"
cp "$REPO/lib/go/go.sum" "$S/go.sum"
cat > "$S/go.mod" <<EOM
module stompconf

go 1.20

require (
	github.com/go-stomp/stomp v2.1.4+incompatible
	verif/engine v0.0.0
)

replace verif/engine => $V/engine
EOM
cd "$S" && go build -trimpath -o sc . > build.log 2>&1 || { head -30 build.log; echo "ENGINE-ERROR: stompconf build failed"; exit 2; }
if [ "$TIER" = thorough ]; then D=4; R=3; else D=3; R=2; fi
N=${STOMPCONF_JOBS:-4}
rc=0
for i in $(seq 0 $((N-1))); do
  ( ./sc -depth ${STOMPCONF_DEPTH:-$D} -reps $R -tier "$TIER" -shard $i -nshards $N -out "$S/rep_$i.json" > "$S/out_$i.txt" 2>&1; echo $? > "$S/rc_$i" ) &
done
wait
python3 - "$S" "$N" "$OUT" <<'EOP'
import json, sys
S, N, OUT = sys.argv[1], int(sys.argv[2]), sys.argv[3]
tot = None
for i in range(N):
    try:
        rc = int(open(f"{S}/rc_{i}").read()); r = json.load(open(f"{S}/rep_{i}.json"))
    except Exception as e:
        print("ENGINE-ERROR: stompconf shard", i, "left no report:", e); print(open(f"{S}/out_{i}.txt").read()[-2000:]); sys.exit(2)
    if rc not in (0, 3):
        print("ENGINE-ERROR: stompconf shard", i, "exit", rc); print(open(f"{S}/out_{i}.txt").read()[-2000:]); sys.exit(2)
    if tot is None:
        tot = r; continue
    for k, v in r.items():
        if isinstance(v, (int, float)) and k not in ("script_depth", "scripts"):
            tot[k] = max(tot[k], v) if k == "wall_s" else tot[k] + v
        elif isinstance(v, list):
            tot[k] = (tot[k] or []) + (v or [])
    if r["status"].startswith("skipped"): tot["status"] = r["status"]
if tot.get("mismatches"): tot["status"] = "mismatch"
tot["shards"] = N
if OUT: json.dump(tot, open(OUT, "w"), indent=1)
print("STOMP-CONFORMANCE %s: %d scripts (depth %d) in %d shards; model: %d executions, %d states, %d transitions, %d outcomes, %d scripts capped; real: %d runs, %d distinct observations, %d inconclusive, %d unexplained once, %d mismatches; %.1fs" % (
  tot["status"], tot["scripts"], tot["script_depth"], N, tot["model_executions"], tot["model_states"], tot["model_transitions"], tot["model_outcomes"], len(tot.get("model_capped_scripts") or []),
  tot["real_runs"], tot["real_distinct_observations"], tot["real_runs_inconclusive"], len(tot.get("unexplained_once") or []), len(tot.get("mismatches") or [])), tot["wall_s"]) if False else None
print("STOMP-CONFORMANCE %s: %d scripts (depth %d); model: %d executions, %d states, %d outcomes; real: %d runs, %d distinct observations, %d mismatches" % (tot["status"], tot["scripts"], tot["script_depth"], tot["model_executions"], tot["model_states"], tot["model_outcomes"], tot["real_runs"], tot["real_distinct_observations"], len(tot.get("mismatches") or [])))
for m in (tot.get("mismatches") or []): print("  MISMATCH", m)
sys.exit(3 if tot["status"] == "mismatch" else 0)
EOP
